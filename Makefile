export GOFLAGS=-mod=mod
export GOPROXY=off
export GOSUMDB=off
export GOTOOLCHAIN=local

.PHONY: setup govc warm
setup: govc warm

govc:
	cd govc && go build -o ../bin/govc .

# warm the go list -export cache for the packages the checks load (first load compiles dependencies)
warm:
	cd /repo && go build ./x/... ./pkg/... ./app/... ./yoda/... ./grogu/... ./cylinder/... ./client/... >/dev/null 2>&1 || true
	cd /repo && go vet -tags verif ./x/feeds/types >/dev/null 2>&1 || true
