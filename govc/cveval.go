package main

import (
	"fmt"
	"go/constant"
	"go/parser"
	"go/types"
	"math/big"
	"strings"

	"golang.org/x/tools/go/packages"
)

// Concrete evaluation of spec expressions (used only for replay / conformance, never for proof).

type CEnv struct {
	e        *Engine
	pkg      *packages.Package
	names    map[string]*CV
	oldNames map[string]*CV
	bound    map[string]*CV
	inOld    bool
	maxLen   int
	depth    int
}

type cvErr struct{ what string }

func cvFail(f string, a ...interface{}) { panic(cvErr{fmt.Sprintf(f, a...)}) }

func (c *CEnv) with(n string, v *CV) *CEnv {
	d := *c
	d.bound = map[string]*CV{}
	for k, x := range c.bound {
		d.bound[k] = x
	}
	d.bound[n] = v
	return &d
}

func (c *CEnv) lookup(name string) *CV {
	if v, ok := c.bound[name]; ok {
		return v
	}
	if c.inOld && c.oldNames != nil {
		if v, ok := c.oldNames[name]; ok {
			return v
		}
	}
	if v, ok := c.names[name]; ok {
		return v
	}
	switch name {
	case "true":
		return cvBool(true)
	case "false":
		return cvBool(false)
	case "nil":
		return cvInt(0)
	case "MaxInt64":
		return cvInt(9223372036854775807)
	case "MinInt64":
		return cvInt(-9223372036854775808)
	case "MaxUint64":
		b, _ := new(big.Int).SetString("18446744073709551615", 10)
		return cvBig(b)
	case "T62":
		return cvInt(4611686018427387904)
	case "T61":
		return cvInt(2305843009213693952)
	case "TimeZero":
		b, _ := new(big.Int).SetString("-62135596800000000000", 10)
		return cvBig(b)
	}
	if c.pkg != nil {
		if obj := c.pkg.Types.Scope().Lookup(name); obj != nil {
			if k, ok := obj.(*types.Const); ok {
				return constCV(k.Val())
			}
		}
	}
	if sf, ok := c.e.cs.Specs[name]; ok && len(sf.Params) == 0 && sf.Body != nil {
		return cvEval(sf.Body, c)
	}
	cvFail("unknown name %s", name)
	return nil
}

func constCV(v constant.Value) *CV {
	switch v.Kind() {
	case constant.Int:
		b, _ := new(big.Int).SetString(v.ExactString(), 10)
		return cvBig(b)
	case constant.Bool:
		return cvBool(constant.BoolVal(v))
	case constant.String:
		return cvStr(constant.StringVal(v))
	}
	cvFail("constant kind")
	return nil
}

func tdivBig(a, b *big.Int) *big.Int {
	if b.Sign() == 0 {
		cvFail("division by zero in spec")
	}
	return new(big.Int).Quo(a, b) // truncated
}

func cvEval(n *SNode, c *CEnv) *CV {
	c.depth++
	defer func() { c.depth-- }()
	if c.depth > 4000 {
		cvFail("spec recursion too deep")
	}
	switch n.Op {
	case "num":
		b, _ := new(big.Int).SetString(n.Name, 0)
		return cvBig(b)
	case "str":
		return cvStr(n.Name)
	case "id":
		return c.lookup(n.Name)
	case "old":
		d := *c
		d.inOld = true
		return cvEval(n.Args[0], &d)
	case "un":
		x := cvEval(n.Args[0], c)
		if n.Name == "!" {
			return cvBool(!x.B)
		}
		return cvBig(new(big.Int).Neg(x.I))
	case "ite":
		if cvEval(n.Args[0], c).B {
			return cvEval(n.Args[1], c)
		}
		return cvEval(n.Args[2], c)
	case "let":
		return cvEval(n.Args[1], c.with(n.Name, cvEval(n.Args[0], c)))
	case "forall", "exists":
		for _, b := range n.Binders {
			if b.Type != "" && b.Type != "Int" && b.Type != "int" {
				cvFail("quantifier over %s cannot be evaluated concretely", b.Type)
			}
		}
		return cvBool(cvQuant(n, n.Binders, c))
	case "bin":
		return cvBin(n, c)
	case "field":
		if n.Args[0].Op == "id" {
			if _, isName := c.tryLookup(n.Args[0].Name); !isName && c.pkg != nil {
				// the qualifier is the name the package is imported under in the source files (an alias such as
				// feedstypes), not necessarily the package's own name
				if imp := (&FCtx{E: c.e}).importByName(c.pkg, n.Args[0].Name); imp != nil {
					if obj := imp.Scope().Lookup(n.Name); obj != nil {
						if k, ok := obj.(*types.Const); ok {
							return constCV(k.Val())
						}
					}
				}
			}
		}
		x := cvEval(n.Args[0], c)
		if x.K == "struct" {
			if v, ok := x.F[n.Name]; ok {
				return v
			}
			for _, f := range x.F {
				if f.K == "struct" {
					if v, ok := f.F[n.Name]; ok {
						return v
					}
				}
			}
		}
		cvFail("no field %s", n.Name)
	case "index":
		b := cvEval(n.Args[0], c)
		i := cvEval(n.Args[1], c)
		if b.K == "map" {
			for _, e := range b.L {
				if e.F["k"].equal(i) {
					return e.F["v"]
				}
			}
			cvFail("map key not present in spec")
		}
		if b.K != "slice" || !i.I.IsInt64() || i.I.Int64() < 0 || i.I.Int64() >= int64(len(b.L)) {
			cvFail("index out of range in spec")
		}
		return b.L[i.I.Int64()]
	case "call":
		return cvCall(n, c)
	case "lit":
		tn := n.Args[0]
		name := tn.Name
		if tn.Op == "field" {
			name = tn.Args[0].Name + "." + tn.Name
		}
		if c.e == nil || c.pkg == nil {
			cvFail("struct literal without package context")
		}
		ex, perr := parser.ParseExpr(name)
		if perr != nil {
			cvFail("struct literal type %s", name)
		}
		t := (&FCtx{E: c.e}).typeFromExpr(ex, c.pkg)
		if t == nil {
			cvFail("struct literal type %s", name)
		}
		st, ok := t.Underlying().(*types.Struct)
		if !ok {
			cvFail("literal of non-struct %s", name)
		}
		r := &CV{K: "struct", F: map[string]*CV{}}
		k := 1
		for i := 0; i < st.NumFields(); i++ {
			f := st.Field(i)
			if strings.HasPrefix(f.Name(), "XXX_") {
				continue
			}
			if k >= len(n.Args) {
				cvFail("literal %s: too few fields", name)
			}
			r.F[f.Name()] = cvEval(n.Args[k], c)
			k++
		}
		return r
	}
	cvFail("unsupported spec node %s", n.Op)
	return nil
}

func (c *CEnv) tryLookup(name string) (v *CV, ok bool) {
	defer func() {
		if r := recover(); r != nil {
			if _, is := r.(cvErr); is {
				ok = false
				return
			}
			panic(r)
		}
	}()
	return c.lookup(name), true
}

func cvQuant(n *SNode, bs []Binder, c *CEnv) bool {
	if len(bs) == 0 {
		return cvTryBool(n.Args[0], c, n.Op == "forall")
	}
	for i := -1; i <= c.maxLen+1; i++ {
		r := cvQuant(n, bs[1:], c.with(bs[0].Name, cvInt(int64(i))))
		if n.Op == "forall" && !r {
			return false
		}
		if n.Op == "exists" && r {
			return true
		}
	}
	return n.Op == "forall"
}

// cvTryBool evaluates a quantifier body; evaluation errors (index out of range under a guard that
// is false) count as the neutral element.
func cvTryBool(n *SNode, c *CEnv, neutral bool) (res bool) {
	defer func() {
		if r := recover(); r != nil {
			// only the partiality of indexing is neutral under a quantifier (the bound variable ranges a little beyond
			// the collections); any other evaluation failure makes the whole clause non-evaluable, it must not be read
			// as "false"
			if ce, is := r.(cvErr); is && (strings.Contains(ce.what, "index out of range") || strings.Contains(ce.what, "map key not present")) {
				res = neutral
				return
			}
			panic(r)
		}
	}()
	return cvEval(n, c).B
}

func cvBin(n *SNode, c *CEnv) *CV {
	switch n.Name {
	case "&&":
		if !cvEval(n.Args[0], c).B {
			return cvBool(false)
		}
		return cvBool(cvEval(n.Args[1], c).B)
	case "||":
		if cvEval(n.Args[0], c).B {
			return cvBool(true)
		}
		return cvBool(cvEval(n.Args[1], c).B)
	case "==>":
		if !cvEval(n.Args[0], c).B {
			return cvBool(true)
		}
		return cvBool(cvEval(n.Args[1], c).B)
	case "<==>":
		return cvBool(cvEval(n.Args[0], c).B == cvEval(n.Args[1], c).B)
	}
	x := cvEval(n.Args[0], c)
	y := cvEval(n.Args[1], c)
	switch n.Name {
	case "==":
		return cvBool(x.equal(y))
	case "!=":
		return cvBool(!x.equal(y))
	}
	if x.K == "str" && y.K == "str" {
		switch n.Name {
		case "<":
			return cvBool(x.S < y.S)
		case "<=":
			return cvBool(x.S <= y.S)
		case ">":
			return cvBool(x.S > y.S)
		case ">=":
			return cvBool(x.S >= y.S)
		}
	}
	if x.K != "int" || y.K != "int" {
		cvFail("arithmetic on non-int")
	}
	switch n.Name {
	case "<":
		return cvBool(x.I.Cmp(y.I) < 0)
	case "<=":
		return cvBool(x.I.Cmp(y.I) <= 0)
	case ">":
		return cvBool(x.I.Cmp(y.I) > 0)
	case ">=":
		return cvBool(x.I.Cmp(y.I) >= 0)
	case "+":
		return cvBig(new(big.Int).Add(x.I, y.I))
	case "-":
		return cvBig(new(big.Int).Sub(x.I, y.I))
	case "*":
		return cvBig(new(big.Int).Mul(x.I, y.I))
	case "/":
		return cvBig(tdivBig(x.I, y.I))
	case "%":
		if y.I.Sign() == 0 {
			cvFail("mod by zero")
		}
		return cvBig(new(big.Int).Rem(x.I, y.I))
	}
	cvFail("operator %s", n.Name)
	return nil
}

func wrapBig(b *big.Int, mn string) *big.Int {
	lo, hi := rangeOf(mn)
	m := new(big.Int).Sub(hi, lo)
	m.Add(m, big.NewInt(1))
	r := new(big.Int).Sub(b, lo)
	r.Mod(r, m)
	return r.Add(r, lo)
}

func cvCall(n *SNode, c *CEnv) *CV {
	fn := n.Args[0]
	var args []*CV
	evalArgs := func() {
		for _, a := range n.Args[1:] {
			args = append(args, cvEval(a, c))
		}
	}
	if fn.Op == "field" {
		recv := cvEval(fn.Args[0], c)
		evalArgs()
		if recv.K == "ctx" && fn.Name == "BlockTime" {
			return cvBig(recv.I)
		}
		if recv.K == "int" {
			switch fn.Name {
			case "Unix":
				// floor division
				q := new(big.Int).Div(recv.I, big.NewInt(1000000000))
				return cvBig(q)
			case "UnixNano", "Int64", "Uint64", "BigInt":
				return recv
			case "IsZero":
				return cvBool(recv.I.Sign() == 0 || recv.I.String() == "-62135596800000000000")
			case "IsNegative":
				return cvBool(recv.I.Sign() < 0)
			case "IsPositive":
				return cvBool(recv.I.Sign() > 0)
			case "Before":
				return cvBool(recv.I.Cmp(args[0].I) < 0)
			case "After":
				return cvBool(recv.I.Cmp(args[0].I) > 0)
			case "Equal":
				return cvBool(recv.I.Cmp(args[0].I) == 0)
			case "Add":
				return cvBig(new(big.Int).Add(recv.I, args[0].I))
			}
		}
		cvFail("method %s", fn.Name)
	}
	switch fn.Name {
	case "len":
		evalArgs()
		switch args[0].K {
		case "slice", "map":
			return cvInt(int64(len(args[0].L)))
		case "str":
			return cvInt(int64(len(args[0].S)))
		}
		cvFail("len")
	case "has":
		evalArgs()
		if args[0].K != "map" {
			cvFail("has on a non-map in concrete evaluation")
		}
		for _, e := range args[0].L {
			if e.F["k"].equal(args[1]) {
				return cvBool(true)
			}
		}
		return cvBool(false)
	case "cap":
		evalArgs()
		return cvInt(int64(args[0].N))
	case "abs":
		evalArgs()
		return cvBig(new(big.Int).Abs(args[0].I))
	case "min":
		evalArgs()
		if args[0].I.Cmp(args[1].I) <= 0 {
			return args[0]
		}
		return args[1]
	case "max":
		evalArgs()
		if args[0].I.Cmp(args[1].I) >= 0 {
			return args[0]
		}
		return args[1]
	case "wrap64":
		evalArgs()
		return cvBig(wrapBig(args[0].I, "int64"))
	case "wrapu64":
		evalArgs()
		return cvBig(wrapBig(args[0].I, "uint64"))
	case "inInt64":
		evalArgs()
		return cvBool(args[0].I.IsInt64())
	case "inUint64":
		evalArgs()
		return cvBool(args[0].I.IsUint64())
	}
	if sf, ok := c.e.cs.Specs[fn.Name]; ok && sf.Body != nil {
		evalArgs()
		d := &CEnv{e: c.e, pkg: c.e.pkgs[sf.Pkg], names: map[string]*CV{}, bound: map[string]*CV{}, maxLen: c.maxLen, depth: c.depth}
		if d.pkg == nil {
			d.pkg = c.pkg
		}
		for i, p := range sf.Params {
			d.bound[p.Name] = args[i]
		}
		return cvEval(sf.Body, d)
	}
	cvFail("function %s cannot be evaluated concretely", fn.Name)
	return nil
}
