package main

import (
	"go/token"
	"fmt"
	"go/ast"
	"go/types"
	mbig "math/big"
)

type intrinsic func(fc *FCtx, st *State, e *ast.CallExpr, recv *Val, args []Val) []Val

var intrinsics map[string]intrinsic

const mathInt = "cosmossdk.io/math.Int"
const legacyDec = "cosmossdk.io/math.LegacyDec"

func bv(t string) []Val                          { return []Val{{T: t, S: SBool, GoT: types.Typ[types.Bool]}} }
func one(v Val) []Val                            { return []Val{v} }
func (fc *FCtx) resT(e *ast.CallExpr) types.Type { return fc.info().TypeOf(e) }

func init() {
	intrinsics = map[string]intrinsic{}
	I := intrinsics
	big := func(fc *FCtx, e *ast.CallExpr, t string) []Val {
		return []Val{{T: t, S: SInt, GoT: fc.resT(e)}}
	}
	// ---- sdkmath.Int ----------------------------------------------------------------------
	bin := func(op string) intrinsic {
		return func(fc *FCtx, st *State, e *ast.CallExpr, r *Val, a []Val) []Val {
			return big(fc, e, app(op, r.T, a[0].T))
		}
	}
	cmp := func(op string) intrinsic {
		return func(fc *FCtx, st *State, e *ast.CallExpr, r *Val, a []Val) []Val {
			return bv(app(op, r.T, a[0].T))
		}
	}
	for _, ty := range []string{mathInt, "cosmossdk.io/math.Uint"} {
		p := "(" + ty + ")."
		I[p+"Add"] = bin("+")
		I[p+"Sub"] = bin("-")
		I[p+"Mul"] = bin("*")
		I[p+"AddRaw"] = bin("+")
		I[p+"SubRaw"] = bin("-")
		I[p+"MulRaw"] = bin("*")
		I[p+"MulUint64"] = bin("*")
		I[p+"AddUint64"] = bin("+")
		I[p+"LT"] = cmp("<")
		I[p+"LTE"] = cmp("<=")
		I[p+"GT"] = cmp(">")
		I[p+"GTE"] = cmp(">=")
		I[p+"Equal"] = cmp("=")
		quo := func(fc *FCtx, st *State, e *ast.CallExpr, r *Val, a []Val) []Val {
			fc.panicCheck(st, "div-by-zero", "(not (= "+a[0].T+" 0))", e.Pos())
			return big(fc, e, app("tdiv", r.T, a[0].T))
		}
		I[p+"Quo"] = quo
		I[p+"QuoRaw"] = quo
		I[p+"QuoUint64"] = quo
		I[p+"Mod"] = func(fc *FCtx, st *State, e *ast.CallExpr, r *Val, a []Val) []Val {
			fc.panicCheck(st, "div-by-zero", "(not (= "+a[0].T+" 0))", e.Pos())
			return big(fc, e, app("tmod", r.T, a[0].T))
		}
		I[p+"Neg"] = func(fc *FCtx, st *State, e *ast.CallExpr, r *Val, a []Val) []Val { return big(fc, e, app("-", r.T)) }
		I[p+"Abs"] = func(fc *FCtx, st *State, e *ast.CallExpr, r *Val, a []Val) []Val {
			return big(fc, e, app("iabs", r.T))
		}
		I[p+"IsZero"] = func(fc *FCtx, st *State, e *ast.CallExpr, r *Val, a []Val) []Val { return bv("(= " + r.T + " 0)") }
		I[p+"IsNegative"] = func(fc *FCtx, st *State, e *ast.CallExpr, r *Val, a []Val) []Val { return bv("(< " + r.T + " 0)") }
		I[p+"IsPositive"] = func(fc *FCtx, st *State, e *ast.CallExpr, r *Val, a []Val) []Val { return bv("(> " + r.T + " 0)") }
		I[p+"IsInt64"] = func(fc *FCtx, st *State, e *ast.CallExpr, r *Val, a []Val) []Val { return bv(app("in_int64", r.T)) }
		I[p+"IsUint64"] = func(fc *FCtx, st *State, e *ast.CallExpr, r *Val, a []Val) []Val { return bv(app("in_uint64", r.T)) }
		I[p+"Int64"] = func(fc *FCtx, st *State, e *ast.CallExpr, r *Val, a []Val) []Val {
			fc.panicCheck(st, "Int64-out-of-range", app("in_int64", r.T), e.Pos())
			return big(fc, e, r.T)
		}
		I[p+"Uint64"] = func(fc *FCtx, st *State, e *ast.CallExpr, r *Val, a []Val) []Val {
			fc.panicCheck(st, "Uint64-out-of-range", app("in_uint64", r.T), e.Pos())
			return big(fc, e, r.T)
		}
		I[p+"BigInt"] = func(fc *FCtx, st *State, e *ast.CallExpr, r *Val, a []Val) []Val { return big(fc, e, r.T) }
		I[p+"ToLegacyDec"] = func(fc *FCtx, st *State, e *ast.CallExpr, r *Val, a []Val) []Val {
			return big(fc, e, app("*", r.T, "1000000000000000000"))
		}
		I[p+"Sign"] = func(fc *FCtx, st *State, e *ast.CallExpr, r *Val, a []Val) []Val {
			return big(fc, e, fmt.Sprintf("(ite (< %s 0) (- 1) (ite (> %s 0) 1 0))", r.T, r.T))
		}
		I[p+"String"] = func(fc *FCtx, st *State, e *ast.CallExpr, r *Val, a []Val) []Val {
			fc.U.Fun("int_string", []*Sort{SInt}, SStr)
			return []Val{{T: app("int_string", r.T), S: SStr, GoT: fc.resT(e)}}
		}
		I[p+"IsNil"] = func(fc *FCtx, st *State, e *ast.CallExpr, r *Val, a []Val) []Val { return bv("false") }
	}
	ident := func(fc *FCtx, st *State, e *ast.CallExpr, r *Val, a []Val) []Val { return big(fc, e, a[0].T) }
	I["cosmossdk.io/math.NewInt"] = ident
	I["cosmossdk.io/math.NewIntFromUint64"] = ident
	I["cosmossdk.io/math.NewIntFromBigInt"] = ident
	I["cosmossdk.io/math.NewUint"] = ident
	I["cosmossdk.io/math.ZeroInt"] = func(fc *FCtx, st *State, e *ast.CallExpr, r *Val, a []Val) []Val { return big(fc, e, "0") }
	I["cosmossdk.io/math.OneInt"] = func(fc *FCtx, st *State, e *ast.CallExpr, r *Val, a []Val) []Val { return big(fc, e, "1") }
	I["cosmossdk.io/math.MaxInt"] = func(fc *FCtx, st *State, e *ast.CallExpr, r *Val, a []Val) []Val {
		return big(fc, e, app("imax", a[0].T, a[1].T))
	}
	I["cosmossdk.io/math.MinInt"] = func(fc *FCtx, st *State, e *ast.CallExpr, r *Val, a []Val) []Val {
		return big(fc, e, app("imin", a[0].T, a[1].T))
	}
	I["(*math/big.Int).Cmp"] = func(fc *FCtx, st *State, e *ast.CallExpr, r *Val, a []Val) []Val {
		return big(fc, e, fmt.Sprintf("(ite (< %s %s) (- 1) (ite (> %s %s) 1 0))", r.T, a[0].T, r.T, a[0].T))
	}
	I["(*math/big.Int).Sign"] = I["("+mathInt+").Sign"]
	I["math/big.NewInt"] = ident
	I["cmp.Compare"] = func(fc *FCtx, st *State, e *ast.CallExpr, r *Val, a []Val) []Val {
		if a[0].S.Kind != KInt {
			oos("cmp.Compare on %s", a[0].S.Name)
		}
		return big(fc, e, fmt.Sprintf("(ite (< %s %s) (- 1) (ite (> %s %s) 1 0))", a[0].T, a[1].T, a[0].T, a[1].T))
	}
	// ---- LegacyDec (value scaled by 10^18) --------------------------------------------------
	const P = "1000000000000000000"
	d := "(" + legacyDec + ")."
	I[d+"Add"] = bin("+")
	I[d+"Sub"] = bin("-")
	I[d+"LT"] = cmp("<")
	I[d+"LTE"] = cmp("<=")
	I[d+"GT"] = cmp(">")
	I[d+"GTE"] = cmp(">=")
	I[d+"Equal"] = cmp("=")
	I[d+"IsZero"] = I["("+mathInt+").IsZero"]
	I[d+"IsNegative"] = I["("+mathInt+").IsNegative"]
	I[d+"IsPositive"] = I["("+mathInt+").IsPositive"]
	I[d+"IsNil"] = I["("+mathInt+").IsNil"]
	I[d+"MulTruncate"] = func(fc *FCtx, st *State, e *ast.CallExpr, r *Val, a []Val) []Val {
		return big(fc, e, app("tdiv", app("*", r.T, a[0].T), P))
	}
	I[d+"QuoTruncate"] = func(fc *FCtx, st *State, e *ast.CallExpr, r *Val, a []Val) []Val {
		fc.panicCheck(st, "div-by-zero", "(not (= "+a[0].T+" 0))", e.Pos())
		return big(fc, e, app("tdiv", app("*", r.T, P), a[0].T))
	}
	I[d+"MulInt"] = bin("*")
	I[d+"MulInt64"] = bin("*")
	I[d+"QuoInt"] = func(fc *FCtx, st *State, e *ast.CallExpr, r *Val, a []Val) []Val {
		fc.panicCheck(st, "div-by-zero", "(not (= "+a[0].T+" 0))", e.Pos())
		return big(fc, e, app("tdiv", r.T, a[0].T))
	}
	I[d+"QuoInt64"] = I[d+"QuoInt"]
	I[d+"TruncateInt"] = func(fc *FCtx, st *State, e *ast.CallExpr, r *Val, a []Val) []Val {
		return big(fc, e, app("tdiv", r.T, P))
	}
	I[d+"TruncateInt64"] = func(fc *FCtx, st *State, e *ast.CallExpr, r *Val, a []Val) []Val {
		t := app("tdiv", r.T, P)
		fc.panicCheck(st, "Int64-out-of-range", app("in_int64", t), e.Pos())
		return big(fc, e, t)
	}
	I["cosmossdk.io/math.LegacyNewDec"] = func(fc *FCtx, st *State, e *ast.CallExpr, r *Val, a []Val) []Val {
		return big(fc, e, app("*", a[0].T, P))
	}
	I["cosmossdk.io/math.LegacyNewDecFromInt"] = I["cosmossdk.io/math.LegacyNewDec"]
	I["cosmossdk.io/math.LegacyZeroDec"] = func(fc *FCtx, st *State, e *ast.CallExpr, r *Val, a []Val) []Val { return big(fc, e, "0") }
	I["cosmossdk.io/math.LegacyOneDec"] = func(fc *FCtx, st *State, e *ast.CallExpr, r *Val, a []Val) []Val { return big(fc, e, P) }
	I["cosmossdk.io/math.LegacyNewDecWithPrec"] = func(fc *FCtx, st *State, e *ast.CallExpr, r *Val, a []Val) []Val {
		// i * 10^(18-prec) for constant prec
		tv := fc.info().Types[e.Args[1]]
		if tv.Value == nil {
			oos("LegacyNewDecWithPrec with non-constant precision")
		}
		var prec int
		fmt.Sscan(tv.Value.ExactString(), &prec)
		m := "1"
		for i := 0; i < 18-prec; i++ {
			m += "0"
		}
		return big(fc, e, app("*", a[0].T, m))
	}
	// ---- time --------------------------------------------------------------------------------
	I["(time.Time).Unix"] = func(fc *FCtx, st *State, e *ast.CallExpr, r *Val, a []Val) []Val {
		t := fmt.Sprintf("(div %s 1000000000)", r.T)
		// Unix() returns int64: a time.Time holds its seconds in an int64, so every representable time has Unix seconds
		// in the int64 range (fact about the type, like the range of any other int64 value)
		st.assume(app("in_int64", t))
		return []Val{{T: t, S: SInt, GoT: types.Typ[types.Int64]}}
	}
	I["(time.Time).UnixNano"] = func(fc *FCtx, st *State, e *ast.CallExpr, r *Val, a []Val) []Val {
		return []Val{{T: app("wrap_int64", r.T), S: SInt, GoT: types.Typ[types.Int64]}}
	}
	I["(time.Time).Before"] = cmp("<")
	I["(time.Time).After"] = cmp(">")
	I["(time.Time).Equal"] = cmp("=")
	I["(time.Time).IsZero"] = func(fc *FCtx, st *State, e *ast.CallExpr, r *Val, a []Val) []Val {
		return bv(fmt.Sprintf("(= %s %s)", r.T, timeZeroNs))
	}
	I["(time.Time).Add"] = func(fc *FCtx, st *State, e *ast.CallExpr, r *Val, a []Val) []Val {
		return []Val{{T: app("+", r.T, a[0].T), S: SInt, GoT: fc.resT(e)}}
	}
	I["(time.Time).Sub"] = func(fc *FCtx, st *State, e *ast.CallExpr, r *Val, a []Val) []Val {
		// saturating in Go; modelled exactly within int64 range, saturated outside
		d := app("-", r.T, a[0].T)
		t := fmt.Sprintf("(ite (> %s 9223372036854775807) 9223372036854775807 (ite (< %s (- 9223372036854775808)) (- 9223372036854775808) %s))", d, d, d)
		return []Val{{T: t, S: SInt, GoT: fc.resT(e)}}
	}
	I["(time.Time).Nanosecond"] = func(fc *FCtx, st *State, e *ast.CallExpr, r *Val, a []Val) []Val {
		return []Val{{T: fmt.Sprintf("(mod %s 1000000000)", r.T), S: SInt, GoT: types.Typ[types.Int]}}
	}
	I["(time.Time).UTC"] = func(fc *FCtx, st *State, e *ast.CallExpr, r *Val, a []Val) []Val { return one(*r) }
	I["time.Unix"] = func(fc *FCtx, st *State, e *ast.CallExpr, r *Val, a []Val) []Val {
		return []Val{{T: fmt.Sprintf("(+ (* %s 1000000000) %s)", a[0].T, a[1].T), S: SInt, GoT: fc.resT(e)}}
	}
	I["(time.Duration).Seconds"] = nil
	delete(I, "(time.Duration).Seconds")
	I["(time.Duration).Nanoseconds"] = func(fc *FCtx, st *State, e *ast.CallExpr, r *Val, a []Val) []Val {
		return []Val{{T: r.T, S: SInt, GoT: types.Typ[types.Int64]}}
	}
	// ---- errors ------------------------------------------------------------------------------
	same := func(fc *FCtx, st *State, e *ast.CallExpr, r *Val, a []Val) []Val {
		return []Val{{T: r.T, S: SInt, GoT: fc.resT(e)}}
	}
	I["(*cosmossdk.io/errors.Error).Wrap"] = same
	I["(*cosmossdk.io/errors.Error).Wrapf"] = same
	wrapFn := func(fc *FCtx, st *State, e *ast.CallExpr, r *Val, a []Val) []Val {
		v := fc.eval(e.Args[0], st)
		return []Val{{T: v.T, S: SInt, GoT: fc.resT(e)}}
	}
	I["cosmossdk.io/errors.Wrap"] = wrapFn
	I["cosmossdk.io/errors.Wrapf"] = wrapFn
	newErr := func(fc *FCtx, st *State, e *ast.CallExpr, r *Val, a []Val) []Val {
		n := fc.U.Fresh("err", SInt)
		st.assume(fmt.Sprintf("(> %s 100000)", n))
		return []Val{{T: n, S: SInt, GoT: fc.resT(e)}}
	}
	I["fmt.Errorf"] = newErr
	I["errors.New"] = newErr
	I["fmt.Sprintf"] = func(fc *FCtx, st *State, e *ast.CallExpr, r *Val, a []Val) []Val {
		return []Val{{T: fc.U.Fresh("sprintf", SStr), S: SStr, GoT: fc.resT(e)}}
	}
	I["(error).Error"] = func(fc *FCtx, st *State, e *ast.CallExpr, r *Val, a []Val) []Val {
		return []Val{{T: fc.U.Fresh("errstr", SStr), S: SStr, GoT: fc.resT(e)}}
	}
	I["errors.Is"] = func(fc *FCtx, st *State, e *ast.CallExpr, r *Val, a []Val) []Val {
		return bv(fmt.Sprintf("(and (= %s %s) (not (= %s 0)))", a[0].T, a[1].T, a[0].T))
	}
	// ---- sdk.Context ---------------------------------------------------------------------------
	ctxFn := func(name string, s *Sort, t types.Type) intrinsic {
		return func(fc *FCtx, st *State, e *ast.CallExpr, r *Val, a []Val) []Val {
			fc.ctxTheory()
			v := Val{T: app(name, r.T), S: s, GoT: fc.resT(e)}
			st.assume(fc.U.WF(v))
			return one(v)
		}
	}
	I["(github.com/cosmos/cosmos-sdk/types.Context).BlockTime"] = ctxFn("ctx_blocktime", SInt, nil)
	I["(github.com/cosmos/cosmos-sdk/types.Context).BlockHeight"] = ctxFn("ctx_blockheight", SInt, nil)
	I["(github.com/cosmos/cosmos-sdk/types.Context).ChainID"] = ctxFn("ctx_chainid", SStr, nil)
	I["(github.com/cosmos/cosmos-sdk/types.Context).BlockHeader"] = func(fc *FCtx, st *State, e *ast.CallExpr, r *Val, a []Val) []Val {
		fc.ctxTheory()
		hs := fc.U.SortOf(fc.resT(e))
		fc.U.Fun("ctx_header", []*Sort{r.S}, hs)
		v := Val{T: app("ctx_header", r.T), S: hs, GoT: fc.resT(e)}
		for _, f := range []struct{ field, fn string }{{"Time", "ctx_blocktime"}, {"Height", "ctx_blockheight"}, {"ChainID", "ctx_chainid"}} {
			if fv, ok := fieldSel(v, f.field); ok {
				st.assume(fmt.Sprintf("(= %s (%s %s))", fv.T, f.fn, r.T))
			}
		}
		return one(v)
	}
	I["(github.com/cosmos/cosmos-sdk/types.Context).HeaderInfo"] = func(fc *FCtx, st *State, e *ast.CallExpr, r *Val, a []Val) []Val {
		// header info is an (uninterpreted) function of the context; its Hash field is `ctx.HeaderHash()` in specs
		fc.ctxTheory()
		hs := fc.U.SortOf(fc.resT(e))
		fc.U.Fun("ctx_headerinfo", []*Sort{r.S}, hs)
		fc.U.Fun("ctx_headerhash", []*Sort{r.S}, fc.U.BzSort())
		v := Val{T: app("ctx_headerinfo", r.T), S: hs, GoT: fc.resT(e)}
		st.assume(fc.U.WF(v))
		if fv, ok := fieldSel(v, "Hash"); ok && isBz(fv.S) {
			st.assume(fmt.Sprintf("(= %s (ctx_headerhash %s))", fv.T, r.T))
		}
		return one(v)
	}
	I["github.com/cosmos/cosmos-sdk/types.UnwrapSDKContext"] = func(fc *FCtx, st *State, e *ast.CallExpr, r *Val, a []Val) []Val {
		s := fc.U.opaque("Ctx")
		fc.U.Fun("unwrap_ctx", []*Sort{a[0].S}, s)
		return []Val{{T: app("unwrap_ctx", a[0].T), S: s, GoT: fc.resT(e)}}
	}
	// ---- addresses -------------------------------------------------------------------------------
	addrStr := func(fc *FCtx, st *State, e *ast.CallExpr, r *Val, a []Val) []Val {
		fc.bech32Fns()
		return []Val{{T: app("addr_string", r.T), S: SStr, GoT: fc.resT(e)}}
	}
	I["(github.com/cosmos/cosmos-sdk/types.AccAddress).String"] = addrStr
	I["(github.com/cosmos/cosmos-sdk/types.ValAddress).String"] = addrStr
	addrEq := func(fc *FCtx, st *State, e *ast.CallExpr, r *Val, a []Val) []Val {
		if a[0].S != r.S {
			oos("address Equals with %s", a[0].S.Name)
		}
		return bv(app("=", r.T, a[0].T))
	}
	I["(github.com/cosmos/cosmos-sdk/types.AccAddress).Equals"] = addrEq
	I["(github.com/cosmos/cosmos-sdk/types.ValAddress).Equals"] = addrEq
}

func init() {
	// slices.SortStableFunc / sort.Slice style in-place sorts: the slice becomes a permutation of itself
	// (assumed contract of the standard library; sortedness w.r.t. the comparator is not modelled).
	sortPerm := func(fc *FCtx, st *State, e *ast.CallExpr, r *Val, a []Val) []Val {
		s := a[0]
		if s.S.Kind != KSlice {
			oos("sort of %s", s.S.Name)
		}
		fc.U.fresh++
		id := fc.U.fresh
		pf, qf := fmt.Sprintf("sperm%d", id), fmt.Sprintf("sinv%d", id)
		fc.U.Fun(pf, []*Sort{SInt}, SInt)
		fc.U.Fun(qf, []*Sort{SInt}, SInt)
		ns := Val{T: fc.U.Fresh("sorted", s.S), S: s.S, GoT: s.GoT}
		n := slLen(s)
		st.assume(fmt.Sprintf("(and (= %s %s) (= %s %s))", slLen(ns), n, slCap(ns), slCap(s)))
		st.assume(fmt.Sprintf("(forall ((i Int)) (! (=> (and (<= 0 i) (< i %s)) (and (<= 0 (%s i)) (< (%s i) %s) (= (select %s i) (select %s (%s i))) (= (%s (%s i)) i))) :pattern ((select %s i)) :pattern ((%s i))))", n, pf, pf, n, slEl(ns), slEl(s), pf, qf, pf, slEl(ns), pf))
		st.assume(fmt.Sprintf("(forall ((j Int)) (! (=> (and (<= 0 j) (< j %s)) (and (<= 0 (%s j)) (< (%s j) %s) (= (select %s j) (select %s (%s j))) (= (%s (%s j)) j))) :pattern ((%s j)) :pattern ((select %s j))))", n, qf, qf, n, slEl(s), slEl(ns), qf, pf, qf, qf, slEl(s)))
		fc.assumed["slices.SortStableFunc / sort.*: result is a permutation of the input (sortedness not modelled)"] = true
		// the natural-order sorts of strings and integers also leave the slice ascending
		switch fc.calleeName(e) {
		case "sort.Strings", "sort.Ints", "slices.Sort":
			if s.S.Elem != nil && s.S.Elem.Kind == KStr {
				fc.U.Fun("str_lt", []*Sort{SStr, SStr}, SBool)
				st.assume(fmt.Sprintf("(forall ((i Int) (j Int)) (! (=> (and (<= 0 i) (< i j) (< j %s)) (not (str_lt (select %s j) (select %s i)))) :pattern ((select %s i) (select %s j))))", n, slEl(ns), slEl(ns), slEl(ns), slEl(ns)))
				fc.assumed["sort.Strings / slices.Sort: the result is in ascending order (standard library)"] = true
			} else if s.S.Elem != nil && s.S.Elem.Kind == KInt {
				st.assume(fmt.Sprintf("(forall ((i Int) (j Int)) (! (=> (and (<= 0 i) (< i j) (< j %s)) (<= (select %s i) (select %s j))) :pattern ((select %s i) (select %s j))))", n, slEl(ns), slEl(ns), slEl(ns), slEl(ns)))
				fc.assumed["sort.Ints / slices.Sort: the result is in ascending order (standard library)"] = true
			}
		}
		fc.assignOut(e.Args[0], ns, st)
		return nil
	}
	intrinsics["slices.SortStableFunc"] = sortPerm
	intrinsics["slices.SortFunc"] = sortPerm
	intrinsics["sort.Slice"] = sortPerm
	intrinsics["sort.SliceStable"] = sortPerm
	intrinsics["sort.Strings"] = sortPerm
	intrinsics["sort.Ints"] = sortPerm
	intrinsics["slices.Sort"] = sortPerm
	// slices.Contains / slices.Index: assumed contracts of the standard library (first index of an equal element, -1
	// if there is none); elements are compared with SMT equality, which is Go's == for the scalar, string and struct
	// element types in the subset.
	elAt := func(fc *FCtx, s Val, j string) string {
		if isBz(s.S) {
			return fmt.Sprintf("(bz_at %s %s)", s.T, j)
		}
		return fmt.Sprintf("(select %s %s)", slEl(s), j)
	}
	seqLen := func(fc *FCtx, s Val) string {
		if isBz(s.S) {
			return app("bz_len", s.T)
		}
		if s.S.Kind != KSlice {
			oos("slices function on %s", s.S.Name)
		}
		return slLen(s)
	}
	slIndex := func(fc *FCtx, st *State, e *ast.CallExpr, a []Val) string {
		n := seqLen(fc, a[0])
		idx := fc.U.Fresh("sidx", SInt)
		fc.U.fresh++
		j := fmt.Sprintf("sj%d", fc.U.fresh)
		st.assume(fmt.Sprintf("(and (<= (- 1) %s) (< %s %s))", idx, idx, n))
		st.assume(fmt.Sprintf("(=> (>= %s 0) (= %s %s))", idx, elAt(fc, a[0], idx), a[1].T))
		st.assume(fmt.Sprintf("(forall ((%s Int)) (! (=> (and (<= 0 %s) (< %s (ite (>= %s 0) %s %s))) (not (= %s %s))) :pattern (%s)))", j, j, j, idx, idx, n, elAt(fc, a[0], j), a[1].T, elAt(fc, a[0], j)))
		fc.assumed["slices.Contains / slices.Index: first index of an equal element, -1 if none (standard library)"] = true
		return idx
	}
	intrinsics["slices.Index"] = func(fc *FCtx, st *State, e *ast.CallExpr, r *Val, a []Val) []Val {
		return []Val{{T: slIndex(fc, st, e, a), S: SInt, GoT: types.Typ[types.Int]}}
	}
	intrinsics["slices.Contains"] = func(fc *FCtx, st *State, e *ast.CallExpr, r *Val, a []Val) []Val {
		return bv(fmt.Sprintf("(>= %s 0)", slIndex(fc, st, e, a)))
	}
	intrinsics["bytes.IndexByte"] = func(fc *FCtx, st *State, e *ast.CallExpr, r *Val, a []Val) []Val {
		return []Val{{T: slIndex(fc, st, e, a), S: SInt, GoT: types.Typ[types.Int]}}
	}
	// sort.Search(n, f): some index in [0, n] (the smallest index at which a monotone predicate turns true; the predicate
	// is a function value and is not interpreted - the over-approximation keeps only the range). The predicate literal
	// must not assign to captured variables.
	intrinsics["sort.Search"] = func(fc *FCtx, st *State, e *ast.CallExpr, r *Val, a []Val) []Val {
		if lit, ok := unparen(e.Args[1]).(*ast.FuncLit); ok {
			ast.Inspect(lit.Body, func(n ast.Node) bool {
				switch n.(type) {
				case *ast.AssignStmt, *ast.IncDecStmt, *ast.GoStmt, *ast.DeferStmt, *ast.SendStmt:
					oos("sort.Search predicate with side effects")
				}
				return true
			})
		}
		idx := fc.U.Fresh("ssearch", SInt)
		st.assume(fmt.Sprintf("(and (<= 0 %s) (<= %s (imax 0 %s)))", idx, idx, a[0].T))
		fc.assumed["sort.Search: result in [0, n] (the predicate is not interpreted)"] = true
		return []Val{{T: idx, S: SInt, GoT: types.Typ[types.Int]}}
	}
	// slices.Insert(s, i, v...) / slices.Delete(s, i, j): the standard-library contracts on element positions
	intrinsics["slices.Insert"] = func(fc *FCtx, st *State, e *ast.CallExpr, r *Val, a []Val) []Val {
		s, i := a[0], a[1]
		if s.S.Kind != KSlice || e.Ellipsis.IsValid() {
			oos("slices.Insert on %s", s.S.Name)
		}
		k := len(a) - 2
		n := slLen(s)
		fc.panicCheck(st, "slice-bounds", fmt.Sprintf("(and (<= 0 %s) (<= %s %s))", i.T, i.T, n), e.Pos())
		ns := Val{T: fc.U.Fresh("inserted", s.S), S: s.S, GoT: s.GoT}
		st.assume(fmt.Sprintf("(and (= %s (+ %s %d)) (<= %s %s) (<= %s 9223372036854775807))", slLen(ns), n, k, slLen(ns), slCap(ns), slCap(ns)))
		st.assume(fmt.Sprintf("(forall ((j Int)) (! (=> (and (<= 0 j) (< j %s)) (= (select %s j) (select %s j))) :pattern ((select %s j))))", i.T, slEl(ns), slEl(s), slEl(ns)))
		for x := 0; x < k; x++ {
			st.assume(fmt.Sprintf("(= (select %s (+ %s %d)) %s)", slEl(ns), i.T, x, a[2+x].T))
		}
		st.assume(fmt.Sprintf("(forall ((j Int)) (! (=> (and (<= (+ %s %d) j) (< j (+ %s %d))) (= (select %s j) (select %s (- j %d)))) :pattern ((select %s j))))", i.T, k, n, k, slEl(ns), slEl(s), k, slEl(ns)))
		fc.assumed["slices.Insert / slices.Delete: element positions as documented (standard library)"] = true
		return []Val{ns}
	}
	intrinsics["slices.Delete"] = func(fc *FCtx, st *State, e *ast.CallExpr, r *Val, a []Val) []Val {
		s, i, j := a[0], a[1], a[2]
		if s.S.Kind != KSlice {
			oos("slices.Delete on %s", s.S.Name)
		}
		n := slLen(s)
		fc.panicCheck(st, "slice-bounds", fmt.Sprintf("(and (<= 0 %s) (<= %s %s) (<= %s %s))", i.T, i.T, j.T, j.T, n), e.Pos())
		ns := Val{T: fc.U.Fresh("deleted", s.S), S: s.S, GoT: s.GoT}
		st.assume(fmt.Sprintf("(and (= %s (- %s (- %s %s))) (= %s %s))", slLen(ns), n, j.T, i.T, slCap(ns), slCap(s)))
		st.assume(fmt.Sprintf("(forall ((q Int)) (! (=> (and (<= 0 q) (< q %s)) (= (select %s q) (ite (< q %s) (select %s q) (select %s (+ q (- %s %s)))))) :pattern ((select %s q))))", slLen(ns), slEl(ns), i.T, slEl(s), slEl(s), j.T, i.T, slEl(ns)))
		fc.assumed["slices.Insert / slices.Delete: element positions as documented (standard library)"] = true
		return []Val{ns}
	}
	// sync/atomic on an int64 field (thread-modular): AddInt64(&x, d) with d >= 0 returns SOME value >= x + d, because
	// other goroutines may have added to the counter in between - the rely condition, listed as an assumption, is that
	// concurrent updates of the counter are additions of non-negative amounts (and that it does not overflow). The field
	// holds the returned value afterwards. StoreInt64 writes, LoadInt64 reads some value >= the last one seen.
	atomTarget := func(fc *FCtx, e *ast.CallExpr) ast.Expr {
		u, ok := unparen(e.Args[0]).(*ast.UnaryExpr)
		if !ok || u.Op != token.AND {
			oos("atomic operation on a non-addressable target")
		}
		return u.X
	}
	intrinsics["sync/atomic.AddInt64"] = func(fc *FCtx, st *State, e *ast.CallExpr, r *Val, a []Val) []Val {
		tgt := atomTarget(fc, e)
		cur := fc.eval(tgt, st)
		d := a[1]
		fc.oblige(st, "atomic-add-nonneg", fmt.Sprintf("(>= %s 0)", d.T), "atomic.AddInt64 with a non-negative amount (the thread-modular model covers counters that only grow)", e.Pos())
		nv := Val{T: fc.U.Fresh("atom", SInt), S: SInt, GoT: types.Typ[types.Int64]}
		st.assume(fmt.Sprintf("(and (>= %s (+ %s %s)) (in_int64 %s))", nv.T, cur.T, d.T, nv.T))
		fc.assumed["sync/atomic counter: concurrent updates are additions of non-negative amounts; no int64 overflow"] = true
		fc.assignTo(tgt, nv, st)
		return []Val{nv}
	}
	intrinsics["sync/atomic.StoreInt64"] = func(fc *FCtx, st *State, e *ast.CallExpr, r *Val, a []Val) []Val {
		fc.assignTo(atomTarget(fc, e), Val{T: a[1].T, S: SInt, GoT: types.Typ[types.Int64]}, st)
		return nil
	}
	intrinsics["sync/atomic.LoadInt64"] = func(fc *FCtx, st *State, e *ast.CallExpr, r *Val, a []Val) []Val {
		tgt := atomTarget(fc, e)
		cur := fc.eval(tgt, st)
		nv := Val{T: fc.U.Fresh("atom", SInt), S: SInt, GoT: types.Typ[types.Int64]}
		st.assume(fmt.Sprintf("(and (>= %s %s) (in_int64 %s))", nv.T, cur.T, nv.T))
		fc.assumed["sync/atomic counter: concurrent updates are additions of non-negative amounts; no int64 overflow"] = true
		fc.assignTo(tgt, nv, st)
		return []Val{nv}
	}
	// slices.Reverse: in place, element i becomes element n-1-i
	intrinsics["slices.Reverse"] = func(fc *FCtx, st *State, e *ast.CallExpr, r *Val, a []Val) []Val {
		s := a[0]
		if s.S.Kind != KSlice {
			oos("slices.Reverse of %s", s.S.Name)
		}
		ns := Val{T: fc.U.Fresh("reversed", s.S), S: s.S, GoT: s.GoT}
		n := slLen(s)
		st.assume(fmt.Sprintf("(and (= %s %s) (= %s %s))", slLen(ns), n, slCap(ns), slCap(s)))
		st.assume(fmt.Sprintf("(forall ((i Int)) (! (=> (and (<= 0 i) (< i %s)) (= (select %s i) (select %s (- (- %s 1) i)))) :pattern ((select %s i))))", n, slEl(ns), slEl(s), n, slEl(ns)))
		fc.assumed["slices.Reverse: element i becomes element n-1-i (standard library)"] = true
		fc.assignOut(e.Args[0], ns, st)
		return nil
	}
}

func init() {
	I := intrinsics
	bigr := func(fc *FCtx, e *ast.CallExpr, t string) []Val { return []Val{{T: t, S: SInt, GoT: fc.resT(e)}} }
	op2 := func(op string) intrinsic {
		return func(fc *FCtx, st *State, e *ast.CallExpr, r *Val, a []Val) []Val {
			return bigr(fc, e, app(op, a[0].T, a[1].T))
		}
	}
	p := "(*math/big.Int)."
	// z.Op(x, y) SETS z and returns it: when the receiver is a local variable it is updated (statement form
	// `num.Mul(x, num)`); a receiver that is a fresh value (new(big.Int)) has nothing to update. Two variables holding
	// the same *big.Int are not tracked (values, not pointers).
	defer func() {
		for _, m := range []string{"Add", "Sub", "Mul", "Div", "Mod", "Quo", "Rem", "Set", "SetUint64", "SetInt64", "Rsh", "Lsh", "ModInverse", "Neg", "Abs", "Exp"} {
			f, ok := I[p+m]
			if !ok {
				continue
			}
			I[p+m] = func(fc *FCtx, st *State, e *ast.CallExpr, r *Val, a []Val) []Val {
				res := f(fc, st, e, r, a)
				if sel, isSel := unparen(e.Fun).(*ast.SelectorExpr); isSel && len(res) == 1 {
					if id, isID := unparen(sel.X).(*ast.Ident); isID {
						if obj := fc.info().ObjectOf(id); obj != nil {
							if _, has := st.vars[obj]; has {
								fc.assignTo(id, res[0], st)
							}
						}
					}
				}
				return res
			}
		}
	}()
	// modular inverse: an uninterpreted function with its defining property for a unit (g*inv = 1 mod n)
	I[p+"ModInverse"] = func(fc *FCtx, st *State, e *ast.CallExpr, r *Val, a []Val) []Val {
		fc.U.Fun("modinv", []*Sort{SInt, SInt}, SInt)
		return bigr(fc, e, app("modinv", a[0].T, a[1].T))
	}
	I[p+"Add"] = op2("+")
	I[p+"Sub"] = op2("-")
	I[p+"Mul"] = op2("*")
	I[p+"Div"] = func(fc *FCtx, st *State, e *ast.CallExpr, r *Val, a []Val) []Val {
		fc.panicCheck(st, "div-by-zero", "(not (= "+a[1].T+" 0))", e.Pos())
		return bigr(fc, e, app("div", a[0].T, a[1].T)) // Euclidean
	}
	I[p+"Mod"] = func(fc *FCtx, st *State, e *ast.CallExpr, r *Val, a []Val) []Val {
		fc.panicCheck(st, "div-by-zero", "(not (= "+a[1].T+" 0))", e.Pos())
		return bigr(fc, e, app("mod", a[0].T, a[1].T))
	}
	I[p+"Quo"] = func(fc *FCtx, st *State, e *ast.CallExpr, r *Val, a []Val) []Val {
		fc.panicCheck(st, "div-by-zero", "(not (= "+a[1].T+" 0))", e.Pos())
		return bigr(fc, e, app("tdiv", a[0].T, a[1].T))
	}
	I[p+"Rem"] = func(fc *FCtx, st *State, e *ast.CallExpr, r *Val, a []Val) []Val {
		fc.panicCheck(st, "div-by-zero", "(not (= "+a[1].T+" 0))", e.Pos())
		return bigr(fc, e, app("tmod", a[0].T, a[1].T))
	}
	idf := func(fc *FCtx, st *State, e *ast.CallExpr, r *Val, a []Val) []Val { return bigr(fc, e, a[0].T) }
	I[p+"Set"] = idf
	I[p+"SetUint64"] = idf
	I[p+"SetInt64"] = idf
	sh := func(right bool) intrinsic {
		return func(fc *FCtx, st *State, e *ast.CallExpr, r *Val, a []Val) []Val {
			tv := fc.info().Types[e.Args[1]]
			if tv.Value == nil {
				oos("big.Int shift by non-constant")
			}
			var k uint
			fmt.Sscan(tv.Value.ExactString(), &k)
			pw := new(mbig.Int).Lsh(mbig.NewInt(1), k).String()
			if right {
				return bigr(fc, e, app("div", a[0].T, pw)) // floor (arithmetic shift)
			}
			return bigr(fc, e, app("*", a[0].T, pw))
		}
	}
	I[p+"Rsh"] = sh(true)
	I[p+"Lsh"] = sh(false)
	I[p+"Uint64"] = func(fc *FCtx, st *State, e *ast.CallExpr, r *Val, a []Val) []Val {
		return []Val{{T: app("wrap_uint64", app("iabs", r.T)), S: SInt, GoT: fc.resT(e)}}
	}
	I[p+"Int64"] = func(fc *FCtx, st *State, e *ast.CallExpr, r *Val, a []Val) []Val {
		return []Val{{T: app("wrap_int64", r.T), S: SInt, GoT: fc.resT(e)}}
	}
	I[p+"IsUint64"] = func(fc *FCtx, st *State, e *ast.CallExpr, r *Val, a []Val) []Val { return bv(app("in_uint64", r.T)) }
}
