package main

import (
	"fmt"
	"go/token"
	"go/types"
)

// float64 values are modelled abstractly: an uninterpreted sort F64 with uninterpreted arithmetic and
// comparisons. Nothing is proved about floating-point results (the one function whose float behaviour
// matters, grogu isDeviated, is handled separately; see DESIGN §9 C20).

func (fc *FCtx) f64() *Sort { return fc.U.opaque("F64") }

func (fc *FCtx) farith(op token.Token, x, y Val, t types.Type) Val {
	s := fc.f64()
	name := map[token.Token]string{token.ADD: "f64_add", token.SUB: "f64_sub", token.MUL: "f64_mul", token.QUO: "f64_div"}[op]
	if name == "" {
		oos("float operator %s", op)
	}
	fc.U.Fun(name, []*Sort{s, s}, s)
	return Val{T: app(name, fc.asF64(x).T, fc.asF64(y).T), S: s, GoT: t}
}

func (fc *FCtx) asF64(v Val) Val {
	s := fc.f64()
	if v.S == s {
		return v
	}
	if v.S.Kind == KInt {
		fc.U.Fun("f64_of_int", []*Sort{SInt}, s)
		return Val{T: app("f64_of_int", v.T), S: s, GoT: v.GoT}
	}
	oos("cannot use %s as float64", v.S.Name)
	return Val{}
}

func (fc *FCtx) intToFloat(x Val, from types.Type) Val { return fc.asF64(x) }

func (fc *FCtx) floatToInt(x Val, to types.Type, st *State) Val {
	s := fc.f64()
	fc.U.Fun("int_of_f64", []*Sort{s}, SInt)
	v := Val{T: app("int_of_f64", x.T), S: SInt, GoT: to}
	st.assume(fc.U.WF(v))
	return v
}

func (fc *FCtx) floatConst(text string, t types.Type) Val {
	s := fc.f64()
	n := "f64c_" + sanitize(text)
	fc.U.Const(n, s)
	return Val{T: n, S: s, GoT: t}
}

func (fc *FCtx) fcmp(op token.Token, x, y Val) string {
	s := fc.f64()
	name := map[token.Token]string{token.LSS: "f64_lt", token.LEQ: "f64_le", token.GTR: "f64_lt", token.GEQ: "f64_le", token.EQL: "f64_eq", token.NEQ: "f64_eq"}[op]
	fc.U.Fun(name, []*Sort{s, s}, SBool)
	a, b := fc.asF64(x).T, fc.asF64(y).T
	switch op {
	case token.GTR, token.GEQ:
		a, b = b, a
	}
	t := app(name, a, b)
	if op == token.NEQ {
		t = not(t)
	}
	return t
}

var _ = fmt.Sprint
