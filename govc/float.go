package main

import (
	"go/token"
	"go/types"
)

func (fc *FCtx) farith(op token.Token, x, y Val, t types.Type) Val {
	oos("floating point arithmetic")
	return Val{}
}

func (fc *FCtx) intToFloat(x Val, from types.Type) Val {
	oos("int to float conversion")
	return Val{}
}

func (fc *FCtx) floatToInt(x Val, to types.Type, st *State) Val {
	oos("float to int conversion")
	return Val{}
}
