package main

import (
	"fmt"
	"strings"
	"unicode"
)

// ---------------------------------------------------------------------------------------------
// Spec expression language (DESIGN Appendix B)
// ---------------------------------------------------------------------------------------------

type SNode struct {
	Op   string // "id","num","str","call","index","slice","field","un","bin","ite","forall","exists","let","old","lit"
	Name string // identifier, operator, field name, number text
	Args []*SNode
	// binders for forall/exists/let: Name holds "x y" ; Types parallel
	Binders []Binder
	Src     string
}

type Binder struct {
	Name string
	Type string // "" = Int
}

type tok struct {
	k string // "id","num","str","op","eof"
	s string
}

func lexSpec(src string) ([]tok, error) {
	var out []tok
	i := 0
	ops := []string{"<==>", "==>", "::", "&&", "||", "==", "!=", "<=", ">=", "<<", ">>", "(", ")", "[", "]", "{", "}", ",", ":", "?", "<", ">", "+", "-", "*", "/", "%", "!", ".", "=", "#", "|"}
	for i < len(src) {
		c := src[i]
		if c == ' ' || c == '\t' || c == '\n' {
			i++
			continue
		}
		if unicode.IsLetter(rune(c)) || c == '_' {
			j := i
			for j < len(src) && (unicode.IsLetter(rune(src[j])) || unicode.IsDigit(rune(src[j])) || src[j] == '_') {
				j++
			}
			out = append(out, tok{"id", src[i:j]})
			i = j
			continue
		}
		if c == '#' {
			j := i + 1
			for j < len(src) && (unicode.IsLetter(rune(src[j])) || unicode.IsDigit(rune(src[j])) || src[j] == '_') {
				j++
			}
			out = append(out, tok{"id", src[i:j]})
			i = j
			continue
		}
		if unicode.IsDigit(rune(c)) {
			j := i
			for j < len(src) && (unicode.IsDigit(rune(src[j])) || src[j] == '_' || src[j] == 'x' || (src[j] >= 'a' && src[j] <= 'f') || (src[j] >= 'A' && src[j] <= 'F')) {
				j++
			}
			out = append(out, tok{"num", strings.ReplaceAll(src[i:j], "_", "")})
			i = j
			continue
		}
		if c == '"' {
			j := i + 1
			for j < len(src) && src[j] != '"' {
				j++
			}
			if j >= len(src) {
				return nil, fmt.Errorf("unterminated string")
			}
			out = append(out, tok{"str", src[i+1 : j]})
			i = j + 1
			continue
		}
		matched := false
		for _, op := range ops {
			if strings.HasPrefix(src[i:], op) {
				out = append(out, tok{"op", op})
				i += len(op)
				matched = true
				break
			}
		}
		if !matched {
			return nil, fmt.Errorf("unexpected character %q in spec %q", c, src)
		}
	}
	out = append(out, tok{"eof", ""})
	return out, nil
}

type sparser struct {
	toks []tok
	p    int
	src  string
}

func ParseSpec(src string) (n *SNode, err error) {
	toks, err := lexSpec(src)
	if err != nil {
		return nil, err
	}
	ps := &sparser{toks: toks, src: src}
	defer func() {
		if r := recover(); r != nil {
			if s, ok := r.(specErr); ok {
				err = fmt.Errorf("%s in spec %q", string(s), src)
				return
			}
			panic(r)
		}
	}()
	n = ps.expr()
	if ps.peek().k != "eof" {
		ps.fail("trailing tokens at %q", ps.peek().s)
	}
	n.Src = src
	return n, nil
}

type specErr string

func (p *sparser) fail(f string, a ...interface{}) { panic(specErr(fmt.Sprintf(f, a...))) }
func (p *sparser) peek() tok                       { return p.toks[p.p] }
func (p *sparser) next() tok                       { t := p.toks[p.p]; p.p++; return t }
func (p *sparser) isOp(s string) bool              { t := p.peek(); return t.k == "op" && t.s == s }
func (p *sparser) isID(s string) bool              { t := p.peek(); return t.k == "id" && t.s == s }
func (p *sparser) expect(s string) {
	if !p.isOp(s) {
		p.fail("expected %q got %q", s, p.peek().s)
	}
	p.next()
}

func (p *sparser) expr() *SNode { return p.iff() }

func (p *sparser) iff() *SNode {
	l := p.imp()
	for p.isOp("<==>") {
		p.next()
		r := p.imp()
		l = &SNode{Op: "bin", Name: "<==>", Args: []*SNode{l, r}}
	}
	return l
}

func (p *sparser) imp() *SNode {
	l := p.tern()
	if p.isOp("==>") {
		p.next()
		r := p.imp()
		return &SNode{Op: "bin", Name: "==>", Args: []*SNode{l, r}}
	}
	return l
}

func (p *sparser) tern() *SNode {
	c := p.lor()
	if p.isOp("?") {
		p.next()
		a := p.tern()
		p.expect(":")
		b := p.tern()
		return &SNode{Op: "ite", Args: []*SNode{c, a, b}}
	}
	return c
}

func (p *sparser) lor() *SNode {
	l := p.land()
	for p.isOp("||") {
		p.next()
		r := p.land()
		l = &SNode{Op: "bin", Name: "||", Args: []*SNode{l, r}}
	}
	return l
}

func (p *sparser) land() *SNode {
	l := p.cmp()
	for p.isOp("&&") {
		p.next()
		r := p.cmp()
		l = &SNode{Op: "bin", Name: "&&", Args: []*SNode{l, r}}
	}
	return l
}

func isCmp(s string) bool {
	switch s {
	case "==", "!=", "<", "<=", ">", ">=":
		return true
	}
	return false
}

func (p *sparser) cmp() *SNode {
	l := p.add()
	var res *SNode
	for p.peek().k == "op" && isCmp(p.peek().s) {
		op := p.next().s
		r := p.add()
		c := &SNode{Op: "bin", Name: op, Args: []*SNode{l, r}}
		if res == nil {
			res = c
		} else {
			res = &SNode{Op: "bin", Name: "&&", Args: []*SNode{res, c}}
		}
		l = r
	}
	if res != nil {
		return res
	}
	return l
}

func (p *sparser) add() *SNode {
	l := p.mul()
	for p.isOp("+") || p.isOp("-") {
		op := p.next().s
		r := p.mul()
		l = &SNode{Op: "bin", Name: op, Args: []*SNode{l, r}}
	}
	return l
}

func (p *sparser) mul() *SNode {
	l := p.unary()
	for p.isOp("*") || p.isOp("/") || p.isOp("%") {
		op := p.next().s
		r := p.unary()
		l = &SNode{Op: "bin", Name: op, Args: []*SNode{l, r}}
	}
	return l
}

func (p *sparser) unary() *SNode {
	if p.isOp("!") || p.isOp("-") {
		op := p.next().s
		x := p.unary()
		return &SNode{Op: "un", Name: op, Args: []*SNode{x}}
	}
	return p.postfix()
}

func (p *sparser) postfix() *SNode {
	x := p.primary()
	for {
		switch {
		case p.isOp("."):
			p.next()
			t := p.next()
			if t.k != "id" {
				p.fail("expected field name")
			}
			x = &SNode{Op: "field", Name: t.s, Args: []*SNode{x}}
		case p.isOp("("):
			p.next()
			var args []*SNode
			for !p.isOp(")") {
				args = append(args, p.expr())
				if p.isOp(",") {
					p.next()
				}
			}
			p.expect(")")
			x = &SNode{Op: "call", Args: append([]*SNode{x}, args...)}
		case p.isOp("["):
			p.next()
			if p.isOp(":") {
				p.next()
				hi := p.expr()
				p.expect("]")
				x = &SNode{Op: "slice", Args: []*SNode{x, nil, hi}}
				continue
			}
			i := p.expr()
			if p.isOp(":") {
				p.next()
				var hi *SNode
				if !p.isOp("]") {
					hi = p.expr()
				}
				p.expect("]")
				x = &SNode{Op: "slice", Args: []*SNode{x, i, hi}}
				continue
			}
			p.expect("]")
			x = &SNode{Op: "index", Args: []*SNode{x, i}}
		case p.isOp("{") && (x.Op == "id" || x.Op == "field") && startsUpperOrQualified(x):
			p.next()
			var args []*SNode
			for !p.isOp("}") {
				args = append(args, p.expr())
				if p.isOp(",") {
					p.next()
				}
			}
			p.expect("}")
			x = &SNode{Op: "lit", Args: append([]*SNode{x}, args...)}
		default:
			return x
		}
	}
}

func startsUpperOrQualified(x *SNode) bool {
	n := x.Name
	return n != "" && unicode.IsUpper(rune(n[0]))
}

func (p *sparser) binders() []Binder {
	var bs []Binder
	for {
		t := p.next()
		if t.k != "id" {
			p.fail("expected binder name")
		}
		b := Binder{Name: t.s}
		// optional type: identifier(s) up to , or ::
		if p.peek().k == "id" || p.isOp("[") || p.isOp("*") {
			var ty []string
			for !(p.isOp(",") || p.isOp("::")) {
				ty = append(ty, p.next().s)
			}
			b.Type = strings.Join(ty, "")
		}
		bs = append(bs, b)
		if p.isOp(",") {
			p.next()
			continue
		}
		break
	}
	// binders without explicit type inherit the type of the next typed binder? no: default Int
	return bs
}

func (p *sparser) primary() *SNode {
	t := p.next()
	switch t.k {
	case "num":
		return &SNode{Op: "num", Name: t.s}
	case "str":
		return &SNode{Op: "str", Name: t.s}
	case "id":
		switch t.s {
		case "forall", "exists":
			bs := p.binders()
			p.expect("::")
			// optional instantiation trigger:  forall x :: { f(x), g(x) } body
			var trig []*SNode
			if p.isOp("{") {
				p.next()
				for {
					trig = append(trig, p.expr())
					if p.isOp(",") {
						p.next()
						continue
					}
					// `|` starts an alternative trigger:  { f(x) | g(x), h(x) }
					if p.isOp("|") {
						p.next()
						trig = append(trig, &SNode{Op: "trigsep"})
						continue
					}
					break
				}
				p.expect("}")
			}
			body := p.expr()
			return &SNode{Op: t.s, Binders: bs, Args: append([]*SNode{body}, trig...)}
		case "let":
			n := p.next()
			p.expect("=")
			v := p.expr()
			if !p.isID("in") {
				p.fail("expected 'in'")
			}
			p.next()
			body := p.expr()
			return &SNode{Op: "let", Name: n.s, Args: []*SNode{v, body}}
		case "old":
			p.expect("(")
			e := p.expr()
			p.expect(")")
			return &SNode{Op: "old", Args: []*SNode{e}}
		}
		return &SNode{Op: "id", Name: t.s}
	case "op":
		if t.s == "(" {
			e := p.expr()
			p.expect(")")
			return e
		}
	}
	p.fail("unexpected token %q", t.s)
	return nil
}

func (n *SNode) String() string {
	if n == nil {
		return ""
	}
	if n.Src != "" {
		return n.Src
	}
	return n.Op + ":" + n.Name
}
