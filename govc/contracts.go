package main

import (
	"fmt"
	"os"
	"path/filepath"
	"regexp"
	"strconv"
	"strings"
)

type Clause struct {
	Expr  *SNode
	Src   string
	Label string // optional "name:" label
	File  string
	Line  int
	Pkg   string
}

type LoopSpec struct {
	Invariants []*Clause
	Exhaustive bool      // `loop N: exhaustive`: no break is reachable - the loop visits every element of what it ranges over
	Each       []*Clause // `loop N: each <expr>`: holds at the end of every iteration (an obligation there, never assumed)
	Decreases  *Clause
}

type FuncContract struct {
	Key          string // "Recv.Name" or "Name" (package-local)
	RecvName     string
	PkgPath      string
	Requires     []*Clause
	Ensures      []*Clause
	Names        []*Clause // `names` clauses: assumed at call sites only (they give the result of a deterministic function a name)
	Maintains    []*Clause
	Asserts      map[int][]*Clause
	Uses         []string // lemmas (proved separately) made available to this function's obligations
	NamedAsserts map[string][]*Clause
	Modifies     []string
	Loops        map[int]*LoopSpec
	Flags        map[string]string // nooverflow, may_panic, inline, deterministic, mode, bytes, trusted, pure
	Extern       bool
	Params       []string // for extern contracts: parameter names
	Results      []string // for extern contracts: result names
	File         string
	Line         int
}

type SpecFn struct {
	Name   string
	Params []Binder
	Ret    string
	Body   *SNode // nil => uninterpreted
	Src    string
	Pkg    string
}

type GhostDecl struct {
	Name    string
	Type    string // spec type expression e.g. map[Addr]map[uint64]DE
	Default string
	Key     string
	Pkg     string
}

type Lemma struct {
	Name   string
	Expr   *SNode
	Src    string
	Pkg    string
	Induct string // name of the (Int) binder the lemma is proved by induction on ("" = direct proof)
}

type NamedInv struct {
	Name string
	Expr *SNode
	Pkg  string
}

type ContractSet struct {
	Funcs       map[string]*FuncContract // key: pkgpath + "." + Key
	Specs       map[string]*SpecFn       // by name (global namespace, must be unique)
	Axioms      []*Clause
	Ghosts      map[string]*GhostDecl
	Invs        map[string]*NamedInv
	Lemmas      []*Lemma
	Files       []string
	OpaqueSorts map[string]bool
	Writers     map[string]map[string][]string // package path -> key function -> functions allowed to Set/Delete keys of that family
}

func NewContractSet() *ContractSet {
	return &ContractSet{Funcs: map[string]*FuncContract{}, Specs: map[string]*SpecFn{}, Ghosts: map[string]*GhostDecl{}, Invs: map[string]*NamedInv{}, OpaqueSorts: map[string]bool{}, Writers: map[string]map[string][]string{}}
}

var kwRe = regexp.MustCompile(`^(spec|axiom|ghost|inv|func|extern|requires|ensures|maintains|modifies|may_panic|deterministic|nooverflow|inline|mode|bytes|loop|assert|locals|lemma|uses|unfold|counts|on_send|forwards|pure_funcvalues|readonly_funcvalues|names|trusted|pure|opaque|reveal|bounded|keyfns|keyfn|writers|sort|replay|abstract)\b`)

// logical lines: (keyword, rest, line number)
type cline struct {
	kw, rest string
	line     int
}

func readContractLines(path string) ([]cline, error) {
	data, err := os.ReadFile(path)
	if err != nil {
		return nil, err
	}
	var out []cline
	for i, raw := range strings.Split(string(data), "\n") {
		t := strings.TrimSpace(raw)
		if !strings.HasPrefix(t, "//@") {
			continue
		}
		body := strings.TrimPrefix(t, "//@")
		// strip trailing "// comment"
		if k := strings.Index(body, " // "); k >= 0 {
			body = body[:k]
		}
		tb := strings.TrimSpace(body)
		if tb == "" {
			continue
		}
		if m := kwRe.FindString(tb); m != "" && !strings.HasPrefix(body, "   ") {
			out = append(out, cline{kw: m, rest: strings.TrimSpace(tb[len(m):]), line: i + 1})
		} else {
			if len(out) == 0 {
				return nil, fmt.Errorf("%s:%d: continuation without clause", path, i+1)
			}
			out[len(out)-1].rest += " " + tb
		}
	}
	return out, nil
}

var funcHdrRe = regexp.MustCompile(`^(?:\(\s*(\w+)\s+\*?([\w./\-]+)\s*\)\s*)?([\w$./\-]+)(?:\((.*?)\))?(?:\s*\((.*?)\))?\s*$`)

func (cs *ContractSet) LoadFile(path, pkgPath string) error {
	lines, err := readContractLines(path)
	if err != nil {
		return err
	}
	cs.Files = append(cs.Files, path)
	var cur *FuncContract
	mkClause := func(l cline) (*Clause, error) {
		src := l.rest
		label := ""
		e, err := ParseSpec(src)
		if err != nil {
			return nil, fmt.Errorf("%s:%d: %v", path, l.line, err)
		}
		return &Clause{Expr: e, Src: src, Label: label, File: path, Line: l.line, Pkg: pkgPath}, nil
	}
	for _, l := range lines {
		switch l.kw {
		case "func", "extern":
			m := funcHdrRe.FindStringSubmatch(l.rest)
			if m == nil {
				return fmt.Errorf("%s:%d: bad func header %q", path, l.line, l.rest)
			}
			key := m[3]
			if m[2] != "" {
				recv := m[2]
				if k := strings.LastIndex(recv, "."); k >= 0 && l.kw == "func" {
					recv = recv[k+1:]
				}
				key = recv + "." + m[3]
			}
			cur = &FuncContract{RecvName: m[1], Key: key, PkgPath: pkgPath, Loops: map[int]*LoopSpec{}, Flags: map[string]string{}, Asserts: map[int][]*Clause{}, File: path, Line: l.line}
			full := pkgPath + "." + key
			if l.kw == "extern" {
				cur.Extern = true
				full = key // extern keys are fully qualified by the author: "pkgpath.Type.Method" given via recv
				if m[2] != "" {
					full = m[2] + "." + m[3]
				}
				cur.Key = full
				if m[4] != "" {
					for _, p := range strings.Split(m[4], ",") {
						cur.Params = append(cur.Params, strings.TrimSpace(p))
					}
				}
				if m[5] != "" {
					for _, p := range strings.Split(m[5], ",") {
						cur.Results = append(cur.Results, strings.TrimSpace(p))
					}
				}
			}
			if _, dup := cs.Funcs[full]; dup {
				return fmt.Errorf("%s:%d: duplicate contract for %s", path, l.line, full)
			}
			cs.Funcs[full] = cur
		case "maintains":
			if cur == nil {
				return fmt.Errorf("%s:%d: clause outside func", path, l.line)
			}
			c, err := mkClause(l)
			if err != nil {
				return err
			}
			cur.Maintains = append(cur.Maintains, c)
			cur.Requires = append(cur.Requires, c)
			cur.Ensures = append(cur.Ensures, c)
		case "requires", "ensures", "names":
			if cur == nil {
				return fmt.Errorf("%s:%d: clause outside func", path, l.line)
			}
			c, err := mkClause(l)
			if err != nil {
				return err
			}
			switch l.kw {
			case "requires":
				cur.Requires = append(cur.Requires, c)
			case "names":
				cur.Names = append(cur.Names, c)
			default:
				cur.Ensures = append(cur.Ensures, c)
			}
		case "uses":
			if cur == nil {
				return fmt.Errorf("%s:%d: uses outside func", path, l.line)
			}
			for _, m := range strings.Split(l.rest, ",") {
				if m = strings.TrimSpace(m); m != "" {
					cur.Uses = append(cur.Uses, m)
				}
			}
		case "modifies":
			for _, m := range strings.Split(l.rest, ",") {
				if m = strings.TrimSpace(m); m != "" {
					cur.Modifies = append(cur.Modifies, m)
				}
			}
		case "may_panic", "deterministic", "nooverflow", "inline", "trusted", "pure", "opaque", "bounded", "keyfn", "abstract", "unfold", "pure_funcvalues", "readonly_funcvalues":
			if cur == nil {
				return fmt.Errorf("%s:%d: flag outside func", path, l.line)
			}
			v := l.rest
			if v == "" {
				v = "true"
			}
			cur.Flags[l.kw] = v
		case "mode", "bytes", "replay", "counts", "on_send", "forwards":
			cur.Flags[l.kw] = l.rest
		case "locals", "reveal":
			// informational
		case "loop":
			if cur == nil {
				return fmt.Errorf("%s:%d: loop clause outside func", path, l.line)
			}
			k := strings.Index(l.rest, ":")
			if k < 0 {
				return fmt.Errorf("%s:%d: bad loop clause", path, l.line)
			}
			n, err := strconv.Atoi(strings.TrimSpace(l.rest[:k]))
			if err != nil {
				return fmt.Errorf("%s:%d: bad loop ordinal", path, l.line)
			}
			rest := strings.TrimSpace(l.rest[k+1:])
			ls := cur.Loops[n]
			if ls == nil {
				ls = &LoopSpec{}
				cur.Loops[n] = ls
			}
			switch {
			case strings.HasPrefix(rest, "invariant"):
				c, err := mkClause(cline{rest: strings.TrimSpace(rest[len("invariant"):]), line: l.line})
				if err != nil {
					return err
				}
				ls.Invariants = append(ls.Invariants, c)
			case rest == "exhaustive":
				ls.Exhaustive = true
			case strings.HasPrefix(rest, "each"):
				c, err := mkClause(cline{rest: strings.TrimSpace(rest[len("each"):]), line: l.line})
				if err != nil {
					return err
				}
				ls.Each = append(ls.Each, c)
			case strings.HasPrefix(rest, "decreases"):
				c, err := mkClause(cline{rest: strings.TrimSpace(rest[len("decreases"):]), line: l.line})
				if err != nil {
					return err
				}
				ls.Decreases = c
			default:
				return fmt.Errorf("%s:%d: bad loop clause %q", path, l.line, rest)
			}
		case "assert":
			k := strings.Index(l.rest, ":")
			where := strings.TrimSpace(l.rest[:k])
			c, err := mkClause(cline{rest: strings.TrimSpace(l.rest[k+1:]), line: l.line})
			if err != nil {
				return err
			}
			if f := strings.Fields(where); len(f) == 2 && (f[0] == "after" || f[0] == "before" || (f[0] == "at" && (f[1] == "end" || f[1] == "return" || f[1] == "lastreturn"))) {
				// anchored at the top-level statement that first defines/assigns the named variable
				if cur.NamedAsserts == nil {
					cur.NamedAsserts = map[string][]*Clause{}
				}
				cur.NamedAsserts[f[0]+":"+f[1]] = append(cur.NamedAsserts[f[0]+":"+f[1]], c)
				break
			}
			n, err := strconv.Atoi(where)
			if err != nil {
				return fmt.Errorf("%s:%d: bad assert position %q", path, l.line, where)
			}
			cur.Asserts[n] = append(cur.Asserts[n], c)
		case "spec":
			sf, err := parseSpecFn(l.rest)
			if err != nil {
				return fmt.Errorf("%s:%d: %v", path, l.line, err)
			}
			sf.Pkg = pkgPath
			if _, dup := cs.Specs[sf.Name]; dup {
				return fmt.Errorf("%s:%d: duplicate spec function %s", path, l.line, sf.Name)
			}
			cs.Specs[sf.Name] = sf
			cur = nil
		case "axiom", "lemma", "inv":
			k := strings.Index(l.rest, ":")
			if k < 0 {
				return fmt.Errorf("%s:%d: %s needs a name", path, l.line, l.kw)
			}
			name := strings.TrimSpace(l.rest[:k])
			c, err := mkClause(cline{rest: strings.TrimSpace(l.rest[k+1:]), line: l.line})
			if err != nil {
				return err
			}
			c.Label = name
			switch l.kw {
			case "axiom":
				cs.Axioms = append(cs.Axioms, c)
			case "lemma":
				lm := &Lemma{Name: name, Expr: c.Expr, Src: c.Src, Pkg: pkgPath}
				if f := strings.Fields(name); len(f) == 3 && f[1] == "induction" {
					lm.Name, lm.Induct = f[0], f[2]
				}
				cs.Lemmas = append(cs.Lemmas, lm)
			case "inv":
				cs.Invs[name] = &NamedInv{Name: name, Expr: c.Expr, Pkg: pkgPath}
			}
			cur = nil
		case "sort":
			for _, nm := range strings.Fields(l.rest) {
				cs.OpaqueSorts[nm] = true
			}
			cur = nil
		case "writers":
			// //@ writers <KeyFn>: F1, F2 ...   the functions of this package that may Set/Delete keys built by KeyFn
			k := strings.Index(l.rest, ":")
			if k < 0 {
				return fmt.Errorf("%s:%d: writers needs `KeyFn: F1, F2`", path, l.line)
			}
			kf := strings.TrimSpace(l.rest[:k])
			if cs.Writers[pkgPath] == nil {
				cs.Writers[pkgPath] = map[string][]string{}
			}
			for _, f := range strings.Split(l.rest[k+1:], ",") {
				if f = strings.TrimSpace(f); f != "" {
					cs.Writers[pkgPath][kf] = append(cs.Writers[pkgPath][kf], f)
				}
			}
			cur = nil
		case "keyfns":
			for _, nm := range strings.Fields(l.rest) {
				full := pkgPath + "." + nm
				if _, dup := cs.Funcs[full]; dup {
					return fmt.Errorf("%s:%d: duplicate contract for %s", path, l.line, full)
				}
				cs.Funcs[full] = &FuncContract{Key: nm, PkgPath: pkgPath, Loops: map[int]*LoopSpec{}, Flags: map[string]string{"keyfn": "true"}, Asserts: map[int][]*Clause{}, File: path, Line: l.line}
			}
			cur = nil
		case "ghost":
			g, err := parseGhost(l.rest)
			if err != nil {
				return fmt.Errorf("%s:%d: %v", path, l.line, err)
			}
			g.Pkg = pkgPath
			cs.Ghosts[g.Name] = g
			cur = nil
		}
	}
	return nil
}

// spec name(p T, q U) R = body   |  spec name(p T) R uninterpreted
func parseSpecFn(s string) (*SpecFn, error) {
	op := strings.Index(s, "(")
	if op < 0 {
		return nil, fmt.Errorf("bad spec decl %q", s)
	}
	name := strings.TrimSpace(s[:op])
	depth := 0
	cl := -1
	for i := op; i < len(s); i++ {
		if s[i] == '(' {
			depth++
		} else if s[i] == ')' {
			depth--
			if depth == 0 {
				cl = i
				break
			}
		}
	}
	if cl < 0 {
		return nil, fmt.Errorf("bad spec decl %q", s)
	}
	sf := &SpecFn{Name: name, Src: s}
	ps := strings.TrimSpace(s[op+1 : cl])
	if ps != "" {
		for _, p := range strings.Split(ps, ",") {
			f := strings.Fields(strings.TrimSpace(p))
			if len(f) < 2 {
				return nil, fmt.Errorf("spec param needs a type: %q", p)
			}
			sf.Params = append(sf.Params, Binder{Name: f[0], Type: strings.Join(f[1:], "")})
		}
	}
	rest := strings.TrimSpace(s[cl+1:])
	if k := strings.Index(rest, "="); k >= 0 {
		sf.Ret = strings.TrimSpace(rest[:k])
		body, err := ParseSpec(strings.TrimSpace(rest[k+1:]))
		if err != nil {
			return nil, err
		}
		sf.Body = body
	} else {
		f := strings.Fields(rest)
		if len(f) != 2 || f[1] != "uninterpreted" {
			return nil, fmt.Errorf("bad spec decl tail %q", rest)
		}
		sf.Ret = f[0]
	}
	return sf, nil
}

// ghost Name type [key K] [default E]
func parseGhost(s string) (*GhostDecl, error) {
	f := strings.Fields(s)
	if len(f) < 2 {
		return nil, fmt.Errorf("bad ghost decl %q", s)
	}
	g := &GhostDecl{Name: f[0], Type: f[1]}
	for i := 2; i+1 < len(f); i += 2 {
		switch f[i] {
		case "key":
			g.Key = f[i+1]
		case "default":
			g.Default = strings.Join(f[i+1:], " ")
			i = len(f)
		}
	}
	return g, nil
}

// contractFileFor returns the contract file to read for a package directory: /repo's hook file if
// present (or GOVC_DEV unset), else the mirror under /verif/contracts/repo/<rel>/.
func contractFileFor(repo, verif, rel string) string {
	mirror := filepath.Join(verif, "contracts", "repo", rel, "zz_contracts_verif.go")
	inRepo := filepath.Join(repo, rel, "zz_contracts_verif.go")
	if os.Getenv("GOVC_DEV") == "1" {
		if _, err := os.Stat(mirror); err == nil {
			return mirror
		}
	}
	if _, err := os.Stat(inRepo); err == nil {
		return inRepo
	}
	if _, err := os.Stat(mirror); err == nil {
		return mirror
	}
	return ""
}
