package main

import (
	"fmt"
	"go/ast"
	"go/types"
	"os"
	"sort"
	"strings"
)

// ---------------------------------------------------------------------------------------------
// Frame of the store invariants: `//@ writers KeyFn: F1, F2` in a keeper package's contract file lists the functions
// of that package that write (Set/Delete) store keys built by KeyFn. Every store invariant ("a lock has its index entry",
// "a record is filed under its own id") is proved writer by writer; that is only an argument about the whole module if
// there are no other writers. The ground obligation `writers/<pkg>/<KeyFn>` fails when a function outside the list
// writes such a key (a new bulk setter, a shortcut around the function that keeps an index in step ...).
// Syntactic: a call x.Set(k, ...) or x.Delete(k) whose key argument is a call of KeyFn, or a local variable assigned from
// one in the same function.
// ---------------------------------------------------------------------------------------------

func (e *Engine) storeWriters(pkgPath string) map[string][]string {
	out := map[string]map[string]bool{}
	add := func(kf, fn string) {
		if out[kf] == nil {
			out[kf] = map[string]bool{}
		}
		out[kf][fn] = true
	}
	keyFnOf := func(info *types.Info, x ast.Expr) string {
		c, ok := unparen(x).(*ast.CallExpr)
		if !ok {
			return ""
		}
		var id *ast.Ident
		switch f := unparen(c.Fun).(type) {
		case *ast.Ident:
			id = f
		case *ast.SelectorExpr:
			id = f.Sel
		}
		if id == nil {
			return ""
		}
		if fo, ok := info.ObjectOf(id).(*types.Func); ok && fo.Pkg() != nil && strings.HasPrefix(fo.Pkg().Path(), modPath) && (strings.HasSuffix(fo.Name(), "StoreKey") || strings.HasSuffix(fo.Name(), "IndexKey") || strings.HasSuffix(fo.Name(), "PrefixKey")) {
			return fo.Name()
		}
		return ""
	}
	for key, fi := range e.funcs {
		if fi.Lit != nil || fi.Pkg.PkgPath != pkgPath || fi.Body() == nil {
			continue
		}
		file := e.fset.Position(fi.Decl.Pos()).Filename
		if strings.HasSuffix(file, "_test.go") {
			continue
		}
		info := fi.Pkg.TypesInfo
		fromKey := map[types.Object]string{}
		ast.Inspect(fi.Body(), func(n ast.Node) bool {
			if as, ok := n.(*ast.AssignStmt); ok && len(as.Lhs) == len(as.Rhs) {
				for i, l := range as.Lhs {
					if id, ok := l.(*ast.Ident); ok {
						if kf := keyFnOf(info, as.Rhs[i]); kf != "" {
							fromKey[info.ObjectOf(id)] = kf
						}
					}
				}
			}
			return true
		})
		ast.Inspect(fi.Body(), func(n ast.Node) bool {
			c, ok := n.(*ast.CallExpr)
			if !ok || len(c.Args) == 0 {
				return true
			}
			sel, ok := c.Fun.(*ast.SelectorExpr)
			if !ok || (sel.Sel.Name != "Set" && sel.Sel.Name != "Delete") {
				return true
			}
			kf := keyFnOf(info, c.Args[0])
			if kf == "" {
				if id, ok := unparen(c.Args[0]).(*ast.Ident); ok {
					kf = fromKey[info.ObjectOf(id)]
				}
			}
			if kf != "" {
				add(kf, strings.TrimPrefix(key, pkgPath+"."))
			}
			return true
		})
	}
	res := map[string][]string{}
	for kf, m := range out {
		for f := range m {
			res[kf] = append(res[kf], f)
		}
		sort.Strings(res[kf])
	}
	return res
}

func groundWriters(e *Engine, prop string) []*Obligation {
	var out []*Obligation
	var pkgs []string
	for p := range e.cs.Writers {
		if e.pkgs[p] != nil {
			pkgs = append(pkgs, p)
		}
	}
	if os.Getenv("GOVC_WRITERS_DUMP") != "" {
		pkgs = nil
		for p := range e.pkgs {
			if strings.HasSuffix(p, "/keeper") && strings.HasPrefix(p, modPath) {
				pkgs = append(pkgs, p)
			}
		}
	}
	sort.Strings(pkgs)
	for _, p := range pkgs {
		if os.Getenv("GOVC_WRITERS_DUMP") != "" {
			fmt.Fprintf(os.Stderr, "== %s\n", p)
		}
		found := e.storeWriters(p)
		if os.Getenv("GOVC_WRITERS_DUMP") != "" {
			var kfs []string
			for kf := range found {
				kfs = append(kfs, kf)
			}
			sort.Strings(kfs)
			for _, kf := range kfs {
				fmt.Fprintf(os.Stderr, "//@ writers %s: %s\n", kf, strings.Join(found[kf], ", "))
			}
		}
		var kfs []string
		for kf := range e.cs.Writers[p] {
			kfs = append(kfs, kf)
		}
		sort.Strings(kfs)
		callers := e.pkgCallers(p)
		for _, kf := range kfs {
			allowed := map[string]bool{}
			for _, f := range e.cs.Writers[p][kf] {
				allowed[f] = true
			}
			// an unexported, loop-free helper that is called only from listed writers is part of those writers: the engine
			// inlines it into them, so their proofs cover its writes (a listed writer split in two is not a new writer)
			for changed := true; changed; {
				changed = false
				for _, f := range found[kf] {
					if allowed[f] {
						continue
					}
					fi := e.funcs[p+"."+f]
					name := f[strings.LastIndex(f, ".")+1:]
					if fi == nil || name == "" || name[0] < 'a' || name[0] > 'z' || !e.autoInlinable(fi) || len(callers[f]) == 0 {
						continue
					}
					all := true
					for c := range callers[f] {
						if !allowed[c] {
							all = false
						}
					}
					if all {
						allowed[f] = true
						changed = true
					}
				}
			}
			var extra []string
			for _, f := range found[kf] {
				if !allowed[f] {
					extra = append(extra, f)
				}
			}
			out = append(out, groundObl(prop, "writers/"+shortPkg(p)+"/"+kf,
				fmt.Sprintf("only %s write %s records in %s", strings.Join(e.cs.Writers[p][kf], ", "), kf, shortPkg(p)),
				len(extra) == 0, "also written by (no contract covers these as writers of the record): "+strings.Join(extra, ", ")))
		}
	}
	return out
}

// pkgCallers: for every function of the package, the functions of the same package (non-test files) that call it.
func (e *Engine) pkgCallers(pkgPath string) map[string]map[string]bool {
	out := map[string]map[string]bool{}
	for key, fi := range e.funcs {
		if fi.Pkg.PkgPath != pkgPath || fi.Body() == nil {
			continue
		}
		if strings.HasSuffix(e.fset.Position(fi.Body().Pos()).Filename, "_test.go") {
			continue
		}
		caller := strings.TrimPrefix(key, pkgPath+".")
		if i := strings.Index(caller, "$"); i >= 0 {
			caller = caller[:i] // a literal belongs to the function that contains it
		}
		info := fi.Pkg.TypesInfo
		ast.Inspect(fi.Body(), func(n ast.Node) bool {
			c, ok := n.(*ast.CallExpr)
			if !ok {
				return true
			}
			var id *ast.Ident
			switch f := unparen(c.Fun).(type) {
			case *ast.Ident:
				id = f
			case *ast.SelectorExpr:
				id = f.Sel
			}
			if id == nil {
				return true
			}
			if fo, ok := info.ObjectOf(id).(*types.Func); ok && fo.Pkg() != nil && fo.Pkg().Path() == pkgPath {
				callee := strings.TrimPrefix(funcKey(fo), pkgPath+".")
				if out[callee] == nil {
					out[callee] = map[string]bool{}
				}
				out[callee][caller] = true
			}
			return true
		})
	}
	return out
}

func init() { groundChecks["writers"] = groundWriters }
