package main

import (
	"encoding/json"
	"fmt"
	"os"
	"path/filepath"
	"runtime"
	"sort"
	"strconv"
	"strings"
	"sync"
	"time"
)

type PropConfig struct {
	ID         string   `json:"id"`
	Packages   []string `json:"packages"`
	Functions  []string `json:"functions"` // keys relative to module: "x/feeds/types.SumPower"
	Lemmas     []string `json:"lemmas"`    // lemma name prefixes
	Ground     []string `json:"ground"`    // ground check names
	Bounded    []string `json:"bounded"`   // bounded stand-ins (thorough only)
	NotDecided []string `json:"not_decided"`
	Trusted    []string `json:"trusted_base"`
}

type Ledger struct {
	Property  string            `json:"property"`
	Functions map[string]string `json:"functions"`   // key -> source hash
	Obls      map[string]string `json:"obligations"` // name -> result
	DeadExits map[string]bool   `json:"dead_exits"`
	Locals    map[string][]string `json:"locals,omitempty"` // key -> declared locals "name|type" in source order
}

type KnownFinding struct {
	Kind       string // finding | fixed
	Property   string
	Obligation string
	Text       string
}

func loadKnown(path string) []KnownFinding {
	data, err := os.ReadFile(path)
	if err != nil {
		return nil
	}
	var out []KnownFinding
	for _, l := range strings.Split(string(data), "\n") {
		l = strings.TrimSpace(l)
		if l == "" || strings.HasPrefix(l, "#") {
			continue
		}
		k := KnownFinding{}
		switch {
		case strings.HasPrefix(l, "finding:"):
			k.Kind = "finding"
			l = strings.TrimSpace(l[len("finding:"):])
		case strings.HasPrefix(l, "fixed:"):
			k.Kind = "fixed"
			l = strings.TrimSpace(l[len("fixed:"):])
		default:
			continue
		}
		for _, f := range strings.Fields(l) {
			if strings.HasPrefix(f, "property=") {
				k.Property = f[len("property="):]
			}
			if strings.HasPrefix(f, "obligation=") {
				k.Obligation = f[len("obligation="):]
			}
		}
		k.Text = l
		out = append(out, k)
	}
	return out
}

func main() {
	if len(os.Args) < 2 {
		fmt.Fprintln(os.Stderr, "usage: govc check <Cxx> quick|thorough | ledger <Cxx> | dump <Cxx> <func>")
		os.Exit(2)
	}
	verif := os.Getenv("VERIF_DIR")
	if verif == "" {
		verif = "/verif"
	}
	repo := os.Getenv("REPO_DIR")
	if repo == "" {
		repo = "/repo"
	}
	switch os.Args[1] {
	case "check":
		tier := "quick"
		if len(os.Args) > 3 {
			tier = os.Args[3]
		}
		os.Exit(runCheck(repo, verif, os.Args[2], tier, false))
	case "ledger":
		os.Exit(runCheck(repo, verif, os.Args[2], "quick", true))
	case "dump":
		os.Exit(runDump(repo, verif, os.Args[2], os.Args[3]))
	case "replay":
		os.Exit(runReplayFile(repo, verif, os.Args[2]))
	case "stability":
		os.Exit(runStability(repo, verif, os.Args[2]))
	case "conform":
		// development aid: conformance sampling of one function (govc conform Cxx <module-relative function>)
		pc, err := loadProp(verif, os.Args[2])
		if err != nil {
			fmt.Fprintln(os.Stderr, err)
			os.Exit(2)
		}
		e := NewEngine(repo, verif)
		if err := e.Load(pc.Packages); err != nil {
			fmt.Fprintln(os.Stderr, err)
			os.Exit(2)
		}
		n, per, mism := e.conformance([]string{modPath + "/" + os.Args[3]}, 7, 300)
		fmt.Println(n, per)
		for _, m := range mism {
			fmt.Println("MISMATCH", m)
		}
		os.Exit(0)
	}
	fmt.Fprintln(os.Stderr, "unknown command")
	os.Exit(2)
}

func loadProp(verif, id string) (*PropConfig, error) {
	data, err := os.ReadFile(filepath.Join(verif, "contracts", "props", id+".json"))
	if err != nil {
		return nil, err
	}
	var pc PropConfig
	if err := json.Unmarshal(data, &pc); err != nil {
		return nil, err
	}
	pc.ID = id
	return &pc, nil
}

func runDump(repo, verif, id, fn string) int {
	pc, err := loadProp(verif, id)
	if err != nil {
		fmt.Fprintln(os.Stderr, err)
		return 2
	}
	e := NewEngine(repo, verif)
	if err := e.Load(pc.Packages); err != nil {
		fmt.Fprintln(os.Stderr, "load:", err)
		return 2
	}
	var rep *FuncReport
	var obls []*Obligation
	if strings.HasPrefix(fn, "lemma:") {
		rep, obls = e.VerifyLemmas(id, []string{strings.TrimPrefix(fn, "lemma:")})
	} else {
		rep, obls = e.VerifyFunc(id, modPath+"/"+fn)
	}
	b, _ := json.MarshalIndent(rep, "", " ")
	fmt.Println(string(b))
	for _, o := range obls {
		sc := o.Script
		if os.Getenv("GOVC_DUMP_LITE") != "" && o.Lite != "" {
			sc = o.Lite
		}
		fmt.Printf("==== %s [%s] %s\n%s\n", o.Name, o.Kind, o.Clause, sc)
	}
	return 0
}

type oblRecord struct {
	Name   string `json:"name"`
	Kind   string `json:"kind"`
	Result string `json:"result"`
	Solver string `json:"backend"`
	Ms     int64  `json:"ms"`
	Clause string `json:"clause,omitempty"`
	Pos    string `json:"pos,omitempty"`
}

func runCheck(repo, verif, id, tier string, writeLedger bool) int {
	start := time.Now()
	seed := 0
	if s := os.Getenv("VERIF_SEED"); s != "" {
		seed, _ = strconv.Atoi(s)
	}
	pc, err := loadProp(verif, id)
	if err != nil {
		fmt.Fprintln(os.Stderr, err)
		return 2
	}
	evPath := filepath.Join(verif, "evidence", id+".json")
	child := os.Getenv("GOVC_CHILD") != ""
	if child {
		evPath = filepath.Join(verif, "work", "child", id+"-"+strconv.Itoa(os.Getpid())+".json")
	}
	fail := func(msg string) int {
		// infrastructure failure: not a violation; evidence says so
		fmt.Println("ERROR", msg)
		writeEvidence(evPath, map[string]interface{}{
			"property_id": id, "tier": tier, "seed": seed, "level": "other",
			"coverage":    map[string]interface{}{"explanation": "check could not run: " + msg, "obligations": 0, "discharged": 0},
			"wall_s":      time.Since(start).Seconds(),
			"violations":  0,
			"assumptions": []string{},
		})
		return 2
	}
	e := NewEngine(repo, verif)
	if err := e.Load(pc.Packages); err != nil {
		return fail("load: " + err.Error())
	}
	timeout := 10
	if tier == "thorough" {
		timeout = 60
	}
	work := filepath.Join(verif, "work", "smt", id)
	if child {
		work = filepath.Join(verif, "work", "child", "smt-"+id+"-"+strconv.Itoa(os.Getpid()))
		defer os.RemoveAll(work)
		defer func() {
			if e.overlayDir != "" {
				os.RemoveAll(e.overlayDir)
			}
		}()
	}
	os.RemoveAll(work)
	os.MkdirAll(work, 0o755)

	// the ledger (what discharged on the tree the contracts were last proved on) is read first: VC generation consults
	// it to tell a changed function from an unchanged one
	ledPath := filepath.Join(verif, "ledger", id+".json")
	var led Ledger
	if data, err := os.ReadFile(ledPath); err == nil {
		json.Unmarshal(data, &led)
	}
	if !writeLedger {
		e.ledHash, e.ledLocals = led.Functions, led.Locals
	}
	var reps []*FuncReport
	var all []*Obligation
	for _, f := range pc.Functions {
		rep, obls := e.VerifyFunc(id, modPath+"/"+f)
		reps = append(reps, rep)
		all = append(all, obls...)
	}
	// lemmas named in `uses` clauses of the functions under contract are proved in the same run
	lemmaNames := append([]string{}, pc.Lemmas...)
	for _, f := range pc.Functions {
		if c := e.cs.Funcs[modPath+"/"+f]; c != nil {
			for _, u := range c.Uses {
				dup := false
				for _, x := range lemmaNames {
					if x == u {
						dup = true
					}
				}
				if !dup {
					lemmaNames = append(lemmaNames, u)
				}
			}
		}
	}
	lrep, lobls := e.VerifyLemmas(id, lemmaNames)
	if lrep != nil {
		reps = append(reps, lrep)
		all = append(all, lobls...)
	}
	gobls := e.GroundChecks(id, pc.Ground)
	all = append(all, gobls...)

	SolveAll(work, all, timeout, runtime.NumCPU())
	known := loadKnown(filepath.Join(verif, "known_findings.txt"))
	// retry undecided obligations with a longer timeout, but only where a proof is expected
	// (function unchanged w.r.t. the ledger); changed functions go straight to counterexample search
	hashNow := map[string]string{}
	for _, r := range reps {
		hashNow[r.Key] = r.Hash
	}
	var retry []*Obligation
	for _, o := range all {
		if (o.Result == "unknown" || o.Result == "timeout") && !o.Cover {
			if matchKnown(known, id, o.Name) != nil {
				continue // a recorded finding: no proof is expected, no point in a longer run
			}
			if writeLedger || led.Functions == nil || led.Functions[o.Func] == hashNow[o.Func] {
				retry = append(retry, o)
			} else if o.Result == "timeout" && led.Obls[o.Name] == "unsat" {
				// a changed function: "unknown" (the usual answer for a broken quantified goal) goes straight to the
				// counterexample search, but a TIMEOUT of a goal that was proved before gets the longer budget too - the
				// slow nonlinear goals (20-30 s on the unchanged tree) must survive a harmless edit of their function
				retry = append(retry, o)
			}
		}
	}
	if len(retry) > 0 && tier == "quick" {
		SolveAll(work, retry, 30, runtime.NumCPU())
		// a loaded machine (several checks at once) can push a 20 s nonlinear goal past 30 s: one last, long, narrow attempt
		var again []*Obligation
		for _, o := range retry {
			if o.Result == "unknown" || o.Result == "timeout" {
				again = append(again, o)
			}
		}
		if len(again) > 0 && len(again) <= 4 {
			SolveAll(work, again, 120, 4)
		}
	}
	if writeLedger {
		nl := Ledger{Property: id, Functions: map[string]string{}, Obls: map[string]string{}, DeadExits: map[string]bool{}, Locals: map[string][]string{}}
		for _, r := range reps {
			nl.Functions[r.Key] = r.Hash
			if len(r.Locals) > 0 {
				nl.Locals[r.Key] = r.Locals
			}
			if r.OutOfSub != "" {
				nl.Functions[r.Key] = "out-of-subset: " + r.OutOfSub
			}
		}
		for _, o := range all {
			nl.Obls[o.Name] = o.Result
			if o.Canary && o.Result == "unsat" {
				nl.DeadExits[o.Name] = true
			}
		}
		os.MkdirAll(filepath.Dir(ledPath), 0o755)
		b, _ := json.MarshalIndent(nl, "", " ")
		os.WriteFile(ledPath, b, 0o644)
		led = nl
	}

	// decide
	violations := 0
	undecided := 0
	var knownHit []string
	discharged := 0
	nObl := 0
	var recs []oblRecord
	var samples []interface{}
	var lines []string
	solverMs := int64(0)
	hashOf := map[string]string{}
	for _, r := range reps {
		hashOf[r.Key] = r.Hash
	}
	for _, r := range reps {
		if r.Missing {
			lines = append(lines, fmt.Sprintf("UNDECIDED property=%s function=%s target-missing", id, r.Key))
			undecided++
		}
		if r.OutOfSub != "" {
			lines = append(lines, fmt.Sprintf("UNDECIDED property=%s function=%s out-of-subset: %s", id, r.Key, r.OutOfSub))
			undecided++
		}
	}
	for _, o := range all {
		solverMs += o.Ms
		recs = append(recs, oblRecord{o.Name, o.Kind, o.Result, o.Solver, o.Ms, o.Clause, o.Pos})
		if o.Cover {
			// covers and canaries: must not be unsat (unless ledgered as dead exit)
			if o.Result == "unsat" {
				if o.Canary && (led.DeadExits[o.Name] || led.Obls == nil) {
					continue
				}
				if o.Canary {
					lines = append(lines, fmt.Sprintf("NOTE property=%s %s: exit became unreachable", id, o.Name))
					continue
				}
				lines = append(lines, fmt.Sprintf("UNDECIDED property=%s %s vacuous-precondition", id, o.Name))
				undecided++
			}
			continue
		}
		nObl++
		switch o.Result {
		case "unsat":
			discharged++
			if len(samples) < 4 && o.Kind != "cover" && o.Solver != "trivial" {
				samples = append(samples, map[string]interface{}{"obligation": o.Name, "clause": o.Clause, "smt_bytes": len(o.Script), "backend": o.Solver, "ms": o.Ms})
			}
		default:
			// known finding?
			if kf := matchKnown(known, id, o.Name); kf != nil {
				lines = append(lines, fmt.Sprintf("KNOWN-FINDING: property=%s %s", id, strings.TrimSpace(strings.Replace(kf.Text, "property="+id, "", 1))))
				nObl-- // a recorded finding is not part of the proof claim
				knownHit = append(knownHit, o.Name)
				continue
			}
			ledRes, inLedger := led.Obls[o.Name]
			funcChanged := led.Functions != nil && led.Functions[o.Func] != hashOf[o.Func]
			replayPath := filepath.Join(verif, "work", "replay", id, sanitizeFile(o.Name)+".json")
			if child {
				replayPath = filepath.Join(verif, "work", "child", "replay-"+id, sanitizeFile(o.Name)+".json")
			}
			if o.Result == "error" {
				lines = append(lines, fmt.Sprintf("UNDECIDED property=%s %s solver-error %s", id, o.Name, firstLines(o.Model, 2)))
				undecided++
				continue
			}
			verdict, detail := e.Replay(o, replayPath)
			if verdict != "confirmed" && len(detail) > 220 {
				detail = detail[:220] + "…"
			}
			if o.Kind == "ground" {
				detail = o.Model
				if len(detail) > 600 {
					detail = detail[:600] + "..."
				}
			}
			wasProved := inLedger && ledRes == "unsat"
			if !inLedger && funcChanged {
				// exits are numbered in source order, so an added or removed return statement renames "post#k@exitN":
				// the clause counts as proved on the ledgered tree when it was discharged at every exit there
				if k := strings.LastIndex(o.Name, "@exit"); k >= 0 {
					prefix, n, all := o.Name[:k+len("@exit")], 0, true
					for name, res := range led.Obls {
						if strings.HasPrefix(name, prefix) {
							n++
							if res != "unsat" {
								all = false
							}
						}
					}
					wasProved = n > 0 && all
				}
			}
			switch {
			case verdict == "confirmed":
				lines = append(lines, fmt.Sprintf("VIOLATION property=%s replay=%s obligation=%s %s", id, replayPath, o.Name, detail))
				violations++
			case o.Result == "sat" && wasProved:
				writeReplayFile(replayPath, o, "solver refuted an obligation that discharges on the ledgered tree; replay: "+verdict+" ("+detail+")")
				lines = append(lines, fmt.Sprintf("VIOLATION property=%s replay=%s obligation=%s no-failing-input-found", id, replayPath, o.Name))
				violations++
			case o.Result != "sat" && wasProved && funcChanged:
				writeReplayFile(replayPath, o, "solver returned "+o.Result+" on an obligation that discharges on the ledgered tree; replay: "+verdict+" ("+detail+")")
				lines = append(lines, fmt.Sprintf("VIOLATION property=%s replay=%s obligation=%s no-failing-input-found", id, replayPath, o.Name))
				violations++
			default:
				lines = append(lines, fmt.Sprintf("UNDECIDED property=%s %s solver-%s replay-%s (%s)", id, o.Name, o.Result, verdict, detail))
				undecided++
			}
		}
	}
	// ledgered obligations that disappeared (function changed shape): report as undecided, not violation
	if led.Obls != nil {
		have := map[string]bool{}
		for _, o := range all {
			have[o.Name] = true
		}
		missing := 0
		for n := range led.Obls {
			if !have[n] {
				missing++
			}
		}
		if missing > 0 {
			lines = append(lines, fmt.Sprintf("NOTE property=%s %d ledgered obligations no longer generated (code shape changed)", id, missing))
		}
	}
	// thorough tier: cross-solver agreement on every discharged obligation, and the must-fail corpus
	var thoroughCov map[string]interface{}
	if tier == "thorough" && !child {
		thoroughCov = map[string]interface{}{}
		checked, disputes := crossSolver(work, all, 20)
		thoroughCov["cross_solver_checked"] = checked
		thoroughCov["cross_solver_disputes"] = disputes
		for _, d := range disputes {
			lines = append(lines, fmt.Sprintf("UNDECIDED property=%s solver-dispute %s", id, d))
			undecided++
		}
		if violations == 0 {
			var keys []string
			for _, r := range reps {
				keys = append(keys, r.Key)
			}
			nv, per, mism := e.conformance(keys, int64(seed)+7, 300)
			thoroughCov["traces_validated_against_impl"] = nv
			thoroughCov["conformance_per_function"] = per
			for _, m := range mism {
				lines = append(lines, fmt.Sprintf("UNDECIDED property=%s conformance-mismatch (contract passes the verifier but a real execution disagrees) %s", id, m))
				undecided++
			}
		}
		if violations == 0 {
			tried, caught, results, regress := mustFailCorpus(verif, id)
			thoroughCov["must_fail"] = map[string]interface{}{"tried": tried, "caught": caught, "results": results,
				"how": "each confirmed seeded change under /verif/seeded is applied through a packages/go-test overlay (no write to /repo) and this property's quick check is re-run on it"}
			for _, r := range regress {
				lines = append(lines, fmt.Sprintf("UNDECIDED property=%s must-fail-regression seeded change %s was caught by this check before and is not now", id, r))
				undecided++
			}
		}
	}
	sort.Strings(lines)
	for _, l := range lines {
		fmt.Println(l)
	}
	level := "proof"
	expl := ""
	if undecided > 0 || discharged < nObl {
		level = "other"
		expl = fmt.Sprintf("%d of %d obligations discharged; %d undecided items (see undecided list) — not a proof-level run", discharged, nObl, undecided)
	}
	if nObl == 0 {
		level = "other"
		expl = "no obligations generated"
	}
	var assumptions []string
	aset := map[string]bool{}
	for _, r := range reps {
		for _, a := range r.Assumed {
			aset["assumed contract: "+a] = true
		}
		for _, d := range r.Dropped {
			aset["dropped (no consensus-state effect assumed): "+d] = true
		}
		for _, a := range r.Axioms {
			aset["axiom: "+a] = true
		}
		for _, t := range r.Termination {
			aset[t] = true
		}
	}
	for a := range aset {
		assumptions = append(assumptions, a)
	}
	sort.Strings(assumptions)
	assumptions = append(assumptions, pc.Trusted...)
	assumptions = append(assumptions,
		"govc (the VC generator written for this task) encodes the stated Go subset faithfully",
		"Go integers are modelled as mathematical Int with explicit wrap-around at every machine operation; sdkmath.Int/big.Int/LegacyDec are unbounded (256-bit panic bound ignored)",
		"solver answers unsat are trusted (z3 4.8.12 / z3 5.1.0 / cvc5 1.0)")
	for _, nd := range pc.NotDecided {
		assumptions = append(assumptions, "not decided: "+nd)
	}
	cov := map[string]interface{}{
		"obligations":              nObl,
		"discharged":               discharged,
		"checker_cmd":              fmt.Sprintf("./bin/check %s %s  (govc: VC generation over go/ast+go/types of /repo, discharged by race of z3-new, z3, cvc5; timeout %ds)", id, tier, timeout),
		"trusted_base":             append([]string{"govc VC generator", "z3 4.8.12", "z3 5.1.0", "cvc5 1.0"}, pc.Trusted...),
		"functions_under_contract": reps,
		"per_obligation":           recs,
		"solver_time_s":            float64(solverMs) / 1000.0,
		"undecided":                undecided,
		"samples":                  samples,
		"output_lines":             lines,
	}
	for k, v := range thoroughCov {
		cov[k] = v
	}
	if expl != "" {
		cov["explanation"] = expl
	}
	if len(knownHit) > 0 {
		cov["known_findings_reported"] = knownHit
	}
	if len(samples) == 0 {
		cov["samples"] = []interface{}{"none"}
	}
	writeEvidence(evPath, map[string]interface{}{
		"property_id": id, "tier": tier, "seed": seed, "level": level,
		"coverage": cov, "assumptions": assumptions, "wall_s": time.Since(start).Seconds(), "violations": violations,
	})
	fmt.Printf("SUMMARY property=%s tier=%s functions=%d obligations=%d discharged=%d undecided=%d violations=%d wall=%.1fs\n", id, tier, len(reps), nObl, discharged, undecided, violations, time.Since(start).Seconds())
	if violations > 0 {
		return 1
	}
	return 0
}

func matchKnown(known []KnownFinding, prop, obl string) *KnownFinding {
	for i := range known {
		k := &known[i]
		if k.Kind == "finding" && k.Property == prop && k.Obligation == obl {
			return k
		}
	}
	return nil
}

func sanitizeFile(s string) string {
	r := strings.NewReplacer("/", "_", "#", "-", "@", "-", ":", "-", " ", "_", "$", "-")
	return r.Replace(s)
}

func writeEvidence(path string, ev map[string]interface{}) {
	os.MkdirAll(filepath.Dir(path), 0o755)
	b, _ := json.MarshalIndent(ev, "", " ")
	os.WriteFile(path, b, 0o644)
}

func writeReplayFile(path string, o *Obligation, note string) {
	os.MkdirAll(filepath.Dir(path), 0o755)
	b, _ := json.MarshalIndent(map[string]interface{}{
		"obligation": o.Name, "kind": o.Kind, "clause": o.Clause, "function": o.Func, "pos": o.Pos,
		"solver": o.Solver, "result": o.Result, "solver_output": o.Model, "note": note, "smt": o.Script,
	}, "", " ")
	os.WriteFile(path, b, 0o644)
}

// runStability: development aid (not a registered check). Every obligation of the property that discharges is re-run
// under three other z3 seeds; obligations that some seed loses (and cvc5 does not prove) are printed as FRAGILE.
func runStability(repo, verif, id string) int {
	pc, err := loadProp(verif, id)
	if err != nil {
		fmt.Fprintln(os.Stderr, err)
		return 2
	}
	e := NewEngine(repo, verif)
	if err := e.Load(pc.Packages); err != nil {
		fmt.Fprintln(os.Stderr, "load:", err)
		return 2
	}
	var all []*Obligation
	for _, f := range pc.Functions {
		_, obls := e.VerifyFunc(id, modPath+"/"+f)
		all = append(all, obls...)
	}
	work := filepath.Join(verif, "work", "stability", id)
	os.RemoveAll(work)
	os.MkdirAll(work, 0o755)
	defer os.RemoveAll(work)
	SolveAll(work, all, 10, runtime.NumCPU())
	var todo []*Obligation
	for _, o := range all {
		if !o.Cover && o.Kind != "ground" && o.Result == "unsat" && o.Solver != "trivial" {
			todo = append(todo, o)
		}
	}
	type res struct {
		o    *Obligation
		ok   int
		cvc5 bool
	}
	out := make([]res, len(todo))
	sem := make(chan struct{}, runtime.NumCPU()/2)
	var wg sync.WaitGroup
	for i, o := range todo {
		wg.Add(1)
		sem <- struct{}{}
		go func(i int, o *Obligation) {
			defer wg.Done()
			defer func() { <-sem }()
			ok, c := seedStability(work, o, []int{7, 42, 1234}, 10)
			out[i] = res{o, ok, c}
		}(i, o)
	}
	wg.Wait()
	fragile := 0
	for _, r := range out {
		if r.ok < 3 {
			fragile++
			fmt.Printf("FRAGILE %s seeds-ok=%d/3 cvc5=%v first-run=%dms by %s\n", r.o.Name, r.ok, r.cvc5, r.o.Ms, r.o.Solver)
		}
	}
	fmt.Printf("STABILITY property=%s obligations=%d fragile=%d\n", id, len(todo), fragile)
	return 0
}
