package main

import (
	"bytes"
	"fmt"
	"go/ast"
	"go/constant"
	"go/types"
	"sort"
	"strings"

	"golang.org/x/crypto/sha3"
)

func keccak256(b []byte) []byte {
	h := sha3.NewLegacyKeccak256()
	h.Write(b)
	return h.Sum(nil)
}

// groundTags (C11): every 4-byte content/originator tag constant equals keccak256(<documented name>)[:4], and
// tags that must be told apart are pairwise distinct (originator kinds; content kinds per handler).
func groundTags(e *Engine, prop string) []*Obligation {
	want := []struct{ pkg, name, pre string }{
		{"x/tss/types", "DirectOriginatorPrefix", "DirectOriginator"},
		{"x/tss/types", "TunnelOriginatorPrefix", "TunnelOriginator"},
		{"x/tss", "TextMsgPrefix", "Text"},
		{"x/bandtss", "GroupTransitionMsgPrefix", "Transition"},
		{"x/oracle", "EncoderProtoPrefix", "Proto"},
		{"x/oracle", "EncoderFullABIPrefix", "FullABI"},
		{"x/oracle", "EncoderPartialABIPrefix", "PartialABI"},
		{"x/feeds/types", "EncoderFixedPointABIPrefix", "FixedPointABI"},
		{"x/feeds/types", "EncoderTickABIPrefix", "TickABI"},
	}
	var bad []string
	vals := map[string][]byte{}
	for _, w := range want {
		p := e.pkgs[modPath+"/"+w.pkg]
		if p == nil {
			bad = append(bad, "package "+w.pkg+" not loaded")
			continue
		}
		c, ok := p.Types.Scope().Lookup(w.name).(*types.Const)
		if !ok || c.Val().Kind() != constant.String {
			bad = append(bad, w.pkg+"."+w.name+" is not a string constant")
			continue
		}
		v := []byte(constant.StringVal(c.Val()))
		vals[w.name] = v
		exp := keccak256([]byte(w.pre))[:4]
		if !bytes.Equal(v, exp) {
			bad = append(bad, fmt.Sprintf("%s.%s = %x but keccak256(%q)[:4] = %x", w.pkg, w.name, v, w.pre, exp))
		}
	}
	groups := [][]string{{"DirectOriginatorPrefix", "TunnelOriginatorPrefix"}, {"TextMsgPrefix", "GroupTransitionMsgPrefix", "EncoderProtoPrefix", "EncoderFullABIPrefix", "EncoderPartialABIPrefix", "EncoderFixedPointABIPrefix", "EncoderTickABIPrefix"}}
	for _, g := range groups {
		sort.Strings(g)
		for i := range g {
			for j := i + 1; j < len(g); j++ {
				if vals[g[i]] != nil && bytes.Equal(vals[g[i]], vals[g[j]]) {
					bad = append(bad, g[i]+" and "+g[j]+" collide")
				}
			}
		}
	}
	return []*Obligation{groundObl(prop, "tags", fmt.Sprintf("%d tag constants equal keccak256(name)[:4] and are pairwise distinct within their group", len(want)), len(bad) == 0, strings.Join(bad, "; "))}
}

func init() { groundChecks["tags"] = groundTags }

// groundInternalKinds (C11): a content kind is module-internal iff it is one of the two kinds only modules may
// request (tunnel packets, group transitions); each IsInternal method must be a constant with that value.
func groundInternalKinds(e *Engine, prop string) []*Obligation {
	want := map[string]bool{
		"x/tss/types.TextSignatureOrder.IsInternal":                false,
		"x/feeds/types.FeedsSignatureOrder.IsInternal":             false,
		"x/oracle/types.OracleResultSignatureOrder.IsInternal":     false,
		"x/tunnel/types.TunnelSignatureOrder.IsInternal":           true,
		"x/bandtss/types.GroupTransitionSignatureOrder.IsInternal": true,
	}
	var bad []string
	found := 0
	var keys []string
	for k := range e.funcs {
		keys = append(keys, k)
	}
	sort.Strings(keys)
	for _, k := range keys {
		fi := e.funcs[k]
		if fi.Lit != nil || fi.Decl.Name.Name != "IsInternal" || fi.Decl.Recv == nil {
			continue
		}
		sk := shortPkg(k)
		exp, known := want[sk]
		if !known {
			bad = append(bad, sk+": a content kind that the property does not know about")
			continue
		}
		found++
		body := fi.Body()
		okShape := false
		if body != nil && len(body.List) == 1 {
			if rs, ok := body.List[0].(*ast.ReturnStmt); ok && len(rs.Results) == 1 {
				if id, ok := rs.Results[0].(*ast.Ident); ok && (id.Name == "true" || id.Name == "false") {
					okShape = true
					if (id.Name == "true") != exp {
						bad = append(bad, fmt.Sprintf("%s returns %s, expected %v", sk, id.Name, exp))
					}
				}
			}
		}
		if !okShape {
			bad = append(bad, sk+" is not a constant")
		}
	}
	if found != len(want) {
		bad = append(bad, fmt.Sprintf("found %d of %d known content kinds (packages not loaded?)", found, len(want)))
	}
	return []*Obligation{groundObl(prop, "internal-kinds", "IsInternal is true exactly for TunnelSignatureOrder and GroupTransitionSignatureOrder", len(bad) == 0, strings.Join(bad, "; "))}
}

func init() { groundChecks["internal-kinds"] = groundInternalKinds }

// groundOracleABI (C11): the ABI tuples used to encode an oracle result for signing list the result's fields
// in the documented positional order (consumers decode by position), every component names an existing field
// of types.Result (go-ethereum packs by field name) and its ABI type matches the field's Go type.
func groundOracleABI(e *Engine, prop string) []*Obligation {
	p := e.pkgs[modPath+"/x/oracle/types"]
	if p == nil {
		return []*Obligation{groundObl(prop, "oracle-abi-layout", "x/oracle/types loaded", false, "package not loaded")}
	}
	want := map[string][][2]string{
		"fullResult":    {{"ClientID", "string"}, {"OracleScriptID", "uint64"}, {"Calldata", "bytes"}, {"AskCount", "uint64"}, {"MinCount", "uint64"}, {"RequestID", "uint64"}, {"AnsCount", "uint64"}, {"RequestTime", "int64"}, {"ResolveTime", "int64"}, {"ResolveStatus", "int32"}, {"Result", "bytes"}},
		"partialResult": {{"Calldata", "bytes"}, {"OracleScriptID", "uint64"}, {"RequestID", "uint64"}, {"MinCount", "uint64"}, {"ResolveTime", "int64"}, {"ResolveStatus", "int32"}, {"Result", "bytes"}},
	}
	got := map[string][][2]string{}
	for _, f := range p.Syntax {
		ast.Inspect(f, func(n ast.Node) bool {
			vs, ok := n.(*ast.ValueSpec)
			if !ok || len(vs.Names) == 0 || len(vs.Values) == 0 {
				return true
			}
			name := vs.Names[0].Name
			if _, w := want[name]; !w {
				return true
			}
			ast.Inspect(vs.Values[0], func(m ast.Node) bool {
				cl, ok := m.(*ast.CompositeLit)
				if !ok || len(cl.Elts) != 2 {
					return true
				}
				var nm, ty string
				for _, el := range cl.Elts {
					kv, ok := el.(*ast.KeyValueExpr)
					if !ok {
						return true
					}
					k, _ := kv.Key.(*ast.Ident)
					tv := p.TypesInfo.Types[kv.Value]
					if k == nil || tv.Value == nil || tv.Value.Kind() != constant.String {
						return true
					}
					switch k.Name {
					case "Name":
						nm = constant.StringVal(tv.Value)
					case "Type":
						ty = constant.StringVal(tv.Value)
					}
				}
				if nm != "" && ty != "" {
					got[name] = append(got[name], [2]string{nm, ty})
				}
				return true
			})
			return false
		})
	}
	var bad []string
	res, _ := p.Types.Scope().Lookup("Result").(*types.TypeName)
	goKind := map[string]string{"string": "string", "uint64": "uint64", "int64": "int64", "int32": "int32", "bytes": "[]byte"}
	for tuple, w := range want {
		g := got[tuple]
		if len(g) != len(w) {
			bad = append(bad, fmt.Sprintf("%s has %d components, expected %d", tuple, len(g), len(w)))
			continue
		}
		for i := range w {
			if g[i] != w[i] {
				bad = append(bad, fmt.Sprintf("%s[%d] = (%s %s), expected (%s %s)", tuple, i, g[i][0], g[i][1], w[i][0], w[i][1]))
			}
			if res != nil {
				st := res.Type().Underlying().(*types.Struct)
				found := false
				for k := 0; k < st.NumFields(); k++ {
					if st.Field(k).Name() == g[i][0] {
						found = true
						if u := types.TypeString(st.Field(k).Type().Underlying(), nil); u != goKind[g[i][1]] {
							bad = append(bad, fmt.Sprintf("%s.%s: ABI type %s but Go field type %s", tuple, g[i][0], g[i][1], u))
						}
					}
				}
				if !found {
					bad = append(bad, fmt.Sprintf("%s names %s, which is not a field of types.Result", tuple, g[i][0]))
				}
			}
		}
	}
	sort.Strings(bad)
	return []*Obligation{groundObl(prop, "oracle-abi-layout", "full and partial ABI tuples of the oracle result list the documented fields in order, each naming a Result field of the matching type", len(bad) == 0, strings.Join(bad, "; "))}
}

func init() { groundChecks["oracle-abi-layout"] = groundOracleABI }
