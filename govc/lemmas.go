package main

import (
	"fmt"
	"go/types"
	"strings"
)

// VerifyLemmas proves the lemmas whose names start with one of the given prefixes.
func (e *Engine) VerifyLemmas(prop string, prefixes []string) (*FuncReport, []*Obligation) {
	if len(prefixes) == 0 {
		return nil, nil
	}
	rep := &FuncReport{Key: "lemmas(" + strings.Join(prefixes, ",") + ")"}
	var all []*Obligation
	for _, l := range e.cs.Lemmas {
		match := false
		for _, p := range prefixes {
			if strings.HasPrefix(l.Name, p) {
				match = true
			}
		}
		if !match {
			continue
		}
		obls, err := e.verifyLemma(prop, l)
		if err != "" {
			rep.OutOfSub = "lemma " + l.Name + ": " + err
			continue
		}
		all = append(all, obls...)
	}
	rep.NObl = len(all)
	return rep, all
}

func (e *Engine) verifyLemma(prop string, l *Lemma) (obls []*Obligation, errs string) {
	pkg := e.pkgs[l.Pkg]
	if pkg == nil {
		for _, p := range e.pkgs {
			pkg = p
			break
		}
	}
	fi := &FuncInfo{Pkg: pkg, Key: "lemma." + l.Name}
	fc := &FCtx{E: e, U: NewUniverse(), FI: fi, C: &FuncContract{Loops: map[int]*LoopSpec{}, Flags: map[string]string{}}, Prop: prop, counters: map[string]int{}, assumed: map[string]bool{}, inlined: map[string]bool{}, specDecl: map[string]bool{}, ctxSuffixOf: map[string]string{}, cacheParent: map[string]string{}}
	fc.frames = []*frame{{fi: fi}}
	defer func() {
		if r := recover(); r != nil {
			if o, ok := r.(OutOfSubset); ok {
				errs = o.What
				obls = nil
				return
			}
			panic(r)
		}
	}()
	st := &State{vars: map[types.Object]Val{}, ghost: map[string]Val{}}
	fc.initGhost(st)
	fc.entry = st
	env := &Env{fc: fc, st: st, old: st, pkg: pkg, names: map[string]Val{}, bound: map[string]Val{}}
	n := l.Expr
	if l.Induct != "" {
		return e.verifyInductive(prop, l, fc, st, env, fi)
	}
	// skolemise leading universal quantifiers
	for n.Op == "forall" {
		for _, b := range n.Binders {
			s, t := fc.resolveSpecType(b.Type, pkg)
			v := Val{T: fc.U.Const("sk_"+sanitize(b.Name), s), S: s, GoT: t}
			env.bound[b.Name] = v
			if t != nil {
				st.assume(fc.U.WFShallow(v))
			}
			fc.observe(b.Name, v, 0)
		}
		n = n.Args[0]
	}
	goal := fc.specBool(n, env)
	o := &Obligation{Name: fmt.Sprintf("%s/lemma/%s", prop, l.Name), Kind: "lemma", Assumes: append([]string(nil), st.pc...), Goal: goal, Clause: "lemma " + l.Name + ": " + l.Src, Func: fi.Key, ObsVars: fc.paramObs}
	o.Script = fc.script(o)
	return []*Obligation{o}, ""
}

// verifyInductive proves  forall xs, k :: P(xs, k)  for all k >= 0 by induction on the Int binder k:
//   base:  P(xs, 0)                              for arbitrary xs
//   step:  (forall xs :: P(xs, k)) ==> P(xs', k+1) for arbitrary k >= 0 and xs'
// (the other binders stay universally quantified in the induction hypothesis).
func (e *Engine) verifyInductive(prop string, l *Lemma, fc *FCtx, st *State, env *Env, fi *FuncInfo) (obls []*Obligation, errs string) {
	n := l.Expr
	if n.Op != "forall" {
		return nil, "inductive lemma must be a universally quantified formula"
	}
	var others []Binder
	found := false
	for _, b := range n.Binders {
		if b.Name == l.Induct {
			found = true
			if b.Type != "" && b.Type != "Int" && b.Type != "int" {
				return nil, "induction variable must be an Int"
			}
			continue
		}
		others = append(others, b)
	}
	if !found {
		return nil, "induction variable " + l.Induct + " is not bound by the leading quantifier"
	}
	body := n.Args[0]
	skolem := func(tag string) {
		for _, b := range others {
			s, t := fc.resolveSpecType(b.Type, env.pkg)
			v := Val{T: fc.U.Const("sk"+tag+"_"+sanitize(b.Name), s), S: s, GoT: t}
			env.bound[b.Name] = v
			if t != nil {
				st.assume(fc.U.WFShallow(v))
			}
		}
	}
	// base case
	skolem("b")
	env.bound[l.Induct] = Val{T: "0", S: SInt}
	goal := fc.specBool(body, env)
	base := &Obligation{Name: fmt.Sprintf("%s/lemma/%s/base", prop, l.Name), Kind: "lemma", Assumes: append([]string(nil), st.pc...), Goal: goal, Clause: "lemma " + l.Name + " (base case " + l.Induct + " = 0): " + l.Src, Func: fi.Key}
	base.Script = fc.script(base)
	// step
	st2 := &State{vars: st.vars, ghost: st.ghost}
	env2 := &Env{fc: fc, st: st2, old: st2, pkg: env.pkg, names: map[string]Val{}, bound: map[string]Val{}}
	k := fc.U.Const("sk_"+sanitize(l.Induct), SInt)
	st2.assume(fmt.Sprintf("(>= %s 0)", k))
	// induction hypothesis: forall others :: P(others, k)
	env2.bound[l.Induct] = Val{T: k, S: SInt}
	var ih string
	if len(others) > 0 {
		ih = fc.specBool(&SNode{Op: "forall", Binders: others, Args: []*SNode{body}}, env2)
	} else {
		ih = fc.specBool(body, env2)
	}
	st2.assume(ih)
	for _, b := range others {
		s, t := fc.resolveSpecType(b.Type, env.pkg)
		v := Val{T: fc.U.Const("sks_"+sanitize(b.Name), s), S: s, GoT: t}
		env2.bound[b.Name] = v
		if t != nil {
			st2.assume(fc.U.WFShallow(v))
		}
	}
	env2.bound[l.Induct] = Val{T: fmt.Sprintf("(+ %s 1)", k), S: SInt}
	goal2 := fc.specBool(body, env2)
	step := &Obligation{Name: fmt.Sprintf("%s/lemma/%s/step", prop, l.Name), Kind: "lemma", Assumes: append([]string(nil), st2.pc...), Goal: goal2, Clause: "lemma " + l.Name + " (induction step " + l.Induct + " -> " + l.Induct + "+1): " + l.Src, Func: fi.Key}
	step.Script = fc.script(step)
	return []*Obligation{base, step}, ""
}
