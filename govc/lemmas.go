package main

import (
	"fmt"
	"go/types"
	"strings"
)

// VerifyLemmas proves the lemmas whose names start with one of the given prefixes.
func (e *Engine) VerifyLemmas(prop string, prefixes []string) (*FuncReport, []*Obligation) {
	if len(prefixes) == 0 {
		return nil, nil
	}
	rep := &FuncReport{Key: "lemmas(" + strings.Join(prefixes, ",") + ")"}
	var all []*Obligation
	for _, l := range e.cs.Lemmas {
		match := false
		for _, p := range prefixes {
			if strings.HasPrefix(l.Name, p) {
				match = true
			}
		}
		if !match {
			continue
		}
		obls, err := e.verifyLemma(prop, l)
		if err != "" {
			rep.OutOfSub = "lemma " + l.Name + ": " + err
			continue
		}
		all = append(all, obls...)
	}
	rep.NObl = len(all)
	return rep, all
}

func (e *Engine) verifyLemma(prop string, l *Lemma) (obls []*Obligation, errs string) {
	pkg := e.pkgs[l.Pkg]
	if pkg == nil {
		for _, p := range e.pkgs {
			pkg = p
			break
		}
	}
	fi := &FuncInfo{Pkg: pkg, Key: "lemma." + l.Name}
	fc := &FCtx{E: e, U: NewUniverse(), FI: fi, C: &FuncContract{Loops: map[int]*LoopSpec{}, Flags: map[string]string{}}, Prop: prop, counters: map[string]int{}, assumed: map[string]bool{}, inlined: map[string]bool{}, specDecl: map[string]bool{}, ctxSuffixOf: map[string]string{}, cacheParent: map[string]string{}}
	fc.frames = []*frame{{fi: fi}}
	defer func() {
		if r := recover(); r != nil {
			if o, ok := r.(OutOfSubset); ok {
				errs = o.What
				obls = nil
				return
			}
			panic(r)
		}
	}()
	st := &State{vars: map[types.Object]Val{}, ghost: map[string]Val{}}
	fc.initGhost(st)
	fc.entry = st
	env := &Env{fc: fc, st: st, old: st, pkg: pkg, names: map[string]Val{}, bound: map[string]Val{}}
	n := l.Expr
	// skolemise leading universal quantifiers
	for n.Op == "forall" {
		for _, b := range n.Binders {
			s, t := fc.resolveSpecType(b.Type, pkg)
			v := Val{T: fc.U.Const("sk_"+sanitize(b.Name), s), S: s, GoT: t}
			env.bound[b.Name] = v
			if t != nil {
				st.assume(fc.U.WF(v))
			}
			fc.observe(b.Name, v, 0)
		}
		n = n.Args[0]
	}
	goal := fc.specBool(n, env)
	o := &Obligation{Name: fmt.Sprintf("%s/lemma/%s", prop, l.Name), Kind: "lemma", Assumes: append([]string(nil), st.pc...), Goal: goal, Clause: "lemma " + l.Name + ": " + l.Src, Func: fi.Key, ObsVars: fc.paramObs}
	o.Script = fc.script(o)
	return []*Obligation{o}, ""
}
