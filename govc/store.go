package main

import (
	"fmt"
	"go/ast"
	"go/types"
	"sort"
	"strings"
)

// ---------------------------------------------------------------------------------------------
// KV-store model (DESIGN §4.3, as built): one ghost store per module, `Store_<module>`, of sort
// (Array Bz Bz) where Bz is an abstract byte-string sort and the distinguished value bz_nil means
// "absent". Key functions are injective uninterpreted functions with pairwise disjoint ranges;
// codec Marshal/Unmarshal are mutually inverse uninterpreted functions per Go type.
// ---------------------------------------------------------------------------------------------

const KStore SortKind = 100

func (u *Universe) BzSort() *Sort {
	s := u.opaque("Bz")
	if u.declared["c:bz_nil"] {
		return s
	}
	u.decl("c:bz_nil", "(declare-const bz_nil Bz)")
	u.decl("f:bz_len", "(declare-fun bz_len (Bz) Int)")
	u.decl("f:bz_cap", "(declare-fun bz_cap (Bz) Int)")
	u.decl("f:bz_at", "(declare-fun bz_at (Bz Int) Int)")
	u.decl("f:bz_slice", "(declare-fun bz_slice (Bz Int Int) Bz)")
	u.decl("f:bz_cat", "(declare-fun bz_cat (Bz Bz) Bz)")
	u.decl("f:bz_snoc", "(declare-fun bz_snoc (Bz Int) Bz)")
	u.decl("f:bz_upd", "(declare-fun bz_upd (Bz Int Int) Bz)")
	u.decl("ax:bz1", "(assert (and (= (bz_len bz_nil) 0) (= (bz_cap bz_nil) 0)))")
	u.decl("ax:bz2", "(assert (forall ((b Bz)) (! (and (<= 0 (bz_len b)) (<= (bz_len b) (bz_cap b)) (<= (bz_cap b) 9223372036854775807)) :pattern ((bz_len b)) :pattern ((bz_cap b)))))")
	u.decl("ax:bz3", "(assert (forall ((b Bz) (i Int)) (! (in_uint8 (bz_at b i)) :pattern ((bz_at b i)))))")
	u.decl("ax:bz4", "(assert (forall ((b Bz) (lo Int) (hi Int)) (! (=> (and (<= 0 lo) (<= lo hi) (<= hi (bz_cap b))) (and (= (bz_len (bz_slice b lo hi)) (- hi lo)) (= (bz_cap (bz_slice b lo hi)) (- (bz_cap b) lo)))) :pattern ((bz_slice b lo hi)))))")
	u.decl("ax:bz5", "(assert (forall ((b Bz) (lo Int) (hi Int) (j Int)) (! (=> (and (<= 0 lo) (<= 0 j) (< j (- hi lo))) (= (bz_at (bz_slice b lo hi) j) (bz_at b (+ lo j)))) :pattern ((bz_at (bz_slice b lo hi) j)))))")
	u.decl("ax:bz6", "(assert (forall ((a Bz) (b Bz)) (! (=> (<= (+ (bz_len a) (bz_len b)) 9223372036854775807) (and (= (bz_len (bz_cat a b)) (+ (bz_len a) (bz_len b))) (=> (> (bz_len b) 0) (not (= (bz_cat a b) bz_nil))))) :pattern ((bz_cat a b)))))")
	u.decl("ax:bz7", "(assert (forall ((a Bz) (b Bz) (j Int)) (! (= (bz_at (bz_cat a b) j) (ite (< j (bz_len a)) (bz_at a j) (bz_at b (- j (bz_len a))))) :pattern ((bz_at (bz_cat a b) j)))))")
	u.decl("ax:bz8", "(assert (forall ((a Bz) (x Int)) (! (=> (and (in_uint8 x) (< (bz_len a) 9223372036854775807)) (and (= (bz_len (bz_snoc a x)) (+ (bz_len a) 1)) (not (= (bz_snoc a x) bz_nil)) (= (bz_at (bz_snoc a x) (bz_len a)) x))) :pattern ((bz_snoc a x)))))")
	u.decl("ax:bz9", "(assert (forall ((a Bz) (x Int) (j Int)) (! (=> (< j (bz_len a)) (= (bz_at (bz_snoc a x) j) (bz_at a j))) :pattern ((bz_at (bz_snoc a x) j)))))")
	u.decl("ax:bz10", "(assert (forall ((a Bz) (i Int) (x Int)) (! (=> (in_uint8 x) (and (= (bz_len (bz_upd a i x)) (bz_len a)) (= (bz_cap (bz_upd a i x)) (bz_cap a)) (= (bz_at (bz_upd a i x) i) x))) :pattern ((bz_upd a i x)))))")
	u.decl("ax:bz11", "(assert (forall ((a Bz) (i Int) (x Int) (j Int)) (! (=> (not (= i j)) (= (bz_at (bz_upd a i x) j) (bz_at a j))) :pattern ((bz_at (bz_upd a i x) j)))))")
	return s
}

func isBz(s *Sort) bool { return s != nil && s.Kind == KOpaque && s.Name == "Bz" }

func (u *Universe) StoreSort() *Sort {
	u.BzSort()
	if s, ok := u.sorts["Store"]; ok {
		return s
	}
	s := &Sort{Kind: KStore, Name: "(Array Bz Bz)"}
	u.sorts["Store"] = s
	return s
}

func moduleOf(pkgPath string) string {
	p := shortPkg(pkgPath)
	parts := strings.Split(p, "/")
	if len(parts) >= 2 && parts[0] == "x" {
		return parts[1]
	}
	return ""
}

func (fc *FCtx) ensureStoreGhost(st *State, name string) {
	if _, ok := st.ghost[name]; ok {
		return
	}
	s := fc.U.StoreSort()
	v := Val{T: fc.U.Const("g0_"+sanitize(name), s), S: s}
	st.ghost[name] = v
	if fc.entry != nil {
		if _, ok := fc.entry.ghost[name]; !ok {
			fc.entry.ghost[name] = v
		}
	}
}

func (fc *FCtx) encFn(s *Sort) string {
	bz := fc.U.BzSort()
	n := "enc_" + sanitize(s.Name)
	if !fc.U.declared["f:"+n] {
		fc.U.Fun(n, []*Sort{s}, bz)
		fc.U.Fun("dec_"+sanitize(s.Name), []*Sort{bz}, s)
		fc.U.Axiom("codec round trip ("+s.Name+")", fmt.Sprintf("(forall ((x %s)) (! (and (= (dec_%s (%s x)) x) (not (= (%s x) bz_nil))) :pattern ((%s x))))", s.Name, sanitize(s.Name), n, n, n))
	}
	return n
}

func (fc *FCtx) decFn(s *Sort) string {
	fc.encFn(s)
	return "dec_" + sanitize(s.Name)
}

func (fc *FCtx) u64be() {
	bz := fc.U.BzSort()
	if !fc.U.declared["f:u64be"] {
		fc.U.Fun("u64be", []*Sort{SInt}, bz)
		fc.U.Fun("u64of", []*Sort{bz}, SInt)
		fc.U.Axiom("big-endian uint64 round trip", "(forall ((x Int)) (! (=> (in_uint64 x) (and (= (u64of (u64be x)) x) (not (= (u64be x) bz_nil)))) :pattern ((u64be x))))")
		fc.U.Axiom("BigEndianToUint64(nil) = 0", "(= (u64of bz_nil) 0)")
		fc.U.Axiom("big-endian uint64 is 8 bytes", "(forall ((x Int)) (! (= (bz_len (u64be x)) 8) :pattern ((u64be x))))")
		fc.U.Axiom("BigEndianToUint64 range", "(forall ((b Bz)) (! (in_uint64 (u64of b)) :pattern ((u64of b))))")
	}
}

// toBz coerces a value used as a store key/value to the Bz sort.
func (fc *FCtx) toBz(v Val) string {
	bz := fc.U.BzSort()
	if v.S == bz {
		return v.T
	}
	if v.S.Kind == KSlice || v.S.Kind == KStr || v.S.Kind == KOpaque {
		fn := "bz_of_" + sanitize(v.S.Name)
		if !fc.U.declared["f:"+fn] {
			fc.U.Fun(fn, []*Sort{v.S}, bz)
			fc.U.Fun(fn+"_inv", []*Sort{bz}, v.S)
			if v.S.Kind != KSlice {
				fc.U.Axiom("raw bytes encoding injective ("+v.S.Name+")", fmt.Sprintf("(forall ((x %s)) (! (and (= (%s_inv (%s x)) x) (not (= (%s x) bz_nil))) :pattern ((%s x))))", v.S.Name, fn, fn, fn, fn))
			} else {
				fc.U.Axiom("raw bytes non-nil ("+v.S.Name+")", fmt.Sprintf("(forall ((x %s)) (! (not (= (%s x) bz_nil)) :pattern ((%s x))))", v.S.Name, fn, fn))
			}
		}
		return app(fn, v.T)
	}
	oos("cannot use %s as store bytes", v.S.Name)
	return ""
}

func isStoreHandle(v *Val) bool { return v != nil && strings.HasPrefix(v.T, "@store:") }

func storeName(v *Val) string { return strings.TrimPrefix(v.T, "@store:") }

func init() {
	I := intrinsics
	I["(github.com/cosmos/cosmos-sdk/types.Context).KVStore"] = func(fc *FCtx, st *State, e *ast.CallExpr, r *Val, a []Val) []Val {
		name := fc.storeGhostNameFor(st, r)
		fc.ensureStoreGhost(st, name)
		return []Val{{T: "@store:" + name, S: fc.U.opaque("StoreH"), GoT: fc.resT(e)}}
	}
	get := func(fc *FCtx, st *State, e *ast.CallExpr, r *Val, a []Val) []Val {
		if !isStoreHandle(r) {
			oos("store Get on unknown store value")
		}
		s := st.ghost[storeName(r)]
		return []Val{{T: fmt.Sprintf("(select %s %s)", s.T, fc.toBz(a[0])), S: fc.U.BzSort(), GoT: fc.resT(e)}}
	}
	has := func(fc *FCtx, st *State, e *ast.CallExpr, r *Val, a []Val) []Val {
		if !isStoreHandle(r) {
			oos("store Has on unknown store value")
		}
		s := st.ghost[storeName(r)]
		return bv(fmt.Sprintf("(not (= (select %s %s) bz_nil))", s.T, fc.toBz(a[0])))
	}
	set := func(fc *FCtx, st *State, e *ast.CallExpr, r *Val, a []Val) []Val {
		if !isStoreHandle(r) {
			oos("store Set on unknown store value")
		}
		n := storeName(r)
		s := st.ghost[n]
		v := fc.toBz(a[1])
		fc.panicCheck(st, "store-set-nil", fmt.Sprintf("(not (= %s bz_nil))", v), e.Pos())
		st.ghost[n] = Val{T: fmt.Sprintf("(store %s %s %s)", s.T, fc.toBz(a[0]), v), S: s.S}
		return nil
	}
	del := func(fc *FCtx, st *State, e *ast.CallExpr, r *Val, a []Val) []Val {
		if !isStoreHandle(r) {
			oos("store Delete on unknown store value")
		}
		n := storeName(r)
		s := st.ghost[n]
		st.ghost[n] = Val{T: fmt.Sprintf("(store %s %s bz_nil)", s.T, fc.toBz(a[0])), S: s.S}
		return nil
	}
	for _, p := range []string{"(cosmossdk.io/store/types.BasicKVStore).", "(cosmossdk.io/store/types.KVStore).", "(cosmossdk.io/core/store.KVStore)."} {
		I[p+"Get"] = get
		I[p+"Has"] = has
		I[p+"Set"] = set
		I[p+"Delete"] = del
	}
	marshal := func(fc *FCtx, st *State, e *ast.CallExpr, r *Val, a []Val) []Val {
		return []Val{{T: app(fc.encFn(a[0].S), a[0].T), S: fc.U.BzSort(), GoT: fc.resT(e)}}
	}
	unmarshal := func(must bool) intrinsic {
		return func(fc *FCtx, st *State, e *ast.CallExpr, r *Val, a []Val) []Val {
			bz := fc.toBz(a[0])
			tgt := a[1]
			dv := Val{T: app(fc.decFn(tgt.S), bz), S: tgt.S, GoT: tgt.GoT}
			st.assume(fc.U.WF(dv))
			fc.assignOut(e.Args[1], dv, st)
			fc.note("assumed: bytes read from the store under a key are a valid encoding of the type written under that key (MustUnmarshal does not panic)")
			if must {
				return nil
			}
			return []Val{{T: "0", S: SInt, GoT: fc.resT(e)}}
		}
	}
	for _, p := range []string{"(github.com/cosmos/cosmos-sdk/codec.BinaryCodec).", "(github.com/cosmos/cosmos-sdk/codec.Codec)."} {
		I[p+"MustMarshal"] = marshal
		I[p+"MustUnmarshal"] = unmarshal(true)
		I[p+"Unmarshal"] = unmarshal(false)
	}
	// the concrete codec behind a module's package-level ModuleCdc
	I["(*github.com/cosmos/cosmos-sdk/codec.ProtoCodec).MustMarshal"] = marshal
	I["(*github.com/cosmos/cosmos-sdk/codec.ProtoCodec).MustUnmarshal"] = unmarshal(true)
	I["github.com/cosmos/cosmos-sdk/types.Uint64ToBigEndian"] = func(fc *FCtx, st *State, e *ast.CallExpr, r *Val, a []Val) []Val {
		fc.u64be()
		return []Val{{T: app("u64be", a[0].T), S: fc.U.BzSort(), GoT: fc.resT(e)}}
	}
	I["github.com/cosmos/cosmos-sdk/types.BigEndianToUint64"] = func(fc *FCtx, st *State, e *ast.CallExpr, r *Val, a []Val) []Val {
		fc.u64be()
		return []Val{{T: app("u64of", fc.toBz(a[0])), S: SInt, GoT: fc.resT(e)}}
	}
}

func (fc *FCtx) note(s string) {
	for _, n := range fc.notes {
		if n == s {
			return
		}
	}
	fc.notes = append(fc.notes, s)
}

// storeGhostNameFor: the store a context value denotes. Cache contexts carry a suffix.
func (fc *FCtx) storeGhostNameFor(st *State, ctx *Val) string {
	m := moduleOf(fc.frame().fi.Pkg.PkgPath)
	if m == "" {
		oos("KVStore access outside an x/<module> package")
	}
	suffix := ""
	if ctx != nil {
		if s, ok := fc.ctxSuffixOf[ctx.T]; ok {
			suffix = s
		}
	}
	return "Store_" + m + suffix
}

// ---------------------------------------------------------------------------------------------
// Key functions and key constants
// ---------------------------------------------------------------------------------------------

func (fc *FCtx) keyTag(name string) int {
	if t, ok := fc.E.keyTags[name]; ok {
		return t
	}
	t := len(fc.E.keyTags) + 1
	fc.E.keyTags[name] = t
	return t
}

func (fc *FCtx) keyTagFn() {
	bz := fc.U.BzSort()
	fc.U.Fun("key_tag", []*Sort{bz}, SInt)
}

// keyConst: a package-level []byte variable used as a store key or prefix.
func (fc *FCtx) keyConst(o *types.Var) Val {
	bz := fc.U.BzSort()
	name := "kc_" + sanitize(shortPkg(o.Pkg().Path())) + "_" + o.Name()
	if !fc.U.declared["c:"+name] {
		fc.U.Const(name, bz)
		fc.keyTagFn()
		fc.U.Axiom("key constant "+o.Name()+" (never mutated; distinct from other keys)", fmt.Sprintf("(and (= (key_tag %s) %d) (not (= %s bz_nil)))", name, fc.keyTag(o.Pkg().Path()+"."+o.Name()), name))
		// a key constant initialised with a byte literal has that literal's length
		if pkg, init := fc.E.varInit(o); init != nil {
			if cl, ok := unparen(init).(*ast.CompositeLit); ok && isByteSliceType(o.Type()) {
				allConst := true
				for _, el := range cl.Elts {
					if _, isKV := el.(*ast.KeyValueExpr); isKV || pkg.TypesInfo.Types[el].Value == nil {
						allConst = false
					}
				}
				if allConst {
					fc.U.Axiom("key constant "+o.Name()+" has the length of its literal", fmt.Sprintf("(= (bz_len %s) %d)", name, len(cl.Elts)))
				}
			}
		}
	}
	return Val{T: name, S: bz, GoT: o.Type()}
}

func isByteSliceType(t types.Type) bool {
	if s, ok := t.Underlying().(*types.Slice); ok {
		if b, ok := s.Elem().Underlying().(*types.Basic); ok && b.Kind() == types.Uint8 {
			return true
		}
	}
	return false
}

// keyFnApply: application of a declared key function.
func (fc *FCtx) keyFnApply(key string, args []Val) Val {
	bz := fc.U.BzSort()
	name := "key_" + sanitize(shortPkg(key))
	if !fc.U.declared["f:"+name] {
		var sorts []*Sort
		for _, a := range args {
			sorts = append(sorts, a.S)
		}
		fc.U.Fun(name, sorts, bz)
		fc.keyTagFn()
		var bs, as []string
		for i, s := range sorts {
			bs = append(bs, fmt.Sprintf("(x%d %s)", i, s.Name))
			as = append(as, fmt.Sprintf("x%d", i))
		}
		appl := app(name, as...)
		var cs []string
		cs = append(cs, fmt.Sprintf("(= (key_tag %s) %d)", appl, fc.keyTag(key)), fmt.Sprintf("(not (= %s bz_nil))", appl))
		for i, s := range sorts {
			inv := fmt.Sprintf("%s_inv%d", name, i)
			fc.U.Fun(inv, []*Sort{bz}, s)
			cs = append(cs, fmt.Sprintf("(= (%s %s) x%d)", inv, appl, i))
		}
		if len(bs) > 0 {
			var invs []string
			for i := range sorts {
				invs = append(invs, fmt.Sprintf("(%s_inv%d k)", name, i))
			}
			fc.U.Axiom("key function "+shortPkg(key)+" (every key with its tag is in its range)", fmt.Sprintf("(forall ((k Bz)) (! (=> (= (key_tag k) %d) (= (%s %s) k)) :pattern ((key_tag k))))", fc.keyTag(key), name, strings.Join(invs, " ")))
		}
		if len(bs) == 0 {
			fc.U.Axiom("key function "+shortPkg(key)+" (distinct tag)", and(cs...))
		} else {
			fc.U.Axiom("key function "+shortPkg(key)+" (injective, distinct tag)", fmt.Sprintf("(forall (%s) (! %s :pattern (%s)))", strings.Join(bs, " "), and(cs...), appl))
		}
	}
	var ts []string
	for _, a := range args {
		ts = append(ts, a.T)
	}
	return Val{T: app(name, ts...), S: bz}
}

func sortedKeys(m map[string]int) []string {
	var ks []string
	for k := range m {
		ks = append(ks, k)
	}
	sort.Strings(ks)
	return ks
}

// asBz converts a []byte-typed value to the abstract byte-string sort (nil slice -> bz_nil).
func (fc *FCtx) asBz(v Val) Val {
	bz := fc.U.BzSort()
	if v.S == bz {
		return v
	}
	if v.S.Kind == KSlice && strings.HasPrefix(v.T, "(mk_"+v.S.Name+" 0 0 ") {
		return Val{T: "bz_nil", S: bz, GoT: v.GoT}
	}
	return Val{T: fc.toBz(v), S: bz, GoT: v.GoT}
}

// ---------------------------------------------------------------------------------------------
// Cache contexts (DESIGN §4.3 level 0, as built): ctx.CacheContext() returns a context whose stores
// are copies ("Store_<m>@c<k>") of the parent's; writeFn() copies them back.
// ---------------------------------------------------------------------------------------------

func (fc *FCtx) ctxTheory() *Sort {
	c := fc.U.opaque("Ctx")
	if fc.U.declared["f:cache_ctx"] {
		return c
	}
	fc.U.Fun("cache_ctx", []*Sort{c, SInt}, c)
	fc.U.Fun("ctx_blocktime", []*Sort{c}, SInt)
	fc.U.Fun("ctx_blockheight", []*Sort{c}, SInt)
	fc.U.Fun("ctx_chainid", []*Sort{c}, SStr)
	fc.U.Axiom("a cache context has its parent's block header", "(forall ((c Ctx) (k Int)) (! (and (= (ctx_blocktime (cache_ctx c k)) (ctx_blocktime c)) (= (ctx_blockheight (cache_ctx c k)) (ctx_blockheight c)) (= (ctx_chainid (cache_ctx c k)) (ctx_chainid c))) :pattern ((cache_ctx c k))))")
	fc.U.Axiom("block height is a non-negative int64 (CometBFT heights start at 1; 0 during InitChain)", "(forall ((c Ctx)) (! (and (in_int64 (ctx_blockheight c)) (>= (ctx_blockheight c) 0)) :pattern ((ctx_blockheight c))))")
	return c
}

func (fc *FCtx) suffixOfCtx(v *Val) string {
	if v == nil {
		return ""
	}
	return fc.ctxSuffixOf[v.T]
}

func isStoreGhost(name string) bool { return true }

func baseGhost(name string) string {
	if k := strings.Index(name, "@"); k >= 0 {
		return name[:k]
	}
	return name
}

func init() {
	intrinsics["(github.com/cosmos/cosmos-sdk/types.Context).CacheContext"] = func(fc *FCtx, st *State, e *ast.CallExpr, r *Val, a []Val) []Val {
		c := fc.ctxTheory()
		fc.cacheN++
		suffix := fmt.Sprintf("@c%d", fc.cacheN)
		parent := fc.suffixOfCtx(r)
		nt := fmt.Sprintf("(cache_ctx %s %d)", r.T, fc.cacheN)
		fc.ctxSuffixOf[nt] = suffix
		fc.cacheParent[suffix] = parent
		for _, g := range fc.ghostNames(st) {
			if isStoreGhost(g) && strings.TrimPrefix(g, baseGhost(g)) == parent {
				st.ghost[baseGhost(g)+suffix] = st.ghost[g]
			}
		}
		fs := fc.U.opaque("Func")
		return []Val{{T: nt, S: c, GoT: r.GoT}, {T: "@writefn:" + suffix, S: fs}}
	}
}

// callFuncValue handles calls through local function values: only the write function of a cache
// context is supported.
func (fc *FCtx) callFuncValue(e *ast.CallExpr, st *State) ([]Val, bool) {
	id, ok := unparen(e.Fun).(*ast.Ident)
	if !ok {
		return nil, false
	}
	obj := fc.info().ObjectOf(id)
	v, ok := st.vars[obj]
	if !ok || !strings.HasPrefix(v.T, "@writefn:") {
		return nil, false
	}
	suffix := strings.TrimPrefix(v.T, "@writefn:")
	parent := fc.cacheParent[suffix]
	for _, g := range fc.ghostNames(st) {
		if isStoreGhost(g) && strings.HasSuffix(g, suffix) {
			st.ghost[baseGhost(g)+parent] = st.ghost[g]
		}
	}
	return nil, true
}

func (fc *FCtx) bech32Fns() {
	a := fc.U.opaque("Addr")
	fc.U.Fun("bech32_addr", []*Sort{SStr}, a)
	fc.U.Fun("bech32_err", []*Sort{SStr}, SInt)
	fc.U.Fun("addr_string", []*Sort{a}, SStr)
	fc.U.Axiom("bech32 decoding (error code is non-negative; String/FromBech32 round trip)", "(and (forall ((s Str)) (! (>= (bech32_err s) 0) :pattern ((bech32_err s)))) (forall ((x Addr)) (! (and (= (bech32_addr (addr_string x)) x) (= (bech32_err (addr_string x)) 0)) :pattern ((addr_string x)))))")
}

func init() {
	I := intrinsics
	fromBech := func(fc *FCtx, st *State, e *ast.CallExpr, r *Val, a []Val) []Val {
		fc.bech32Fns()
		rt := fc.info().TypeOf(e).(*types.Tuple)
		return []Val{{T: app("bech32_addr", a[0].T), S: fc.U.opaque("Addr"), GoT: rt.At(0).Type()}, {T: app("bech32_err", a[0].T), S: SInt, GoT: rt.At(1).Type()}}
	}
	I["github.com/cosmos/cosmos-sdk/types.ValAddressFromBech32"] = fromBech
	I["github.com/cosmos/cosmos-sdk/types.AccAddressFromBech32"] = fromBech
	must := func(fc *FCtx, st *State, e *ast.CallExpr, r *Val, a []Val) []Val {
		fc.bech32Fns()
		fc.panicCheck(st, "MustAccAddressFromBech32", "(= "+app("bech32_err", a[0].T)+" 0)", e.Pos())
		return []Val{{T: app("bech32_addr", a[0].T), S: fc.U.opaque("Addr"), GoT: fc.resT(e)}}
	}
	I["github.com/cosmos/cosmos-sdk/types.MustAccAddressFromBech32"] = must
	I["(encoding/binary.bigEndian).PutUint64"] = func(fc *FCtx, st *State, e *ast.CallExpr, r *Val, a []Val) []Val {
		// writes the 8-byte big-endian encoding into the first 8 bytes of the slice (in place)
		fc.u64be()
		b := fc.toBz(a[0])
		fc.panicCheck(st, "BigEndian.PutUint64-short", fmt.Sprintf("(>= (bz_len %s) 8)", b), e.Pos())
		nb := fc.U.Fresh("put64", fc.U.BzSort())
		st.assume(fmt.Sprintf("(and (= (bz_len %s) (bz_len %s)) (= (bz_cap %s) (bz_cap %s)) (not (= %s bz_nil)) (= (u64of %s) %s) (=> (= (bz_len %s) 8) (= %s (u64be %s))))", nb, b, nb, b, nb, nb, a[1].T, b, nb, a[1].T))
		fc.assignOut(e.Args[0], Val{T: nb, S: a[0].S, GoT: a[0].GoT}, st)
		return nil
	}
	I["(encoding/binary.littleEndian).Uint64"] = func(fc *FCtx, st *State, e *ast.CallExpr, r *Val, a []Val) []Val {
		// the little-endian reading of the same bytes: a different (uninterpreted) function of them
		b := fc.toBz(a[0])
		fc.panicCheck(st, "LittleEndian.Uint64-short", fmt.Sprintf("(>= (bz_len %s) 8)", b), e.Pos())
		fc.U.Fun("u64le_of", []*Sort{fc.U.BzSort()}, SInt)
		v := Val{T: app("u64le_of", b), S: SInt, GoT: fc.resT(e)}
		st.assume(fc.U.WF(v))
		return []Val{v}
	}
	I["(encoding/binary.bigEndian).Uint64"] = func(fc *FCtx, st *State, e *ast.CallExpr, r *Val, a []Val) []Val {
		fc.u64be()
		b := fc.toBz(a[0])
		fc.panicCheck(st, "BigEndian.Uint64-short", fmt.Sprintf("(>= (bz_len %s) 8)", b), e.Pos())
		return []Val{{T: app("u64of", b), S: SInt, GoT: fc.resT(e)}}
	}
}

// bzMk: the byte string with exactly the given elements (constructor function per length, so equal
// literals are equal terms in code and in specs).
func (fc *FCtx) bzMk(es []string) string {
	n := len(es)
	fn := fmt.Sprintf("bzmk_%d", n)
	if !fc.U.declared["f:"+fn] {
		bz := fc.U.BzSort()
		var sorts []*Sort
		var bs, as []string
		for i := 0; i < n; i++ {
			sorts = append(sorts, SInt)
			bs = append(bs, fmt.Sprintf("(x%d Int)", i))
			as = append(as, fmt.Sprintf("x%d", i))
		}
		fc.U.Fun(fn, sorts, bz)
		appl := app(fn, as...)
		cs := []string{fmt.Sprintf("(= (bz_len %s) %d)", appl, n), fmt.Sprintf("(= (bz_cap %s) %d)", appl, n), fmt.Sprintf("(not (= %s bz_nil))", appl)}
		var guards []string
		for i := 0; i < n; i++ {
			guards = append(guards, fmt.Sprintf("(in_uint8 x%d)", i))
			cs = append(cs, fmt.Sprintf("(= (bz_at %s %d) x%d)", appl, i, i))
		}
		if n == 0 {
			fc.U.Axiom("byte literal of length 0", and(cs...))
		} else {
			fc.U.Axiom(fmt.Sprintf("byte literal of length %d", n), fmt.Sprintf("(forall (%s) (! (=> %s %s) :pattern (%s)))", strings.Join(bs, " "), and(guards...), and(cs...), appl))
		}
	}
	return app(fn, es...)
}
