package main

import (
	"fmt"
	"go/ast"
	"go/token"
	"go/types"
	"sort"
	"strings"

	"golang.org/x/tools/go/packages"
)

type FuncInfo struct {
	Pkg  *packages.Package
	Decl *ast.FuncDecl
	Lit  *ast.FuncLit
	Key  string // pkgpath.Key
	Sig  *types.Signature
	Recv *types.Var
}

func (fi *FuncInfo) Body() *ast.BlockStmt {
	if fi.Lit != nil {
		return fi.Lit.Body
	}
	return fi.Decl.Body
}

func (fi *FuncInfo) shortName() string {
	if fi.Decl != nil {
		return fi.Decl.Name.Name
	}
	return "lit"
}

func (fi *FuncInfo) Type() *ast.FuncType {
	if fi.Lit != nil {
		return fi.Lit.Type
	}
	return fi.Decl.Type
}

type Obligation struct {
	Name    string
	Kind    string
	Assumes []string
	Goal    string // to be proved (script asserts its negation); for covers: the formula that must be sat
	Cover   bool   // expect sat
	Canary  bool   // goal false; expected not-unsat unless listed dead
	Clause  string // human-readable clause text
	Pos     string
	Func    string
	// filled by the solver stage
	Result  string // unsat / sat / unknown / timeout
	Solver  string
	Ms      int64
	Model   string
	Script  string
	Lite    string   // the same script without `uses` lemmas and recursive spec-function definitions ("" if identical)
	ObsVars []ObsVar // terms whose model values are wanted for replay
}

type ObsVar struct {
	Name string // parameter path, e.g. "signals.len", "signals[0].Power"
	Term string
}

type State struct {
	vars  map[types.Object]Val
	ghost map[string]Val
	pc    []string
}

func (s *State) clone() *State {
	n := &State{vars: make(map[types.Object]Val, len(s.vars)), ghost: make(map[string]Val, len(s.ghost))}
	for k, v := range s.vars {
		n.vars[k] = v
	}
	for k, v := range s.ghost {
		n.ghost[k] = v
	}
	n.pc = append([]string(nil), s.pc...)
	return n
}

func (s *State) assume(t string) {
	if t == "" || t == "true" {
		return
	}
	s.pc = append(s.pc, t)
}

type retState struct {
	st   *State
	vals []Val
	pos  token.Pos
	ord  int
}

type frame struct {
	fi       *FuncInfo
	returns  []*retState
	results  []*types.Var
	inlined  bool
	deferred []func(st *State)
}

type FCtx struct {
	typeArgs map[string]types.Type // names of the type parameters of the generic callee whose contract is being evaluated
	changed  bool                   // the function's own source differs from the ledgered one
	inlineCallPos []token.Pos        // call positions of the inlined frames (parallel to frames[1:])
	ownDefs  map[string]bool         // names defined or assigned anywhere in the function's own body
	renames  map[string]types.Object // old local name -> the local that took its place (pure renames only)
	renamesRev map[string]string     // new local name -> old name
	E                 *Engine
	U                 *Universe
	FI                *FuncInfo
	C                 *FuncContract
	Prop              string
	Obls              []*Obligation
	entry             *State
	frames            []*frame
	counters          map[string]int
	dropped           []string
	assumed           map[string]bool
	inlined           map[string]bool
	notes             []string
	guards            []string
	noOverflow        bool
	mayPanic          bool
	mayPanicCallsOnly bool
	appendSelf        *ast.CallExpr // the append call of an `x = append(x, ...)` statement being executed
	loopOrd           int
	retOrd            map[token.Pos]int
	paramObs          []ObsVar
	specDecl          map[string]bool
	ghostOld          map[string]Val
	fpMode            bool
	inlineStack       []string
	termination       []string
	pureFacts         []string
	seenDef           map[string]int  // names already defined/assigned (anchors of named asserts)
	anchored          map[string]bool // named asserts that found their anchor
	panicStates       []*State        // states at the points where a defer-recover function may panic
	unfolding         bool            // inside unfoldOnce (no nested unfolding)
	curSpecials       loopSpecials    // specials of the innermost range loop whose body is being executed
	ctxSuffixOf       map[string]string
	cacheParent       map[string]string
	cacheN            int
	recoverLit        *ast.FuncLit
	inRecover         bool
	implicitRecv      map[ast.Expr]*types.Selection
	curGhostSet       map[string]bool
}

func (fc *FCtx) frame() *frame { return fc.frames[len(fc.frames)-1] }

func (fc *FCtx) info() *types.Info { return fc.frame().fi.Pkg.TypesInfo }

func (fc *FCtx) pos(p token.Pos) string {
	pp := fc.E.fset.Position(p)
	return fmt.Sprintf("%s:%d", strings.TrimPrefix(pp.Filename, fc.E.repo+"/"), pp.Line)
}

func (fc *FCtx) oblName(kind string) string {
	k := fc.counters[kind]
	fc.counters[kind] = k + 1
	return fmt.Sprintf("%s/%s/%s#%d", fc.Prop, shortPkg(fc.FI.Key), kind, k)
}

// oblige emits an obligation goal under the current path condition and expression guards, then
// assumes the goal on the continuing path.
func (fc *FCtx) oblige(st *State, kind, goal, clause string, pos token.Pos) {
	g := and(fc.guards...)
	o := &Obligation{Name: fc.oblName(kind), Kind: kind, Assumes: append(append([]string(nil), st.pc...), g), Goal: goal, Clause: clause, Func: fc.FI.Key}
	if pos.IsValid() {
		o.Pos = fc.pos(pos)
	}
	o.ObsVars = fc.paramObs
	fc.Obls = append(fc.Obls, o)
	// what has been obliged may be used afterwards - except the unconditional "false" of a callee that may panic: assuming
	// it would silence every obligation behind the call
	if goal != "false" {
		st.assume(implies(g, goal))
	}
}

func (fc *FCtx) obligeNamed(st *State, name, kind, goal, clause string, pos token.Pos) {
	if goal == "true" {
		// still record as trivially discharged so that counts are stable
		goal = "true"
	}
	g := and(fc.guards...)
	o := &Obligation{Name: fmt.Sprintf("%s/%s/%s", fc.Prop, shortPkg(fc.FI.Key), name), Kind: kind, Assumes: append(append([]string(nil), st.pc...), g), Goal: goal, Clause: clause, Func: fc.FI.Key}
	if pos.IsValid() {
		o.Pos = fc.pos(pos)
	}
	o.ObsVars = fc.paramObs
	fc.Obls = append(fc.Obls, o)
}

// panicCheck: obligation that cond holds (otherwise the Go runtime panics), unless may_panic.
func (fc *FCtx) panicCheck(st *State, what, cond string, pos token.Pos) {
	// `//@ may_panic calls`: explicit panic statements, Must* helpers and callees flagged may_panic are allowed to
	// panic, but the run-time checks of this function's own code (index, slice bounds, division, make, conversions,
	// iterator use ...) remain obligations
	callClass := what == "panic" || what == "callee" || strings.HasPrefix(what, "Must")
	if fc.mayPanic && (!fc.mayPanicCallsOnly || callClass) {
		if fc.recoverLit != nil && !fc.inRecover && cond != "true" {
			// a defer-recover function: the panicking branch is one of the states the recover handler starts from
			ps := st.clone()
			ps.assume(and(append(append([]string{}, fc.guards...), not(cond))...))
			fc.panicStates = append(fc.panicStates, ps)
		}
		st.assume(implies(and(fc.guards...), cond))
		return
	}
	fc.oblige(st, "panic-free:"+what, cond, what, pos)
}

func (fc *FCtx) withGuard(g string, f func()) {
	fc.guards = append(fc.guards, g)
	defer func() { fc.guards = fc.guards[:len(fc.guards)-1] }()
	f()
}

// ---------------------------------------------------------------------------------------------
// Merging
// ---------------------------------------------------------------------------------------------

func commonPrefix(sts []*State) int {
	n := len(sts[0].pc)
	for _, s := range sts[1:] {
		if len(s.pc) < n {
			n = len(s.pc)
		}
	}
	k := 0
	for k < n {
		same := true
		for _, s := range sts[1:] {
			if s.pc[k] != sts[0].pc[k] {
				same = false
				break
			}
		}
		if !same {
			break
		}
		k++
	}
	return k
}

func (fc *FCtx) merge(sts []*State) *State {
	if len(sts) == 0 {
		return nil
	}
	if len(sts) == 1 {
		return sts[0]
	}
	k := commonPrefix(sts)
	rests := make([]string, len(sts))
	for i, s := range sts {
		rests[i] = and(s.pc[k:]...)
	}
	out := &State{vars: map[types.Object]Val{}, ghost: map[string]Val{}}
	out.pc = append([]string(nil), sts[0].pc[:k]...)
	out.assume(or(rests...))
	// deterministic order
	var objs []types.Object
	for o := range sts[0].vars {
		objs = append(objs, o)
	}
	sort.Slice(objs, func(i, j int) bool { return objs[i].Pos() < objs[j].Pos() })
	for _, o := range objs {
		v0 := sts[0].vars[o]
		all, same := true, true
		for _, s := range sts[1:] {
			v, ok := s.vars[o]
			if !ok {
				all = false
				break
			}
			if v.T != v0.T {
				same = false
			}
		}
		if !all {
			continue
		}
		anyBz := false
		for _, s := range sts {
			if v := s.vars[o]; v.S != nil && v.S.Name == "Bz" {
				anyBz = true
			}
		}
		if anyBz && !same {
			for _, s := range sts {
				s.vars[o] = fc.asBz(s.vars[o])
			}
			v0 = sts[0].vars[o]
		}
		if same {
			out.vars[o] = v0
			continue
		}
		n := fc.U.Fresh(o.Name(), v0.S)
		for i, s := range sts {
			out.assume(implies(rests[i], fmt.Sprintf("(= %s %s)", n, s.vars[o].T)))
		}
		out.vars[o] = Val{T: n, S: v0.S, GoT: v0.GoT}
	}
	var gs []string
	for g := range sts[0].ghost {
		gs = append(gs, g)
	}
	sort.Strings(gs)
	for _, g := range gs {
		v0 := sts[0].ghost[g]
		same := true
		all := true
		for _, s := range sts[1:] {
			gv, ok := s.ghost[g]
			if !ok {
				all = false
				break
			}
			if gv.T != v0.T {
				same = false
			}
		}
		if !all {
			continue
		}
		if same {
			out.ghost[g] = v0
			continue
		}
		n := fc.U.Fresh("g_"+g, v0.S)
		for i, s := range sts {
			out.assume(implies(rests[i], fmt.Sprintf("(= %s %s)", n, s.ghost[g].T)))
		}
		out.ghost[g] = Val{T: n, S: v0.S, GoT: v0.GoT}
	}
	return out
}

// Flow is the outcome of executing a statement list.
type Flow struct {
	normal []*State
	brk    map[string][]*State // label ("" = innermost) -> states
	cont   map[string][]*State
}

func newFlow() *Flow { return &Flow{brk: map[string][]*State{}, cont: map[string][]*State{}} }

func (f *Flow) absorb(g *Flow) {
	for k, v := range g.brk {
		f.brk[k] = append(f.brk[k], v...)
	}
	for k, v := range g.cont {
		f.cont[k] = append(f.cont[k], v...)
	}
}
