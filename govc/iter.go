package main

import (
	"fmt"
	"go/ast"
)

// ---------------------------------------------------------------------------------------------
// Store iterators (assumed contract of the SDK store, DESIGN §4.3): a prefix iterator enumerates
// exactly the entries of the store (as of its creation) whose key has the prefix, without
// repetition, in ascending (reverse: descending) key order.
// ---------------------------------------------------------------------------------------------

func (fc *FCtx) iterSort() *Sort {
	if s, ok := fc.U.sorts["Iter"]; ok {
		return s
	}
	bz := fc.U.BzSort()
	s := &Sort{Kind: KData, Name: "Iter", Fields: []Field{{Name: "id", S: SInt}, {Name: "pos", S: SInt}}}
	fc.U.sorts["Iter"] = s
	fc.U.decl("sort:Iter", "(declare-datatypes ((Iter 0)) (((mk_Iter (Iter_id Int) (Iter_pos Int)))))")
	fc.U.Fun("it_len", []*Sort{SInt}, SInt)
	fc.U.Fun("it_key", []*Sort{SInt, SInt}, bz)
	fc.U.Fun("it_val", []*Sort{SInt, SInt}, bz)
	fc.U.Fun("it_idx", []*Sort{SInt, bz}, SInt)
	fc.U.Fun("hasprefix", []*Sort{bz, bz}, SBool)
	fc.U.Fun("bz_lt", []*Sort{bz, bz}, SBool)
	fc.U.Axiom("a byte string is at least as long as any of its prefixes", "(forall ((a Bz) (b Bz)) (! (=> (hasprefix a b) (>= (bz_len a) (bz_len b))) :pattern ((hasprefix a b))))")
	return s
}

func (fc *FCtx) newIterator(st *State, store *Val, prefix Val, reverse bool, e *ast.CallExpr) Val {
	if !isStoreHandle(store) {
		oos("iterator over unknown store value")
	}
	is := fc.iterSort()
	s := st.ghost[storeName(store)]
	fc.U.fresh++
	id := fc.U.fresh
	p := fc.toBz(prefix)
	n := fmt.Sprintf("(it_len %d)", id)
	j, k := fmt.Sprintf("itj%d", id), fmt.Sprintf("itk%d", id)
	st.assume(fmt.Sprintf("(and (>= %s 0) (<= %s 9223372036854775807))", n, n))
	fc.U.Fun("pcount", []*Sort{fc.U.StoreSort(), fc.U.BzSort()}, SInt)
	st.assume(fmt.Sprintf("(= %s (pcount %s %s))", n, s.T, p))
	st.assume(fmt.Sprintf("(forall ((%s Int)) (! (=> (and (<= 0 %s) (< %s %s)) (and (= (select %s (it_key %d %s)) (it_val %d %s)) (not (= (it_val %d %s) bz_nil)) (hasprefix (it_key %d %s) %s) (= (it_idx %d (it_key %d %s)) %s))) :pattern ((it_key %d %s)) :pattern ((it_val %d %s))))",
		j, j, j, n, s.T, id, j, id, j, id, j, id, j, p, id, id, j, j, id, j, id, j))
	st.assume(fmt.Sprintf("(forall ((%s Bz)) (! (=> (and (not (= (select %s %s) bz_nil)) (hasprefix %s %s)) (and (<= 0 (it_idx %d %s)) (< (it_idx %d %s) %s) (= (it_key %d (it_idx %d %s)) %s))) :pattern ((it_idx %d %s)) :pattern ((hasprefix %s %s))))",
		k, s.T, k, k, p, id, k, id, k, n, id, id, k, k, id, k, k, p))
	j2 := fmt.Sprintf("itm%d", id)
	lt := fmt.Sprintf("(bz_lt (it_key %d %s) (it_key %d %s))", id, j, id, j2)
	if reverse {
		lt = fmt.Sprintf("(bz_lt (it_key %d %s) (it_key %d %s))", id, j2, id, j)
	}
	st.assume(fmt.Sprintf("(forall ((%s Int) (%s Int)) (! (=> (and (<= 0 %s) (< %s %s) (< %s %s)) %s) :pattern ((it_key %d %s) (it_key %d %s))))", j, j2, j, j, j2, j2, n, lt, id, j, id, j2))
	fc.assumed["store prefix iterators enumerate exactly the live keys with the prefix, once each, in key order (cosmossdk.io/store)"] = true
	return Val{T: fmt.Sprintf("(mk_Iter %d 0)", id), S: is, GoT: fc.resT(e)}
}

func itID(v Val) string  { return "(Iter_id " + v.T + ")" }
func itPos(v Val) string { return "(Iter_pos " + v.T + ")" }

func init() {
	I := intrinsics
	I["cosmossdk.io/store/types.KVStorePrefixIterator"] = func(fc *FCtx, st *State, e *ast.CallExpr, r *Val, a []Val) []Val {
		return one(fc.newIterator(st, &a[0], a[1], false, e))
	}
	I["cosmossdk.io/store/types.KVStoreReversePrefixIterator"] = func(fc *FCtx, st *State, e *ast.CallExpr, r *Val, a []Val) []Val {
		return one(fc.newIterator(st, &a[0], a[1], true, e))
	}
	for _, p := range []string{"(github.com/cosmos/cosmos-db.Iterator).", "(cosmossdk.io/store/types.Iterator)."} {
		I[p+"Valid"] = func(fc *FCtx, st *State, e *ast.CallExpr, r *Val, a []Val) []Val {
			return bv(fmt.Sprintf("(< %s (it_len %s))", itPos(*r), itID(*r)))
		}
		I[p+"Next"] = func(fc *FCtx, st *State, e *ast.CallExpr, r *Val, a []Val) []Val {
			fc.panicCheck(st, "iterator-next-invalid", fmt.Sprintf("(< %s (it_len %s))", itPos(*r), itID(*r)), e.Pos())
			nv := Val{T: fmt.Sprintf("(mk_Iter %s (+ %s 1))", itID(*r), itPos(*r)), S: r.S, GoT: r.GoT}
			sel := unparen(e.Fun).(*ast.SelectorExpr)
			fc.assignTo(sel.X, nv, st)
			return nil
		}
		I[p+"Key"] = func(fc *FCtx, st *State, e *ast.CallExpr, r *Val, a []Val) []Val {
			fc.panicCheck(st, "iterator-key-invalid", fmt.Sprintf("(< %s (it_len %s))", itPos(*r), itID(*r)), e.Pos())
			return []Val{{T: fmt.Sprintf("(it_key %s %s)", itID(*r), itPos(*r)), S: fc.U.BzSort(), GoT: fc.resT(e)}}
		}
		I[p+"Value"] = func(fc *FCtx, st *State, e *ast.CallExpr, r *Val, a []Val) []Val {
			fc.panicCheck(st, "iterator-value-invalid", fmt.Sprintf("(< %s (it_len %s))", itPos(*r), itID(*r)), e.Pos())
			return []Val{{T: fmt.Sprintf("(it_val %s %s)", itID(*r), itPos(*r)), S: fc.U.BzSort(), GoT: fc.resT(e)}}
		}
		I[p+"Close"] = func(fc *FCtx, st *State, e *ast.CallExpr, r *Val, a []Val) []Val {
			return []Val{{T: "0", S: SInt, GoT: fc.resT(e)}}
		}
		I[p+"Error"] = I[p+"Close"]
	}
}
