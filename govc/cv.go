package main

import (
	"encoding/json"
	"fmt"
	"go/types"
	"math/big"
	"math/rand"
	"sort"
	"strings"
)

// CV is a concrete value used for replay and conformance sampling.
type CV struct {
	K string // int bool str struct slice map opaque
	I *big.Int
	B bool
	S string
	F map[string]*CV
	L []*CV
	N int // cap for slices (>= len)
}

func cvInt(i int64) *CV    { return &CV{K: "int", I: big.NewInt(i)} }
func cvBig(b *big.Int) *CV { return &CV{K: "int", I: new(big.Int).Set(b)} }
func cvBool(b bool) *CV    { return &CV{K: "bool", B: b} }
func cvStr(s string) *CV   { return &CV{K: "str", S: s} }

func (c *CV) String() string {
	if c == nil {
		return "<nil>"
	}
	switch c.K {
	case "int":
		return c.I.String()
	case "bool":
		return fmt.Sprint(c.B)
	case "str":
		return fmt.Sprintf("%q", c.S)
	case "struct":
		var ks []string
		for k := range c.F {
			ks = append(ks, k)
		}
		sort.Strings(ks)
		var ps []string
		for _, k := range ks {
			ps = append(ps, k+":"+c.F[k].String())
		}
		return "{" + strings.Join(ps, " ") + "}"
	case "slice":
		var ps []string
		for _, e := range c.L {
			ps = append(ps, e.String())
		}
		return "[" + strings.Join(ps, " ") + "]"
	case "map":
		var ps []string
		for _, e := range c.L {
			ps = append(ps, e.F["k"].String()+":"+e.F["v"].String())
		}
		return "map[" + strings.Join(ps, " ") + "]"
	}
	return "<" + c.K + ">"
}

func (c *CV) equal(d *CV) bool {
	if c == nil || d == nil {
		return c == d
	}
	if c.K != d.K {
		return false
	}
	switch c.K {
	case "int":
		return c.I.Cmp(d.I) == 0
	case "bool":
		return c.B == d.B
	case "str":
		return c.S == d.S
	case "struct":
		if len(c.F) != len(d.F) {
			return false
		}
		for k, v := range c.F {
			if !v.equal(d.F[k]) {
				return false
			}
		}
		return true
	case "slice":
		if len(c.L) != len(d.L) {
			return false
		}
		for i := range c.L {
			if !c.L[i].equal(d.L[i]) {
				return false
			}
		}
		return true
	}
	return false
}

// ---------------------------------------------------------------------------------------------
// Type-directed generation and Go-literal printing
// ---------------------------------------------------------------------------------------------

type litCtx struct {
	pkg     *types.Package
	imports map[string]string // path -> alias
}

func (lc *litCtx) qual(p *types.Package) string {
	if p == lc.pkg {
		return ""
	}
	if a, ok := lc.imports[p.Path()]; ok {
		return a
	}
	a := fmt.Sprintf("gvi%d", len(lc.imports))
	lc.imports[p.Path()] = a
	return a
}

func (lc *litCtx) typeStr(t types.Type) string { return types.TypeString(t, lc.qual) }

var boundaryInts = []string{"0", "1", "2", "3", "-1", "9223372036854775807", "-9223372036854775808", "9223372036854775806", "4611686018427387904", "18446744073709551615", "10000", "100", "7", "1000000000"}

func clampToType(b *big.Int, t types.Type) *big.Int {
	mn := machineIntName(t)
	if mn == "" {
		return b
	}
	lo, hi := rangeOf(mn)
	if b.Cmp(lo) < 0 || b.Cmp(hi) > 0 {
		m := new(big.Int).Sub(hi, lo)
		m.Add(m, big.NewInt(1))
		r := new(big.Int).Sub(b, lo)
		r.Mod(r, m)
		r.Add(r, lo)
		return r
	}
	return b
}

func rangeOf(mn string) (*big.Int, *big.Int) {
	w := map[string]uint{"int8": 8, "int16": 16, "int32": 32, "int64": 64, "uint8": 8, "uint16": 16, "uint32": 32, "uint64": 64}[mn]
	if strings.HasPrefix(mn, "u") {
		hi := new(big.Int).Lsh(big.NewInt(1), w)
		hi.Sub(hi, big.NewInt(1))
		return big.NewInt(0), hi
	}
	hi := new(big.Int).Lsh(big.NewInt(1), w-1)
	lo := new(big.Int).Neg(hi)
	hi = new(big.Int).Sub(hi, big.NewInt(1))
	return lo, hi
}

type genError struct{ what string }

// genValue produces a random well-typed value of Go type t.
func genValue(t types.Type, r *rand.Rand, depth int) *CV {
	ts := typeString(t)
	switch {
	case isBigIntLike(t):
		if ts == "cosmossdk.io/math.LegacyDec" {
			panic(genError{"LegacyDec input"})
		}
		b, _ := new(big.Int).SetString(boundaryInts[r.Intn(len(boundaryInts))], 10)
		if r.Intn(3) == 0 {
			b = big.NewInt(r.Int63n(1000))
		}
		if r.Intn(4) == 0 {
			b.Mul(b, big.NewInt(r.Int63n(1<<40)))
		}
		if ts == "cosmossdk.io/math.Uint" {
			b.Abs(b)
		}
		return cvBig(b)
	case isTime(t):
		// seconds around realistic block times, sometimes zero time
		switch r.Intn(6) {
		case 0:
			b, _ := new(big.Int).SetString("-62135596800000000000", 10)
			return cvBig(b)
		default:
			sec := int64(1700000000) + r.Int63n(2000) - 1000
			ns := big.NewInt(sec)
			ns.Mul(ns, big.NewInt(1000000000))
			if r.Intn(3) == 0 {
				ns.Add(ns, big.NewInt(r.Int63n(1000000000)))
			}
			return cvBig(ns)
		}
	case isErrorType(t):
		panic(genError{"error-typed input"})
	case ts == "github.com/cosmos/cosmos-sdk/types.Context":
		sec := int64(1700000000) + r.Int63n(2000) - 1000
		ns := big.NewInt(sec)
		ns.Mul(ns, big.NewInt(1000000000))
		return &CV{K: "ctx", I: ns}
	case ts == "github.com/cosmos/cosmos-sdk/types.AccAddress" || ts == "github.com/cosmos/cosmos-sdk/types.ValAddress":
		c := &CV{K: "slice"}
		for i := 0; i < 20; i++ {
			c.L = append(c.L, cvInt(int64(r.Intn(4))))
		}
		c.N = 20
		return c
	}
	switch tt := t.(type) {
	case *types.Alias:
		return genValue(types.Unalias(tt), r, depth)
	case *types.Basic:
		switch {
		case tt.Info()&types.IsInteger != 0:
			var b *big.Int
			switch r.Intn(4) {
			case 0:
				b, _ = new(big.Int).SetString(boundaryInts[r.Intn(len(boundaryInts))], 10)
			case 1:
				b = big.NewInt(int64(1700000000) + r.Int63n(4000) - 2000)
			default:
				b = big.NewInt(r.Int63n(200) - 20)
			}
			return cvBig(clampToType(b, t))
		case tt.Info()&types.IsBoolean != 0:
			return cvBool(r.Intn(2) == 0)
		case tt.Info()&types.IsString != 0:
			ss := []string{"", "a", "b", "BTC", "ETH", "CS:BTC-USD", "x"}
			return cvStr(ss[r.Intn(len(ss))])
		}
	case *types.Pointer:
		return genValue(tt.Elem(), r, depth)
	case *types.Named:
		switch ut := tt.Underlying().(type) {
		case *types.Struct:
			if depth > 4 {
				panic(genError{"deep struct"})
			}
			c := &CV{K: "struct", F: map[string]*CV{}}
			for i := 0; i < ut.NumFields(); i++ {
				f := ut.Field(i)
				if strings.HasPrefix(f.Name(), "XXX_") {
					continue
				}
				c.F[f.Name()] = genValue(f.Type(), r, depth+1)
			}
			return c
		default:
			return genValue(ut, r, depth)
		}
	case *types.Struct:
		panic(genError{"anonymous struct"})
	case *types.Slice:
		n := r.Intn(5)
		c := &CV{K: "slice"}
		for i := 0; i < n; i++ {
			c.L = append(c.L, genValue(tt.Elem(), r, depth+1))
		}
		c.N = n
		return c
	case *types.Array:
		c := &CV{K: "slice"}
		for i := int64(0); i < tt.Len(); i++ {
			c.L = append(c.L, genValue(tt.Elem(), r, depth+1))
		}
		c.N = int(tt.Len())
		return c
	case *types.Map:
		// entries with pairwise different keys (K = "map", L = list of {k, v})
		c := &CV{K: "map"}
		n := r.Intn(4)
		for i := 0; i < n; i++ {
			k := genValue(tt.Key(), r, depth+1)
			dup := false
			for _, e := range c.L {
				if e.F["k"].equal(k) {
					dup = true
				}
			}
			if !dup {
				c.L = append(c.L, &CV{K: "struct", F: map[string]*CV{"k": k, "v": genValue(tt.Elem(), r, depth+1)}})
			}
		}
		return c
	}
	panic(genError{"unsupported input type " + ts})
}

// goLit prints a CV as a Go expression of type t.
func (lc *litCtx) goLit(c *CV, t types.Type) string {
	ts := typeString(t)
	if c.K == "zero" {
		return lc.typeStr(t) + "{}"
	}
	if c.K == "ctx" {
		return fmt.Sprintf("(%s{}).WithBlockTime(gvTime(%q))", lc.typeStr(t), c.I.String())
	}
	switch {
	case ts == "cosmossdk.io/math.Int":
		return fmt.Sprintf("gvBigInt(%q)", c.I.String())
	case ts == "cosmossdk.io/math.Uint":
		return fmt.Sprintf("gvBigUint(%q)", c.I.String())
	case ts == "*math/big.Int":
		return fmt.Sprintf("gvBig(%q)", c.I.String())
	case isTime(t):
		return fmt.Sprintf("gvTime(%q)", c.I.String())
	}
	switch tt := t.(type) {
	case *types.Alias:
		return lc.goLit(c, types.Unalias(tt))
	case *types.Basic:
		switch {
		case tt.Info()&types.IsInteger != 0:
			return fmt.Sprintf("%s(%s)", lc.typeStr(t), c.I.String())
		case tt.Info()&types.IsBoolean != 0:
			return fmt.Sprint(c.B)
		case tt.Info()&types.IsString != 0:
			return fmt.Sprintf("%q", c.S)
		}
	case *types.Pointer:
		inner := lc.goLit(c, tt.Elem())
		if strings.HasPrefix(inner, "&") {
			return inner
		}
		if _, ok := tt.Elem().Underlying().(*types.Struct); ok {
			return "&" + inner
		}
		return fmt.Sprintf("gvPtr(%s)", inner)
	case *types.Named:
		switch ut := tt.Underlying().(type) {
		case *types.Struct:
			var fs []string
			for i := 0; i < ut.NumFields(); i++ {
				f := ut.Field(i)
				if v, ok := c.F[f.Name()]; ok {
					fs = append(fs, fmt.Sprintf("%s: %s", f.Name(), lc.goLit(v, f.Type())))
				}
			}
			return fmt.Sprintf("%s{%s}", lc.typeStr(t), strings.Join(fs, ", "))
		case *types.Basic:
			switch {
			case ut.Info()&types.IsInteger != 0:
				return fmt.Sprintf("%s(%s)", lc.typeStr(t), c.I.String())
			case ut.Info()&types.IsBoolean != 0:
				return fmt.Sprintf("%s(%v)", lc.typeStr(t), c.B)
			case ut.Info()&types.IsString != 0:
				return fmt.Sprintf("%s(%q)", lc.typeStr(t), c.S)
			}
		case *types.Slice:
			return lc.sliceLit(c, t, ut.Elem())
		case *types.Array:
			return lc.sliceLit(c, t, ut.Elem())
		}
	case *types.Slice:
		return lc.sliceLit(c, t, tt.Elem())
	case *types.Array:
		return lc.sliceLit(c, t, tt.Elem())
	case *types.Map:
		var es []string
		for _, e := range c.L {
			es = append(es, lc.goLit(e.F["k"], tt.Key())+": "+lc.goLit(e.F["v"], tt.Elem()))
		}
		return fmt.Sprintf("%s{%s}", lc.typeStr(t), strings.Join(es, ", "))
	}
	panic(genError{"cannot print literal of " + ts})
}

func (lc *litCtx) sliceLit(c *CV, t, et types.Type) string {
	var es []string
	for _, e := range c.L {
		es = append(es, lc.goLit(e, et))
	}
	lit := fmt.Sprintf("%s{%s}", lc.typeStr(t), strings.Join(es, ", "))
	if _, isArr := t.Underlying().(*types.Array); isArr {
		return lit
	}
	if c.N == len(c.L) && len(c.L) > 0 {
		// exact capacity: make+copy (a literal already has cap == len)
		return lit
	}
	if c.N > len(c.L) {
		return fmt.Sprintf("append(make(%s, 0, %d), %s...)", lc.typeStr(t), c.N, lit)
	}
	return lit
}

// fromJSON converts the dumper's JSON (see replayPrelude) into a CV guided by the Go type.
func fromJSON(raw json.RawMessage, t types.Type) *CV {
	ts := typeString(t)
	if isBigIntLike(t) || isTime(t) {
		var s string
		if json.Unmarshal(raw, &s) == nil {
			b, ok := new(big.Int).SetString(s, 10)
			if ok {
				return cvBig(b)
			}
		}
		return &CV{K: "opaque", S: string(raw)}
	}
	if isErrorType(t) {
		var s *string
		json.Unmarshal(raw, &s)
		if s == nil {
			return cvInt(0)
		}
		return &CV{K: "int", I: big.NewInt(1), S: *s}
	}
	switch tt := t.(type) {
	case *types.Alias:
		return fromJSON(raw, types.Unalias(tt))
	case *types.Pointer:
		return fromJSON(raw, tt.Elem())
	case *types.Basic:
		switch {
		case tt.Info()&types.IsInteger != 0:
			var s string
			json.Unmarshal(raw, &s)
			b, _ := new(big.Int).SetString(s, 10)
			if b == nil {
				b = big.NewInt(0)
			}
			return cvBig(b)
		case tt.Info()&types.IsBoolean != 0:
			var b bool
			json.Unmarshal(raw, &b)
			return cvBool(b)
		case tt.Info()&types.IsString != 0:
			var s string
			json.Unmarshal(raw, &s)
			return cvStr(s)
		}
	case *types.Named:
		switch ut := tt.Underlying().(type) {
		case *types.Struct:
			var m map[string]json.RawMessage
			json.Unmarshal(raw, &m)
			c := &CV{K: "struct", F: map[string]*CV{}}
			for i := 0; i < ut.NumFields(); i++ {
				f := ut.Field(i)
				if r, ok := m[f.Name()]; ok {
					c.F[f.Name()] = fromJSON(r, f.Type())
				}
			}
			return c
		default:
			return fromJSON(raw, ut)
		}
	case *types.Slice:
		return sliceFromJSON(raw, tt.Elem())
	case *types.Array:
		return sliceFromJSON(raw, tt.Elem())
	}
	return &CV{K: "opaque", S: ts}
}

func sliceFromJSON(raw json.RawMessage, et types.Type) *CV {
	var w struct {
		Cap int               `json:"cap"`
		El  []json.RawMessage `json:"el"`
	}
	json.Unmarshal(raw, &w)
	c := &CV{K: "slice", N: w.Cap}
	for _, r := range w.El {
		c.L = append(c.L, fromJSON(r, et))
	}
	return c
}
