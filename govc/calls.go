package main

import (
	"fmt"
	"go/ast"
	"go/token"
	"go/types"
	"strings"
)

func (fc *FCtx) evalCall(e *ast.CallExpr, st *State) []Val {
	info := fc.info()
	// conversion
	if tv, ok := info.Types[e.Fun]; ok && tv.IsType() {
		return []Val{fc.convert(e, tv.Type, st)}
	}
	// builtins
	if id, ok := unparen(e.Fun).(*ast.Ident); ok {
		if b, ok := info.ObjectOf(id).(*types.Builtin); ok {
			return fc.evalBuiltin(b.Name(), e, st)
		}
	}
	name := fc.calleeName(e)
	if fo := fc.calleeObj(e); fo != nil && strings.HasPrefix(fo.Name(), "emitEvent") && fo.Pkg() != nil && strings.HasPrefix(fo.Pkg().Path(), modPath) {
		fc.drop("event helper " + fo.Name())
		fc.evalDroppedArgs(e, st)
		return nil
	}
	if isDroppedCall(name) {
		fc.drop(name)
		fc.evalDroppedArgs(e, st)
		// results of a dropped call (e.g. a derived logger) are arbitrary values that only feed other dropped calls
		var res []Val
		if fo := fc.calleeObj(e); fo != nil {
			if sg, ok := fo.Type().(*types.Signature); ok {
				for i := 0; i < sg.Results().Len(); i++ {
					rt := sg.Results().At(i).Type()
					rs := fc.U.SortOf(rt)
					res = append(res, Val{T: fc.U.Fresh("dropped", rs), S: rs, GoT: rt})
				}
			}
		}
		return res
	}
	// receiver (method call) and arguments
	var recv *Val
	var recvExpr ast.Expr
	if sel, ok := unparen(e.Fun).(*ast.SelectorExpr); ok {
		if s := info.Selections[sel]; s != nil && (s.Kind() == types.MethodVal) {
			recvExpr = sel.X
			if len(s.Index()) > 1 {
				if fc.implicitRecv == nil {
					fc.implicitRecv = map[ast.Expr]*types.Selection{}
				}
				fc.implicitRecv[sel.X] = s
			}
		}
	}
	fn := fc.calleeObj(e)
	if fn == nil {
		if r, ok := fc.callFuncValue(e, st); ok {
			return r
		}
		if r, ok := fc.callCurried(e, st); ok {
			return r
		}
		if r, ok := fc.callUnknownFuncValue(e, st); ok {
			return r
		}
		oos("call through function value %s", name)
	}
	// chains that only feed dropped calls: ctx.EventManager(), ctx.Logger()
	if isDropSource(name) {
		fc.drop(name)
		fc.evalDroppedArgs(e, st)
		rt := fc.resT(e)
		s := fc.U.SortOf(rt)
		return []Val{{T: fc.U.Fresh("dropped", s), S: s, GoT: rt}}
	}
	if strings.HasPrefix(name, "(interface).") && recvExpr != nil {
		if id, ok := unparen(recvExpr).(*ast.Ident); ok {
			if v, ok := st.vars[info.ObjectOf(id)]; ok && v.S != nil && v.S.Name == "Iter" {
				name = "(github.com/cosmos/cosmos-db.Iterator)." + strings.TrimPrefix(name, "(interface).")
			}
		}
	}
	if intr, ok := intrinsics[name]; ok {
		if recvExpr != nil {
			rv := fc.evalRecvExpr(recvExpr, st)
			recv = &rv
		}
		var args []Val
		for _, a := range e.Args {
			if isFmtArgs(name) {
				break
			}
			if _, isLit := unparen(a).(*ast.FuncLit); isLit {
				args = append(args, Val{T: "@funclit", S: fc.U.opaque("Func")})
				continue
			}
			args = append(args, fc.eval(a, st))
		}
		return intr(fc, st, e, recv, args)
	}
	key := funcKey(fn)
	sig := fn.Type().(*types.Signature)
	// call of a generic function: the signature instantiated at this call site (contracts of generic functions are
	// written over the type parameters and evaluated per instantiation)
	if sig.TypeParams().Len() > 0 {
		var id *ast.Ident
		switch f := unparen(e.Fun).(type) {
		case *ast.Ident:
			id = f
		case *ast.SelectorExpr:
			id = f.Sel
		case *ast.IndexExpr:
			if x, ok := f.X.(*ast.Ident); ok {
				id = x
			}
		}
		if id != nil {
			if inst, ok := info.Instances[id]; ok {
				if isg, ok := inst.Type.(*types.Signature); ok {
					tps := sig.TypeParams()
					sig = isg
					// the type parameters' names denote the type arguments while the callee's contract is evaluated
					saved := fc.typeArgs
					fc.typeArgs = map[string]types.Type{}
					for i := 0; i < tps.Len() && i < inst.TypeArgs.Len(); i++ {
						fc.typeArgs[tps.At(i).Obj().Name()] = inst.TypeArgs.At(i)
					}
					defer func() { fc.typeArgs = saved }()
				}
			}
		}
	}
	// declared key function
	if c := fc.E.cs.Funcs[key]; c != nil && c.Flags["keyfn"] != "" {
		var args []Val
		for _, a := range e.Args {
			args = append(args, fc.eval(a, st))
		}
		r := fc.keyFnApply(key, args)
		r.GoT = fc.resT(e)
		return []Val{r}
	}
	// abstract repo function: uninterpreted total function of its arguments
	if c := fc.E.cs.Funcs[key]; c != nil && c.Flags["abstract"] != "" {
		res := fc.pureExternCall(name, fn, e, recvExpr, st)
		// `ensures` clauses of an abstract function may constrain its results (e.g. the length of a hash); they are
		// assumptions about the uninterpreted function and may only mention the results
		if len(c.Ensures) > 0 {
			names := map[string]Val{}
			for i, rn := range resultNames(sig, c) {
				if i < len(res) {
					names[rn] = res[i]
				}
			}
			for _, en := range c.Ensures {
				env := &Env{fc: fc, st: st, old: st, names: names, oldNames: names, pkg: fc.E.pkgOfContract(c)}
				st.assume(fc.specBool(en.Expr, env))
			}
		}
		return res
	}
	// contract call
	if c := fc.E.cs.Funcs[key]; c != nil && c.Flags["inline"] == "" {
		res := fc.callByContract(c, fn, sig, e, recvExpr, st)
		if len(fc.frames) == 1 && fc.C != nil && fc.C.Flags["forwards"] != "" && fn.Name() == fc.C.Flags["forwards"] {
			if g, ok := st.ghost["fwd@count"]; ok {
				st.ghost["fwd@count"] = Val{T: fmt.Sprintf("(+ %s 1)", g.T), S: SInt}
				for i, v := range res {
					st.ghost[fmt.Sprintf("fwd@r%d", i)] = v
				}
			}
		}
		return res
	}
	if c := fc.E.externFor(fn); c != nil {
		return fc.callByContract(c, fn, sig, e, recvExpr, st)
	}
	// inline
	if fi := fc.E.funcs[key]; fi != nil && fi.Body() != nil {
		c := fc.E.cs.Funcs[key]
		if c != nil || fc.E.autoInlinable(fi) {
			return fc.inlineCall(fi, e, recvExpr, st)
		}
	}
	if isPureExtern(name) {
		return fc.pureExternCall(name, fn, e, recvExpr, st)
	}
	if isFreshExtern(name) {
		if recvExpr != nil {
			fc.evalRecvExpr(recvExpr, st)
		}
		fc.evalDroppedArgs(e, st)
		fc.assumed["external call modelled as returning arbitrary well-typed values without touching modelled state: "+name] = true
		var res []Val
		for i := 0; i < sig.Results().Len(); i++ {
			rt := sig.Results().At(i).Type()
			s := fc.U.SortOf(rt)
			v := Val{T: fc.U.Fresh("ext_"+fn.Name(), s), S: s, GoT: rt}
			st.assume(fc.U.WF(v))
			res = append(res, v)
		}
		return res
	}
	oos("call to %s without contract", name)
	return nil
}

var pureExternPrefixes = []string{
	"(github.com/cosmos/cosmos-sdk/types.Coins).", "(github.com/cosmos/cosmos-sdk/types.DecCoins).", "(github.com/cosmos/cosmos-sdk/types.Coin).", "(github.com/cosmos/cosmos-sdk/types.DecCoin).",
	"github.com/cosmos/cosmos-sdk/types.NewCoins", "github.com/cosmos/cosmos-sdk/types.NewCoin", "github.com/cosmos/cosmos-sdk/types.NewDecCoinsFromCoins", "github.com/cosmos/cosmos-sdk/types.NewDecCoins",
	"github.com/cosmos/cosmos-sdk/types/address.Module",
	"cosmossdk.io/errors.ABCIInfo", "cosmossdk.io/math.LegacyNewDecFromStr", "(cosmossdk.io/math.LegacyDec).Mul", "(cosmossdk.io/math.LegacyDec).Quo", "(cosmossdk.io/math.LegacyDec).RoundInt", "(cosmossdk.io/math.LegacyDec).String", "strings.", "bytes.", "encoding/hex.", "strconv.", "math.", "math/bits.", "crypto/sha256.Sum256", "github.com/cosmos/cosmos-sdk/types/address.MustLengthPrefix",
	"(github.com/cosmos/cosmos-sdk/types.AccAddress).Bytes", "(github.com/cosmos/cosmos-sdk/types.ValAddress).Bytes",
	"github.com/cosmos/cosmos-sdk/x/auth/types.NewModuleAddress",
	"(github.com/cosmos/cosmos-sdk/x/staking/types.ValidatorI).", "(github.com/cosmos/cosmos-sdk/types.ModuleAccountI).", "(github.com/cosmos/cosmos-sdk/types.AccountI).", "(github.com/cosmos/cosmos-sdk/x/staking/types.Validator).",
	"github.com/cometbft/cometbft/crypto/tmhash.", "github.com/cometbft/cometbft/crypto/merkle.", "github.com/cometbft/cometbft/libs/protoio.MarshalDelimited",
	"(github.com/cometbft/cometbft/", "(*github.com/cometbft/cometbft/", "(*github.com/decred/dcrd/dcrec/secp256k1/v4.", "(*math/big.Int).Bytes", "encoding/binary.Varint", "encoding/binary.Uvarint", "encoding/binary.PutUvarint",
	"(*github.com/bandprotocol/chain/v3/app.BandApp).AppCodec",
	"(*github.com/cometbft/cometbft/abci/types.ResponseQuery).",
	"(github.com/cosmos/cosmos-sdk/types.Context).VoteInfos",
	"github.com/cosmos/cosmos-sdk/types.VerifyAddressFormat", "github.com/cosmos/cosmos-sdk/types.ValidateDenom",
	"(github.com/ethereum/go-ethereum/accounts/abi.Arguments).Pack",
}

var freshExternPrefixes = []string{
	"(github.com/cosmos/ibc-go/modules/capability/keeper.ScopedKeeper).", "github.com/cosmos/ibc-go/v8/modules/core/24-host.", "github.com/cosmos/ibc-go/v8/modules/core/02-client/types.NewHeight",
	"(github.com/cosmos/ibc-go/v8/modules/core/05-port/types.ICS4Wrapper).",
	"time.Now", "time.Sleep", "time.Since",
	"(github.com/cosmos/cosmos-sdk/crypto/keyring.Keyring).", "(github.com/cosmos/cosmos-sdk/crypto/keyring.Signer).",
	"(github.com/cosmos/cosmos-sdk/crypto/types.PubKey).",
	"(*cosmossdk.io/errors.Error).ABCICode", "(cosmossdk.io/errors.Error).ABCICode",
	"(github.com/cometbft/cometbft/rpc/client.ABCIClient).", "(github.com/cometbft/cometbft/rpc/client.Client).",
	"context.Background", "context.WithTimeout",
}

func isFreshExtern(name string) bool {
	for _, p := range freshExternPrefixes {
		if strings.HasPrefix(name, p) {
			return true
		}
	}
	return false
}

func isPureExtern(name string) bool {
	for _, p := range pureExternPrefixes {
		if strings.HasPrefix(name, p) {
			return true
		}
	}
	return false
}

// pureExternCall models a call to an external function as an application of an uninterpreted,
// total, side-effect-free function of its arguments (one symbol per result). Listed as an
// assumption in the evidence.
func (fc *FCtx) pureExternCall(name string, fn *types.Func, e *ast.CallExpr, recvExpr ast.Expr, st *State) []Val {
	sig := fn.Type().(*types.Signature)
	var args []Val
	if recvExpr != nil {
		args = append(args, fc.evalRecvExpr(recvExpr, st))
	}
	for _, a := range e.Args {
		args = append(args, fc.eval(a, st))
	}
	if e.Ellipsis.IsValid() || sig.Variadic() && len(e.Args) != sig.Params().Len() {
		// variadic call: arity varies per site; symbol name carries the arity
	}
	var sorts []*Sort
	var ts []string
	for _, a := range args {
		if strings.HasPrefix(a.T, "@") {
			oos("handle passed to external function %s", name)
		}
		// an argument whose term contains an if-then-else (tdiv/tmod/abs/min/max expand to one) is named by a fresh
		// constant: applications of uninterpreted functions are used as quantifier triggers, and `ite` is not
		// allowed inside a trigger
		if a.S.Kind == KInt && (strings.Contains(a.T, "(ite ") || strings.Contains(a.T, "(tdiv ") || strings.Contains(a.T, "(tmod ") || strings.Contains(a.T, "(iabs ") || strings.Contains(a.T, "(imax ") || strings.Contains(a.T, "(imin ")) {
			c := fc.U.Fresh("arg", a.S)
			st.assume(fmt.Sprintf("(= %s %s)", c, a.T))
			a.T = c
		}
		sorts = append(sorts, a.S)
		ts = append(ts, a.T)
	}
	fc.assumed["external function modelled as uninterpreted total function: "+name] = true
	var res []Val
	for i := 0; i < sig.Results().Len(); i++ {
		rt := sig.Results().At(i).Type()
		s := fc.U.SortOf(rt)
		fname := extFnName(name, sorts, i)
		fc.U.Fun(fname, sorts, s)
		v := Val{T: app(fname, ts...), S: s, GoT: rt}
		st.assume(fc.U.WF(v))
		res = append(res, v)
	}
	return res
}

func isFmtArgs(name string) bool {
	return strings.HasSuffix(name, ".Wrapf") || strings.HasSuffix(name, ".Wrap") || name == "fmt.Errorf" || name == "fmt.Sprintf" || name == "errors.New"
}

func isDropSource(name string) bool {
	switch name {
	case "(github.com/cosmos/cosmos-sdk/types.Context).EventManager", "(github.com/cosmos/cosmos-sdk/types.Context).Logger",
		"github.com/cosmos/cosmos-sdk/types.NewEvent", "github.com/cosmos/cosmos-sdk/types.NewAttribute", "(github.com/cosmos/cosmos-sdk/types.Event).AppendAttributes":
		return true
	}
	return false
}

func unparen(e ast.Expr) ast.Expr {
	for {
		p, ok := e.(*ast.ParenExpr)
		if !ok {
			return e
		}
		e = p.X
	}
}

func (fc *FCtx) calleeObj(c *ast.CallExpr) *types.Func {
	info := fc.info()
	switch f := unparen(c.Fun).(type) {
	case *ast.Ident:
		o, _ := info.ObjectOf(f).(*types.Func)
		return o
	case *ast.SelectorExpr:
		o, _ := info.ObjectOf(f.Sel).(*types.Func)
		return o
	case *ast.IndexExpr:
		switch x := f.X.(type) {
		case *ast.Ident:
			o, _ := info.ObjectOf(x).(*types.Func)
			return o
		case *ast.SelectorExpr:
			o, _ := info.ObjectOf(x.Sel).(*types.Func)
			return o
		}
	}
	return nil
}

// funcKey: "pkgpath.Recv.Name" / "pkgpath.Name"
func funcKey(fn *types.Func) string {
	sig := fn.Type().(*types.Signature)
	pkg := ""
	if fn.Pkg() != nil {
		pkg = fn.Pkg().Path()
	}
	if r := sig.Recv(); r != nil {
		t := r.Type()
		if p, ok := t.(*types.Pointer); ok {
			t = p.Elem()
		}
		if n, ok := t.(*types.Named); ok {
			return pkg + "." + n.Obj().Name() + "." + fn.Name()
		}
		if n, ok := t.(*types.Alias); ok {
			return pkg + "." + n.Obj().Name() + "." + fn.Name()
		}
	}
	return pkg + "." + fn.Name()
}

func (fc *FCtx) convert(e *ast.CallExpr, to types.Type, st *State) Val {
	if len(e.Args) != 1 {
		oos("conversion arity")
	}
	x := fc.eval(e.Args[0], st)
	from := fc.info().TypeOf(e.Args[0])
	ts := fc.U.SortOf(to)
	switch {
	case ts.Kind == KInt && x.S.Kind == KInt:
		mn := machineIntName(to)
		if mn == "" {
			return Val{T: x.T, S: SInt, GoT: to}
		}
		fm := machineIntName(from)
		if fm == mn || subRange(fm, mn) {
			return Val{T: x.T, S: SInt, GoT: to}
		}
		if fc.noOverflow && fc.C != nil && fc.C.Flags["nooverflow"] == "strict" {
			fc.oblige(st, "nooverflow", app("in_"+mn, x.T), "conversion to "+mn+" keeps the value", e.Pos())
			return Val{T: x.T, S: SInt, GoT: to}
		}
		return Val{T: app("wrap_"+mn, x.T), S: SInt, GoT: to}
	case ts.Name == "F64" && x.S.Kind == KInt:
		return fc.intToFloat(x, from)
	case ts.Kind == KInt && x.S.Name == "F64":
		return fc.floatToInt(x, to, st)
	case ts == x.S:
		return Val{T: x.T, S: ts, GoT: to}
	case isBz(ts) && x.S.Kind == KStr, ts.Kind == KStr && isBz(x.S):
		fn := "conv_" + sanitize(x.S.Name) + "_" + sanitize(ts.Name)
		inv := "conv_" + sanitize(ts.Name) + "_" + sanitize(x.S.Name)
		fc.U.Fun(fn, []*Sort{x.S}, ts)
		fc.U.Fun(inv, []*Sort{ts}, x.S)
		r := Val{T: app(fn, x.T), S: ts, GoT: to}
		if isBz(ts) {
			st.assume(fmt.Sprintf("(and (= (bz_len %s) (str_len %s)) (not (= %s bz_nil)) (= (%s %s) %s))", r.T, x.T, r.T, inv, r.T, x.T))
			// the bytes of a (short) string constant are known
			if lit, ok := fc.U.strLitContent(x.T); ok && len(lit) <= 64 {
				for i := 0; i < len(lit); i++ {
					st.assume(fmt.Sprintf("(= (bz_at %s %d) %d)", r.T, i, lit[i]))
				}
			}
		} else {
			st.assume(fmt.Sprintf("(and (= (str_len %s) (bz_len %s)) (=> (not (= %s bz_nil)) (= (%s %s) %s)))", r.T, x.T, x.T, inv, r.T, x.T))
		}
		return r
	case ts.Kind == KSlice && x.S.Kind == KStr, ts.Kind == KStr && x.S.Kind == KSlice:
		fn := "conv_" + sanitize(x.S.Name) + "_" + sanitize(ts.Name)
		fc.U.Fun(fn, []*Sort{x.S}, ts)
		r := Val{T: app(fn, x.T), S: ts, GoT: to}
		if ts.Kind == KSlice {
			st.assume(fmt.Sprintf("(and (= %s (str_len %s)) (<= %s %s))", slLen(r), x.T, slLen(r), slCap(r)))
			st.assume(fc.U.WF(r))
		} else {
			st.assume(fmt.Sprintf("(= (str_len %s) %s)", r.T, slLen(x)))
		}
		return r
	case ts.Kind == KOpaque || x.S.Kind == KOpaque:
		fn := "conv_" + sanitize(x.S.Name) + "_" + sanitize(ts.Name)
		fc.U.Fun(fn, []*Sort{x.S}, ts)
		return Val{T: app(fn, x.T), S: ts, GoT: to}
	}
	oos("conversion %s -> %s", typeString(from), typeString(to))
	return Val{}
}

func subRange(from, to string) bool {
	if from == "" {
		return false
	}
	w := map[string]int{"int8": 8, "int16": 16, "int32": 32, "int64": 64, "uint8": 8, "uint16": 16, "uint32": 32, "uint64": 64}
	fs, ts := !strings.HasPrefix(from, "u"), !strings.HasPrefix(to, "u")
	switch {
	case fs == ts:
		return w[from] <= w[to]
	case !fs && ts:
		return w[from] < w[to]
	}
	return false
}

func (fc *FCtx) evalBuiltin(name string, e *ast.CallExpr, st *State) []Val {
	intT := types.Typ[types.Int]
	switch name {
	case "len", "cap":
		x := fc.eval(e.Args[0], st)
		switch x.S.Kind {
		case KSlice:
			if name == "len" {
				return []Val{{T: slLen(x), S: SInt, GoT: intT}}
			}
			return []Val{{T: slCap(x), S: SInt, GoT: intT}}
		case KStr:
			return []Val{{T: app("str_len", x.T), S: SInt, GoT: intT}}
		case KOpaque:
			if isBz(x.S) {
				return []Val{{T: app("bz_"+name, x.T), S: SInt, GoT: intT}}
			}
			if x.S.Name == "Addr" && name == "len" {
				// addresses are opaque; their byte length is an uninterpreted attribute (0..255)
				fc.U.Fun("addr_len", []*Sort{x.S}, SInt)
				st.assume(fmt.Sprintf("(and (<= 0 (addr_len %s)) (<= (addr_len %s) 255))", x.T, x.T))
				return []Val{{T: app("addr_len", x.T), S: SInt, GoT: intT}}
			}
			oos("len of %s", x.S.Name)
		case KMap:
			fn := fc.mapCard(x.S)
			// len of a Go map value is an int (stated for this program value only, not as an axiom about all map terms)
			st.assume(fmt.Sprintf("(and (>= %s 0) (<= %s 9223372036854775807))", app(fn, x.T), app(fn, x.T)))
			return []Val{{T: app(fn, x.T), S: SInt, GoT: intT}}
		}
		oos("len of %s", x.S.Name)
	case "append":
		return []Val{fc.evalAppend(e, st)}
	case "make":
		t := fc.info().TypeOf(e)
		s := fc.U.SortOf(t)
		switch s.Kind {
		case KSlice:
			n := fc.eval(e.Args[1], st)
			c := n
			if len(e.Args) > 2 {
				c = fc.eval(e.Args[2], st)
			}
			fc.panicCheck(st, "make-len", fmt.Sprintf("(and (<= 0 %s) (<= %s %s) (<= %s 9223372036854775807))", n.T, n.T, c.T, c.T), e.Pos()) // makeslice: len/cap out of range
			et := elemType(t)
			return []Val{{T: mkSlice(s, n.T, c.T, fc.constArray("Int", s.Elem, fc.zeroTerm(s.Elem, et))), S: s, GoT: t}}
		case KMap:
			for _, a := range e.Args[1:] {
				fc.eval(a, st)
			}
			return []Val{fc.zeroVal(t)}
		case KOpaque:
			if isBz(s) {
				n := fc.eval(e.Args[1], st)
				c := n
				if len(e.Args) > 2 {
					c = fc.eval(e.Args[2], st)
				}
				fc.panicCheck(st, "make-len", fmt.Sprintf("(and (<= 0 %s) (<= %s %s) (<= %s 9223372036854775807))", n.T, n.T, c.T, c.T), e.Pos()) // makeslice: len/cap out of range
				b := fc.U.Fresh("mk", s)
				fc.U.fresh++
				iv := fmt.Sprintf("mi%d", fc.U.fresh)
				st.assume(fmt.Sprintf("(and (= (bz_len %s) %s) (= (bz_cap %s) %s) (not (= %s bz_nil)) (forall ((%s Int)) (! (= (bz_at %s %s) 0) :pattern ((bz_at %s %s)))))", b, n.T, b, c.T, b, iv, b, iv, b, iv))
				return []Val{{T: b, S: s, GoT: t}}
			}
			return []Val{{T: fc.U.Fresh("chan", s), S: s, GoT: t}}
		}
		oos("make of %s", s.Name)
	case "new":
		t := fc.info().TypeOf(e)
		return []Val{fc.zeroVal(t.Underlying().(*types.Pointer).Elem())}
	case "min", "max":
		f := "imin"
		if name == "max" {
			f = "imax"
		}
		acc := fc.eval(e.Args[0], st)
		if acc.S.Kind != KInt {
			oos("min/max on %s", acc.S.Name)
		}
		for _, a := range e.Args[1:] {
			v := fc.eval(a, st)
			acc = Val{T: app(f, acc.T, v.T), S: SInt, GoT: fc.info().TypeOf(e)}
		}
		acc.GoT = fc.info().TypeOf(e)
		return []Val{acc}
	case "delete":
		m := fc.eval(e.Args[0], st)
		k := fc.eval(e.Args[1], st)
		nm := Val{T: app("mk_"+m.S.Name, fmt.Sprintf("(store %s %s false)", mpDom(m), k.T), mpVal(m)), S: m.S, GoT: m.GoT}
		fc.assignTo(e.Args[0], nm, st)
		return nil
	case "panic":
		if !fc.mayPanic {
			fc.oblige(st, "panic-free:panic", "false", "explicit panic is unreachable", e.Pos())
		}
		if fc.recoverLit != nil && !fc.inRecover {
			fc.panicStates = append(fc.panicStates, st.clone())
		}
		fc.kill(st)
		return nil
	case "recover":
		s := fc.U.opaque("I_any")
		fn := "isnil_" + s.Name
		fc.U.Fun(fn, []*Sort{s}, SBool)
		v := Val{T: fc.U.Fresh("recovered", s), S: s, GoT: fc.info().TypeOf(e)}
		if fc.inRecover {
			st.assume(not(app(fn, v.T)))
		} else {
			st.assume(app(fn, v.T))
		}
		return []Val{v}
	case "copy":
		return []Val{fc.evalCopy(e, st)}
	}
	oos("builtin %s", name)
	return nil
}

func (fc *FCtx) evalAppend(e *ast.CallExpr, st *State) Val {
	s := fc.eval(e.Args[0], st)
	t := fc.info().TypeOf(e)
	rs := fc.U.SortOf(t)
	// Aliasing hazard that the value model of slices cannot see by itself: append to a slice that is SHARED - a variable
	// captured by the function literal under verification, or a package-level variable - writes into the shared
	// backing array whenever the slice has spare capacity, so every call of the closure would overwrite what the
	// previous call returned. Obligation: such a slice is full (len == cap) when appended to.
	if id, ok := unparen(e.Args[0]).(*ast.Ident); ok && len(fc.frames) == 1 {
		if v, isVar := fc.info().ObjectOf(id).(*types.Var); isVar && !v.IsField() {
			shared := v.Pkg() != nil && v.Parent() == v.Pkg().Scope()
			if lit := fc.FI.Lit; lit != nil && (v.Pos() < lit.Pos() || v.Pos() > lit.End()) {
				shared = true
			}
			if fc.appendSelf == e {
				shared = false
			}
			// (the obligation exists for every append to a named slice - trivially true when the slice is not shared - so
			// that it has a ledger entry and a change that makes the slice shared is a failing, previously proved obligation)
			goal := "true"
			if shared && isBz(s.S) {
				goal = fmt.Sprintf("(= (bz_len %s) (bz_cap %s))", s.T, s.T)
			} else if shared && s.S.Kind == KSlice {
				goal = fmt.Sprintf("(= %s %s)", slLen(s), slCap(s))
			}
			if fc.FI.Lit != nil {
				fc.oblige(st, "append-shared-capacity", goal, "append to the slice "+id.Name+" must not write into spare capacity of a slice shared between calls", e.Pos())
			}
		}
	}
	if isBz(rs) {
		if !isBz(s.S) {
			s = Val{T: "bz_nil", S: rs, GoT: t}
		}
		if e.Ellipsis.IsValid() {
			o := fc.eval(e.Args[1], st)
			if !isBz(o.S) {
				o = Val{T: fc.toBz(o), S: rs}
			}
			return Val{T: fmt.Sprintf("(bz_cat %s %s)", s.T, o.T), S: rs, GoT: t}
		}
		cur := s
		for _, a := range e.Args[1:] {
			v := fc.eval(a, st)
			cur = Val{T: fmt.Sprintf("(bz_snoc %s %s)", cur.T, v.T), S: rs, GoT: t}
		}
		return cur
	}
	if s.S != rs {
		s = fc.zeroVal(t) // append(nil, ...)
	}
	if e.Ellipsis.IsValid() {
		o := fc.eval(e.Args[1], st)
		if o.S != rs {
			oos("append(s, x...) with different sorts")
		}
		arr := fc.U.Fresh("app", &Sort{Name: fmt.Sprintf("(Array Int %s)", rs.Elem.Name)})
		fc.U.fresh++
		iv := fmt.Sprintf("ai%d", fc.U.fresh)
		st.assume(fmt.Sprintf("(forall ((%s Int)) (! (=> (and (<= 0 %s) (< %s %s)) (= (select %s %s) (select %s %s))) :pattern ((select %s %s))))", iv, iv, iv, slLen(s), arr, iv, slEl(s), iv, arr, iv))
		st.assume(fmt.Sprintf("(forall ((%s Int)) (! (=> (and (<= 0 %s) (< %s %s)) (= (select %s (+ %s %s)) (select %s %s))) :pattern ((select %s %s))))", iv, iv, iv, slLen(o), arr, slLen(s), iv, slEl(o), iv, slEl(o), iv))
		// the same fact indexed from the result side (so that mentioning result[k] instantiates it)
		st.assume(fmt.Sprintf("(forall ((%s Int)) (! (=> (and (<= %s %s) (< %s (+ %s %s))) (= (select %s %s) (select %s (- %s %s)))) :pattern ((select %s %s))))", iv, slLen(s), iv, iv, slLen(s), slLen(o), arr, iv, slEl(o), iv, slLen(s), arr, iv))
		nl := app("+", slLen(s), slLen(o))
		nc := fc.U.Fresh("cap", SInt)
		st.assume(fmt.Sprintf("(and (>= %s %s) (<= %s 9223372036854775807))", nc, nl, nc))
		return Val{T: mkSlice(rs, nl, nc, arr), S: rs, GoT: t}
	}
	cur := s
	et := elemType(t)
	for _, a := range e.Args[1:] {
		v := fc.coerce(fc.eval(a, st), et)
		nl := app("+", slLen(cur), "1")
		nc := fc.U.Fresh("cap", SInt)
		st.assume(fmt.Sprintf("(and (>= %s %s) (<= %s 9223372036854775807) (=> (< %s %s) (= %s %s)))", nc, nl, nc, slLen(cur), slCap(cur), nc, slCap(cur)))
		cur = Val{T: mkSlice(rs, nl, nc, fmt.Sprintf("(store %s %s %s)", slEl(cur), slLen(cur), v.T)), S: rs, GoT: t}
	}
	return cur
}

// ---------------------------------------------------------------------------------------------
// Calls by contract (modular) and inlining
// ---------------------------------------------------------------------------------------------

func paramNames(sig *types.Signature, c *FuncContract) []string {
	var ns []string
	for i := 0; i < sig.Params().Len(); i++ {
		n := sig.Params().At(i).Name()
		if (n == "" || n == "_") && c != nil && i < len(c.Params) {
			n = c.Params[i]
		}
		if n == "" {
			n = fmt.Sprintf("arg%d", i)
		}
		ns = append(ns, n)
	}
	if c != nil && c.Extern && len(c.Params) == sig.Params().Len() {
		return c.Params
	}
	return ns
}

func resultNames(sig *types.Signature, c *FuncContract) []string {
	var ns []string
	n := sig.Results().Len()
	if c != nil && c.Extern && len(c.Results) == n && n > 0 {
		return c.Results
	}
	for i := 0; i < n; i++ {
		r := sig.Results().At(i)
		nm := r.Name()
		if nm == "" || nm == "_" {
			switch {
			case isErrorType(r.Type()) && i == n-1:
				nm = "err"
			case n == 1 || (n == 2 && i == 0 && isErrorType(sig.Results().At(1).Type())):
				nm = "result"
			default:
				nm = fmt.Sprintf("result%d", i)
			}
			// a parameter that is itself called "result" keeps the name; the unnamed result is then "ret"
			for j := 0; j < sig.Params().Len(); j++ {
				if sig.Params().At(j).Name() == nm {
					nm = "ret"
				}
			}
		}
		ns = append(ns, nm)
	}
	return ns
}

func (fc *FCtx) callByContract(c *FuncContract, fn *types.Func, sig *types.Signature, e *ast.CallExpr, recvExpr ast.Expr, st *State) []Val {
	names := map[string]Val{}
	type outParam struct {
		name string
		expr ast.Expr
		t    types.Type
	}
	var outs []outParam
	if recvExpr != nil && sig.Recv() != nil {
		rv := fc.evalRecvExpr(recvExpr, st)
		rname := sig.Recv().Name()
		if rname == "" || rname == "_" {
			rname = c.RecvName
		}
		names[rname] = rv
		if _, isPtr := sig.Recv().Type().(*types.Pointer); isPtr && fc.implicitRecv[recvExpr] == nil {
			outs = append(outs, outParam{sig.Recv().Name(), recvExpr, sig.Recv().Type()})
		} else if fc.implicitRecv[recvExpr] == nil {
			// a receiver of interface type that the contract lists in `modifies`: the object behind the interface value
			// changes; the variable holding it is rebound to a fresh value that the ensures clauses relate to the old one
			// through abstract (uninterpreted) view functions
			for _, m := range c.Modifies {
				if m == rname {
					outs = append(outs, outParam{rname, recvExpr, fc.info().TypeOf(recvExpr)})
				}
			}
		}
	}
	pn := paramNames(sig, c)
	if sig.Variadic() && !e.Ellipsis.IsValid() {
		// f(xs...) passes the slice itself, which is what the variadic parameter is inside the callee
		oos("variadic call by contract to %s", fn.FullName())
	}
	if len(e.Args) != len(pn) {
		oos("argument count mismatch calling %s", fn.FullName())
	}
	var litArgs []*ast.FuncLit
	for i, a := range e.Args {
		pt := sig.Params().At(i).Type()
		if lit, isLit := unparen(a).(*ast.FuncLit); isLit {
			litArgs = append(litArgs, lit)
			names[pn[i]] = Val{T: "@funclit", S: fc.U.opaque("Func")}
			continue
		}
		// a pointer to a struct passed where the callee takes an interface (an environment object the callee fills in):
		// the contract sees the struct itself under the parameter's name, and may list it in `modifies`
		if _, isIface := pt.Underlying().(*types.Interface); isIface {
			if at := fc.info().TypeOf(a); at != nil {
				if ap, ok := at.Underlying().(*types.Pointer); ok {
					if _, isStruct := ap.Elem().Underlying().(*types.Struct); isStruct {
						names[pn[i]] = fc.eval(a, st)
						outs = append(outs, outParam{pn[i], a, at})
						continue
					}
				}
			}
		}
		v := fc.eval(a, st)
		v = fc.coerce(v, pt)
		names[pn[i]] = v
		if _, isPtr := pt.(*types.Pointer); isPtr {
			outs = append(outs, outParam{pn[i], a, pt})
		}
	}
	// closures passed to the callee: their `maintains` clauses must hold now ...
	type litInfo struct {
		fi *FuncInfo
		c  *FuncContract
	}
	var lits []litInfo
	for _, lit := range litArgs {
		var lfi *FuncInfo
		for _, cand := range fc.E.funcs {
			if cand.Lit == lit {
				lfi = cand
			}
		}
		if lfi == nil {
			oos("function literal argument not indexed")
		}
		lc := fc.E.cs.Funcs[lfi.Key]
		if lc == nil {
			lc = &FuncContract{Key: lfi.Key}
		}
		lits = append(lits, litInfo{lfi, lc})
		for i, m := range lc.Maintains {
			env := fc.newEnv(st, fc.entry, lit.Body.Lbrace+1)
			fc.oblige(st, "closure-maintains@"+shortKey(lfi.Key), fc.specBool(m.Expr, env), fmt.Sprintf("maintains[%d] of %s holds before the call: %s", i, lfi.Key, m.Src), e.Pos())
		}
	}
	gsuf := ""
	bestLen := 0
	for _, v := range names {
		if v.S == nil || v.S.Kind != KOpaque {
			continue
		}
		for ct, suf := range fc.ctxSuffixOf {
			if len(ct) > bestLen && strings.Contains(v.T, ct) {
				gsuf, bestLen = suf, len(ct)
			}
		}
	}
	// make sure the callee module's store ghost exists under that suffix
	if gsuf != "" {
		for _, g := range fc.ghostNames(st) {
			if isStoreGhost(g) && !strings.Contains(g, "@") {
				if _, ok := st.ghost[g+gsuf]; !ok {
					st.ghost[g+gsuf] = st.ghost[g]
				}
			}
		}
	}
	pre := st.clone()
	// requires
	for i, r := range c.Requires {
		env := &Env{fc: fc, st: st, old: pre, names: names, pkg: fc.E.pkgOfContract(c), gsuf: gsuf}
		t := fc.specBool(r.Expr, env)
		if len(fc.frames) == 1 && fc.C != nil && fc.C.Flags["forwards"] != "" && fn.Name() == fc.C.Flags["forwards"] {
			// a `forwards` wrapper inherits the precondition of the function it forwards to (it is that function's
			// entry point for the SDK; the precondition is about the state at that moment)
			fc.assumed["precondition of "+c.Key+" inherited by its forwarding wrapper "+fc.FI.Key] = true
			st.assume(t)
			continue
		}
		fc.oblige(st, "call-pre@"+shortKey(c.Key), t, fmt.Sprintf("requires[%d] of %s: %s", i, c.Key, r.Src), e.Pos())
		// once it has been shown (its own obligation) the precondition is a fact on this path
		st.assume(t)
	}
	if c.Extern || c.Flags["trusted"] != "" {
		fc.assumed[c.Key] = true
	}
	if c.Flags["may_panic"] != "" && !fc.mayPanic {
		fc.oblige(st, "panic-free:callee", "false", "callee "+c.Key+" may panic", e.Pos())
	}
	// `//@ counts <param>`: call-history ghost. Every call (or `go`) of this function adds one to the entry of the map
	// ghost Count_<function name> under the value of the named integer parameter - bookkeeping at the call site, so a
	// caller's contract can say how many handlers were started for which id.
	if pname := c.Flags["counts"]; pname == "*" {
		// `//@ counts *`: a plain call counter (ghost Count_<function name> of sort Int)
		gname := "Count_" + fn.Name()
		if g, ok := st.ghost[gname+gsufOf(gsuf)]; ok && g.S.Kind == KInt {
			st.ghost[gname+gsufOf(gsuf)] = Val{T: fmt.Sprintf("(+ %s 1)", g.T), S: SInt, GoT: g.GoT}
		} else {
			oos("counts *: ghost %s (an Int) is not declared", gname)
		}
	} else if pname != "" {
		gname := "Count_" + fn.Name()
		if g, ok := st.ghost[gname+gsufOf(gsuf)]; ok && g.S.Kind == KMap {
			kv, okk := names[pname]
			if !okk || kv.S.Kind != KInt {
				oos("counts: parameter %s of %s is not an integer parameter", pname, c.Key)
			}
			nv := Val{T: app("mk_"+g.S.Name, fmt.Sprintf("(store %s %s true)", mpDom(g), kv.T), fmt.Sprintf("(store %s %s (+ (select %s %s) 1))", mpVal(g), kv.T, mpVal(g), kv.T)), S: g.S, GoT: g.GoT}
			st.ghost[gname+gsufOf(gsuf)] = nv
		} else {
			oos("counts: ghost %s (a map from the parameter to a count) is not declared", gname)
		}
	}
	// havoc frame
	modAll := false
	for _, m := range c.Modifies {
		if m == "*" {
			modAll = true
		}
	}
	post := map[string]Val{}
	for k, v := range names {
		post[k] = v
	}
	for _, m := range c.Modifies {
		if g, ok := st.ghost[m+gsuf]; ok {
			st.ghost[m+gsuf] = Val{T: fc.U.Fresh("g_"+m, g.S), S: g.S, GoT: g.GoT}
			continue
		}
		for _, o := range outs {
			if o.name == m {
				ov := names[m]
				nv := Val{T: fc.U.Fresh(m, ov.S), S: ov.S, GoT: ov.GoT}
				st.assume(fc.U.WF(nv))
				post[m] = nv
				fc.assignOut(o.expr, nv, st)
			}
		}
	}
	if modAll {
		for _, g := range fc.ghostNames(st) {
			gv := st.ghost[g]
			st.ghost[g] = Val{T: fc.U.Fresh("g_"+g, gv.S), S: gv.S, GoT: gv.GoT}
		}
	}
	if c.Flags["may_panic"] != "" && fc.recoverLit != nil && !fc.inRecover {
		// the callee may panic after any part of its effect: its frame is already arbitrary here, its ensures are not assumed
		fc.panicStates = append(fc.panicStates, st.clone())
	}
	// results
	rn := resultNames(sig, c)
	var res []Val
	for i := 0; i < sig.Results().Len(); i++ {
		rt := sig.Results().At(i).Type()
		s := fc.U.SortOf(rt)
		v := Val{T: fc.U.Fresh("r_"+fn.Name(), s), S: s, GoT: rt}
		if c.Flags["pure"] != "" && (sig.Results().Len() > 1 || sig.Recv() != nil) && len(c.Modifies) == 0 && len(litArgs) == 0 {
			// multi-result pure function / pure method: result i is the symbol absfn("F#i", [recv,] args) of the spec language
			var sorts []*Sort
			var ts []string
			if sig.Recv() != nil && recvExpr != nil {
				rname := sig.Recv().Name()
				if rname == "" || rname == "_" {
					rname = c.RecvName
				}
				sorts = append(sorts, names[rname].S)
				ts = append(ts, names[rname].T)
			}
			for _, p := range pn {
				sorts = append(sorts, names[p].S)
				ts = append(ts, names[p].T)
			}
			fname := extFnName(fn.FullName(), sorts, i)
			fc.U.Fun(fname, sorts, s)
			v.T = app(fname, ts...)
		}
		if c.Flags["pure"] != "" && sig.Results().Len() == 1 && sig.Recv() == nil && len(c.Modifies) == 0 && len(litArgs) == 0 {
			// a pure function is a function of its arguments: the same symbol that `F(args)` denotes in specs
			var sorts []*Sort
			var ts []string
			for _, p := range pn {
				sorts = append(sorts, names[p].S)
				ts = append(ts, names[p].T)
			}
			fname := "pure_" + sanitize(shortPkg(fn.Pkg().Path()+"."+fn.Name()))
			fc.U.Fun(fname, sorts, s)
			v.T = app(fname, ts...)
		}
		st.assume(fc.U.WF(v))
		post[rn[i]] = v
		res = append(res, v)
	}
	for _, en := range c.Ensures {
		env := &Env{fc: fc, st: st, old: pre, names: post, oldNames: names, pkg: fc.E.pkgOfContract(c), gsuf: gsuf}
		st.assume(fc.specBool(en.Expr, env))
	}
	// `names` clauses: the result of a deterministic function is a function of its inputs; giving that function a name
	// (an uninterpreted spec function applied to the inputs) is conservative. Assumed here, never checked in the body.
	for _, en := range c.Names {
		env := &Env{fc: fc, st: st, old: pre, names: post, oldNames: names, pkg: fc.E.pkgOfContract(c), gsuf: gsuf}
		st.assume(fc.specBool(en.Expr, env))
		fc.assumed["result of "+c.Key+" named by an uninterpreted function of its inputs (the function is deterministic): "+en.Src] = true
	}
	// ... and still hold afterwards, whatever number of times the callee ran them: the variables they
	// assign are havocked, then the clauses are assumed
	for _, li := range lits {
		lv := fc.modifiedIn(li.fi.Lit.Body)
		lv.ghost = false
		fc.havoc(st, lv)
		for _, m := range li.c.Maintains {
			env := fc.newEnv(st, fc.entry, li.fi.Lit.Body.Lbrace+1)
			st.assume(fc.specBool(m.Expr, env))
		}
		fc.assumed["closure "+shortPkg(li.fi.Key)+" is only run by the callee (any number of times); its maintains clauses are verified separately"] = true
	}
	return res
}

func shortKey(k string) string {
	if i := strings.LastIndex(k, "/"); i >= 0 {
		return k[i+1:]
	}
	return k
}

func (fc *FCtx) assignOut(e ast.Expr, v Val, st *State) {
	e = unparen(e)
	if u, ok := e.(*ast.UnaryExpr); ok && u.Op == token.AND {
		fc.assignTo(u.X, v, st)
		return
	}
	switch e.(type) {
	case *ast.Ident, *ast.SelectorExpr, *ast.IndexExpr, *ast.StarExpr:
		fc.assignTo(e, v, st)
		return
	}
	// a temporary: nothing to write back
}

func (fc *FCtx) inlineCall(fi *FuncInfo, e *ast.CallExpr, recvExpr ast.Expr, st *State) []Val {
	for _, k := range fc.inlineStack {
		if k == fi.Key {
			oos("recursive inlining of %s", fi.Key)
		}
	}
	if len(fc.inlineStack) > 6 {
		oos("inlining too deep at %s", fi.Key)
	}
	fc.inlined[fi.Key] = true
	sig := fi.Sig
	fr := &frame{fi: fi, inlined: true}
	// bind receiver & params in caller's state under callee objects
	var ptrOuts []struct {
		obj  types.Object
		expr ast.Expr
	}
	origT := map[types.Object]string{}
	if sig.Recv() != nil && recvExpr != nil {
		rv := fc.evalRecvExpr(recvExpr, st)
		if fi.Recv != nil {
			origT[fi.Recv] = rv.T
			st.vars[fi.Recv] = Val{T: rv.T, S: rv.S, GoT: fi.Recv.Type()}
			if _, isPtr := fi.Recv.Type().(*types.Pointer); isPtr {
				ptrOuts = append(ptrOuts, struct {
					obj  types.Object
					expr ast.Expr
				}{fi.Recv, recvExpr})
			}
		}
	}
	if sig.Variadic() {
		oos("variadic inline %s", fi.Key)
	}
	for i, a := range e.Args {
		p := sig.Params().At(i)
		v := fc.coerce(fc.eval(a, st), p.Type())
		st.vars[p] = v
		origT[p] = v.T
		if _, isPtr := p.Type().(*types.Pointer); isPtr {
			ptrOuts = append(ptrOuts, struct {
				obj  types.Object
				expr ast.Expr
			}{p, a})
		}
	}
	for i := 0; i < sig.Results().Len(); i++ {
		r := sig.Results().At(i)
		fr.results = append(fr.results, r)
		if r.Name() != "" && r.Name() != "_" {
			st.vars[r] = fc.zeroVal(r.Type())
		}
	}
	fc.frames = append(fc.frames, fr)
	fc.inlineStack = append(fc.inlineStack, fi.Key)
	fc.inlineCallPos = append(fc.inlineCallPos, e.Pos())
	flow := fc.execBlock(fi.Body().List, st)
	fc.inlineCallPos = fc.inlineCallPos[:len(fc.inlineCallPos)-1]
	if len(flow.normal) > 0 && sig.Results().Len() == 0 {
		for _, s := range flow.normal {
			fr.returns = append(fr.returns, &retState{st: s})
		}
	} else if len(flow.normal) > 0 {
		// falling off the end of a function with results: only legal if unreachable
		for _, s := range flow.normal {
			if !fc.isDead(s) {
				var vals []Val
				for _, r := range fr.results {
					vals = append(vals, s.vars[r])
				}
				fr.returns = append(fr.returns, &retState{st: s, vals: vals})
			}
		}
	}
	fc.inlineStack = fc.inlineStack[:len(fc.inlineStack)-1]
	fc.frames = fc.frames[:len(fc.frames)-1]
	if len(fr.returns) == 0 {
		fc.kill(st)
		var res []Val
		for i := 0; i < sig.Results().Len(); i++ {
			res = append(res, fc.zeroVal(sig.Results().At(i).Type()))
		}
		return res
	}
	// merge return states into the caller's state (in place)
	var sts []*State
	for _, r := range fr.returns {
		sts = append(sts, r.st)
	}
	var res []Val
	if len(fr.returns) == 1 {
		res = fr.returns[0].vals
	} else {
		k := commonPrefix(sts)
		for i := 0; i < sig.Results().Len(); i++ {
			rt := sig.Results().At(i).Type()
			s := fc.U.SortOf(rt)
			anyBz := false
			for _, r := range fr.returns {
				if r.vals[i].S != nil && r.vals[i].S.Name == "Bz" {
					anyBz = true
				}
			}
			if anyBz {
				s = fc.U.BzSort()
				for _, r := range fr.returns {
					r.vals[i] = fc.asBz(r.vals[i])
				}
			}
			same := true
			for _, r := range fr.returns[1:] {
				if r.vals[i].T != fr.returns[0].vals[i].T {
					same = false
				}
			}
			if same {
				res = append(res, fr.returns[0].vals[i])
				continue
			}
			n := fc.U.Fresh("ret_"+fi.shortName(), s)
			for _, r := range fr.returns {
				r.st.assume(implies(and(r.st.pc[k:]...), fmt.Sprintf("(= %s %s)", n, r.vals[i].T)))
			}
			res = append(res, Val{T: n, S: s, GoT: rt})
		}
	}
	m := fc.merge(sts)
	// write back pointer params
	*st = *m
	for _, po := range ptrOuts {
		if v, ok := st.vars[po.obj]; ok && v.T != origT[po.obj] {
			fc.assignOut(po.expr, v, st)
		}
	}
	return res
}

// evalRecvExpr evaluates a method receiver, following the implicit embedded-field path of promoted
// methods (e.g. msgServer{*Keeper}: k.GetParams(ctx) has receiver k.Keeper).
func (fc *FCtx) evalRecvExpr(recvExpr ast.Expr, st *State) Val {
	v := fc.eval(recvExpr, st)
	sel := fc.implicitRecv[recvExpr]
	if sel == nil {
		return v
	}
	bt := sel.Recv()
	path := sel.Index()
	for _, idx := range path[:len(path)-1] {
		if p, ok := bt.Underlying().(*types.Pointer); ok {
			bt = p.Elem()
		}
		stt, ok := bt.Underlying().(*types.Struct)
		if !ok || v.S.Kind != KData {
			oos("promoted method receiver through non-struct")
		}
		f := stt.Field(idx)
		nv, ok := fieldSel(v, f.Name())
		if !ok {
			oos("embedded field %s", f.Name())
		}
		nv.GoT = f.Type()
		v = nv
		bt = f.Type()
	}
	return v
}

// evalDroppedArgs evaluates the arguments of a dropped (log/event/telemetry) call, because Go evaluates
// them before the call and they can panic (index, slice, nil dereference). Sub-expressions outside the
// subset are skipped.
func (fc *FCtx) evalDroppedArgs(e *ast.CallExpr, st *State) {
	for _, a := range e.Args {
		func() {
			nf, ni, ng := len(fc.frames), len(fc.inlineStack), len(fc.guards)
			defer func() {
				if r := recover(); r != nil {
					if _, ok := r.(OutOfSubset); ok {
						fc.frames, fc.inlineStack, fc.guards = fc.frames[:nf], fc.inlineStack[:ni], fc.guards[:ng]
						return
					}
					panic(r)
				}
			}()
			fc.evalMulti(a, st)
		}()
	}
}

func extFnName(name string, sorts []*Sort, resultIdx int) string {
	fname := fmt.Sprintf("ext_%s_%d_r%d", sanitize(name), len(sorts), resultIdx)
	var sn []string
	for _, so := range sorts {
		sn = append(sn, sanitize(so.Name))
	}
	fname += "_" + strings.Join(sn, "_")
	if len(fname) > 200 {
		fname = fname[:200]
	}
	return fname
}

// short aliases usable in specs through ext("Alias", args...)
var extAliases = map[string]struct {
	full string
	ret  string // "Int", "Bool", "Str", or a Go type expression resolved in the spec's package
}{
	"Coins.AmountOf":                      {"(github.com/cosmos/cosmos-sdk/types.Coins).AmountOf", "Int"},
	"Coins.IsZero":                        {"(github.com/cosmos/cosmos-sdk/types.Coins).IsZero", "Bool"},
	"Coins.IsValid":                       {"(github.com/cosmos/cosmos-sdk/types.Coins).IsValid", "Bool"},
	"Coins.IsAllGTE":                      {"(github.com/cosmos/cosmos-sdk/types.Coins).IsAllGTE", "Bool"},
	"Coins.IsAllGT":                       {"(github.com/cosmos/cosmos-sdk/types.Coins).IsAllGT", "Bool"},
	"Coins.MulInt":                        {"(github.com/cosmos/cosmos-sdk/types.Coins).MulInt", "sdk.Coins"},
	"Coins.Add":                           {"(github.com/cosmos/cosmos-sdk/types.Coins).Add", "sdk.Coins"},
	"Coins.Sub":                           {"(github.com/cosmos/cosmos-sdk/types.Coins).Sub", "sdk.Coins"},
	"Coins.IsAnyGT":                       {"(github.com/cosmos/cosmos-sdk/types.Coins).IsAnyGT", "Bool"},
	"Coins.SafeSub":                       {"(github.com/cosmos/cosmos-sdk/types.Coins).SafeSub", "sdk.Coins"},
	"Coins.SafeSub#1":                     {"(github.com/cosmos/cosmos-sdk/types.Coins).SafeSub", "Bool"},
	"Coins.Equal":                         {"(github.com/cosmos/cosmos-sdk/types.Coins).Equal", "Bool"},
	"NewCoins":                            {"github.com/cosmos/cosmos-sdk/types.NewCoins", "sdk.Coins"},
	"DecCoins.TruncateDecimal":            {"(github.com/cosmos/cosmos-sdk/types.DecCoins).TruncateDecimal", "sdk.Coins"},
	"DecCoins.TruncateDecimal#1":          {"(github.com/cosmos/cosmos-sdk/types.DecCoins).TruncateDecimal", "sdk.DecCoins"},
	"DecCoins.MulDecTruncate":             {"(github.com/cosmos/cosmos-sdk/types.DecCoins).MulDecTruncate", "sdk.DecCoins"},
	"DecCoins.AmountOf":                   {"(github.com/cosmos/cosmos-sdk/types.DecCoins).AmountOf", "Int"},
	"Consensus.Marshal":                   {"(*github.com/cometbft/cometbft/proto/tendermint/version.Consensus).Marshal", "Bz"},
	"PBBlockID.Marshal":                   {"(*github.com/cometbft/cometbft/proto/tendermint/types.BlockID).Marshal", "Bz"},
	"BlockID.ToProto":                     {"(*github.com/cometbft/cometbft/types.BlockID).ToProto", "cmtproto.BlockID"},
	"ModuleAccountI.GetAddress":           {"(github.com/cosmos/cosmos-sdk/types.AccountI).GetAddress", "Addr"},
	"LegacyDec.RoundInt":                  {"(cosmossdk.io/math.LegacyDec).RoundInt", "Int"},
	"LegacyNewDecFromStr":                 {"cosmossdk.io/math.LegacyNewDecFromStr", "Int"},
	"LegacyNewDecFromStr#1":               {"cosmossdk.io/math.LegacyNewDecFromStr", "Int"},
	"Validator.TokensFromSharesTruncated": {"(github.com/cosmos/cosmos-sdk/x/staking/types.Validator).TokensFromSharesTruncated", "Int"},
	"bytes.Join":                          {"bytes.Join", "Bz"},
	"bytes.Equal":                         {"bytes.Equal", "Bool"},
	"FieldVal.Equals":                     {"(*github.com/decred/dcrd/dcrec/secp256k1/v4.FieldVal).Equals", "Bool"},
	"big.Int.Bytes":                       {"(*math/big.Int).Bytes", "Bz"},
	"PublicKey.X":                         {"(*github.com/decred/dcrd/dcrec/secp256k1/v4.PublicKey).X", "Int"},
	"PublicKey.Y":                         {"(*github.com/decred/dcrd/dcrec/secp256k1/v4.PublicKey).Y", "Int"},
	"NewDecCoinsFromCoins":                {"github.com/cosmos/cosmos-sdk/types.NewDecCoinsFromCoins", "sdk.DecCoins"},
	"DecCoins.Sub":                        {"(github.com/cosmos/cosmos-sdk/types.DecCoins).Sub", "sdk.DecCoins"},
	"binary.Varint":                       {"encoding/binary.Varint", "Int"},
	"binary.Varint#1":                     {"encoding/binary.Varint", "Int"},
	"merkle.HashFromByteSlices":           {"github.com/cometbft/cometbft/crypto/merkle.HashFromByteSlices", "Bz"},
	"ValidatorI.GetTokens":                {"(github.com/cosmos/cosmos-sdk/x/staking/types.ValidatorI).GetTokens", "Int"},
	"ValidatorI.GetOperator":              {"(github.com/cosmos/cosmos-sdk/x/staking/types.ValidatorI).GetOperator", "Str"},
	"NewModuleAddress":                    {"github.com/cosmos/cosmos-sdk/x/auth/types.NewModuleAddress", "Addr"},
}

// mapCard declares the cardinality function of a map sort with the point-update axioms (mathematics of
// finite maps: inserting a fresh key adds one, overwriting adds nothing, the empty map has none).
func (fc *FCtx) mapCard(ms *Sort) string {
	fn := "card_" + ms.Name
	if fc.U.declared["f:"+fn] {
		return fn
	}
	fc.U.Fun(fn, []*Sort{ms}, SInt)
	k, v := ms.Key.Name, ms.Elem.Name
	fc.U.Axiom("finite-map cardinality ("+ms.Name+")", fmt.Sprintf(
		"(and (forall ((d (Array %s Bool)) (vl (Array %s %s)) (k %s) (x %s)) (! (= (%s (mk_%s (store d k true) (store vl k x))) (+ (%s (mk_%s d vl)) (ite (select d k) 0 1))) :pattern ((mk_%s (store d k true) (store vl k x))))) (forall ((vl (Array %s %s))) (! (= (%s (mk_%s ((as const (Array %s Bool)) false) vl)) 0) :pattern ((mk_%s ((as const (Array %s Bool)) false) vl)))) (forall ((m %s)) (! (>= (%s m) 0) :pattern ((%s m)))))",
		k, k, v, k, v, fn, ms.Name, fn, ms.Name, ms.Name, k, v, fn, ms.Name, k, ms.Name, k, ms.Name, fn, fn))
	fc.U.Axiom("finite-map cardinality, update of a map value ("+ms.Name+")", fmt.Sprintf(
		"(forall ((m %s) (k %s) (x %s)) (! (= (%s (mk_%s (store (dom_%s m) k true) (store (val_%s m) k x))) (+ (%s m) (ite (select (dom_%s m) k) 0 1))) :pattern ((mk_%s (store (dom_%s m) k true) (store (val_%s m) k x)))))",
		ms.Name, k, v, fn, ms.Name, ms.Name, ms.Name, fn, ms.Name, ms.Name, ms.Name, ms.Name))
	return fn
}

// callCurried handles  g(a...)(b...)  where g is a function of this module whose whole body is `return func(...) {...}`
// (validator factories such as validateUint64(name, positiveOnly)): g's parameters are bound to a..., then the
// returned literal is inlined on b... . g's source joins the caller's hash.
func (fc *FCtx) callCurried(e *ast.CallExpr, st *State) ([]Val, bool) {
	inner, ok := unparen(e.Fun).(*ast.CallExpr)
	if !ok {
		return nil, false
	}
	fo := fc.calleeObj(inner)
	if fo == nil || fo.Pkg() == nil {
		return nil, false
	}
	gi := fc.E.funcs[fo.Pkg().Path()+"."+fo.Name()]
	if gi == nil || gi.Decl == nil || gi.Decl.Body == nil || gi.Sig.Recv() != nil || gi.Sig.Variadic() || len(gi.Decl.Body.List) != 1 {
		return nil, false
	}
	ret, ok := gi.Decl.Body.List[0].(*ast.ReturnStmt)
	if !ok || len(ret.Results) != 1 {
		return nil, false
	}
	lit, ok := unparen(ret.Results[0]).(*ast.FuncLit)
	if !ok || len(inner.Args) != gi.Sig.Params().Len() {
		return nil, false
	}
	for i, a := range inner.Args {
		p := gi.Sig.Params().At(i)
		st.vars[p] = fc.coerce(fc.eval(a, st), p.Type())
	}
	lsig, ok := gi.Pkg.TypesInfo.TypeOf(lit).(*types.Signature)
	if !ok {
		return nil, false
	}
	fc.inlined[gi.Key] = true
	li := &FuncInfo{Pkg: gi.Pkg, Lit: lit, Key: gi.Key + "$ret", Sig: lsig}
	return fc.inlineCall(li, e, nil, st), true
}

func gsufOf(s string) string { return "" }

// callUnknownFuncValue: a call through a variable of function type whose target is not known (a handler passed in, a
// captured callback). Over-approximation: arguments are evaluated, every ghost becomes arbitrary, the results are
// arbitrary well-typed values. Assumed (listed): the callee does not panic.
func (fc *FCtx) callUnknownFuncValue(e *ast.CallExpr, st *State) ([]Val, bool) {
	ft := fc.info().TypeOf(e.Fun)
	if ft == nil {
		return nil, false
	}
	sig, ok := ft.Underlying().(*types.Signature)
	if !ok {
		return nil, false
	}
	switch unparen(e.Fun).(type) {
	case *ast.Ident, *ast.SelectorExpr:
	default:
		return nil, false
	}
	if len(fc.frames) == 1 && fc.C != nil && fc.C.Flags["pure_funcvalues"] != "" {
		// `//@ pure_funcvalues`: the function values this function is given are pure (key selectors, comparators): a call
		// through one is an application of an uninterpreted function of the function value and the arguments, without
		// effect on any state. Assumed about the callers' arguments (listed).
		fv := fc.eval(unparen(e.Fun), st)
		ts := []string{fv.T}
		sorts := []*Sort{fv.S}
		for _, a := range e.Args {
			v := fc.eval(a, st)
			ts = append(ts, v.T)
			sorts = append(sorts, v.S)
		}
		fc.assumed["function values passed to "+fc.FI.Key+" are pure (no side effects, deterministic)"] = true
		var res []Val
		for i := 0; i < sig.Results().Len(); i++ {
			rt := sig.Results().At(i).Type()
			s := fc.U.SortOf(rt)
			fname := extFnName("fvapply", sorts, i) + "_" + sanitize(s.Name)
			fc.U.Fun(fname, sorts, s)
			v := Val{T: app(fname, ts...), S: s, GoT: rt}
			st.assume(fc.U.WF(v))
			res = append(res, v)
		}
		return res, true
	}
	for _, a := range e.Args {
		fc.eval(a, st)
	}
	if len(fc.frames) == 1 && fc.C != nil && fc.C.Flags["readonly_funcvalues"] != "" {
		// `//@ readonly_funcvalues`: the function values called here (handlers looked up in a router) may read any
		// state but write none: arbitrary results, no effect on the ghosts. Assumed (listed).
		fc.assumed["function values called by "+fc.FI.Key+" ("+fc.calleeName(e)+") do not write state; assumed not to panic"] = true
	} else {
		for _, g := range fc.ghostNames(st) {
			gv := st.ghost[g]
			st.ghost[g] = Val{T: fc.U.Fresh("g_"+g, gv.S), S: gv.S, GoT: gv.GoT}
		}
	}
	fc.assumed["call through a function value ("+fc.calleeName(e)+"): arbitrary effect on every ghost, arbitrary results, assumed not to panic"] = true
	var res []Val
	for i := 0; i < sig.Results().Len(); i++ {
		rt := sig.Results().At(i).Type()
		s := fc.U.SortOf(rt)
		v := Val{T: fc.U.Fresh("fv", s), S: s, GoT: rt}
		st.assume(fc.U.WF(v))
		res = append(res, v)
		// the results of the last call through a function value can be named in the contract: fvresult(i)
		st.ghost[fmt.Sprintf("fv@r%d", i)] = v
	}
	return res, true
}

// evalCopy: copy(dst, src) where dst is an assignable variable (array, slice or byte slice) or a slice expression
// x[lo:hi] of one. Slices are values in this model, so the copy is an update of the variable x: elements
// lo .. lo+n-1 become src[0..n-1], n = min(len(dst), len(src)); everything else is unchanged.
func (fc *FCtx) evalCopy(e *ast.CallExpr, st *State) Val {
	dst := unparen(e.Args[0])
	var baseExpr ast.Expr = dst
	lo, hiE := "0", ast.Expr(nil)
	if se, ok := dst.(*ast.SliceExpr); ok {
		if se.Slice3 {
			oos("copy into a 3-index slice")
		}
		baseExpr = unparen(se.X)
		if se.Low != nil {
			lo = fc.eval(se.Low, st).T
		}
		hiE = se.High
	}
	switch baseExpr.(type) {
	case *ast.Ident, *ast.SelectorExpr, *ast.IndexExpr:
	default:
		oos("copy into %T", baseExpr)
	}
	base := fc.eval(baseExpr, st)
	var blen, bcap string
	switch {
	case base.S.Kind == KSlice:
		blen, bcap = slLen(base), slCap(base)
	case isBz(base.S):
		blen, bcap = app("bz_len", base.T), app("bz_cap", base.T)
	default:
		oos("copy into %s", base.S.Name)
	}
	hi := blen
	if hiE != nil {
		hi = fc.eval(hiE, st).T
	}
	t := fc.info().TypeOf(baseExpr)
	_, isArr := t.Underlying().(*types.Array)
	bound := bcap
	if isArr {
		bound = blen
	}
	if _, ok := dst.(*ast.SliceExpr); ok {
		fc.panicCheck(st, "slice-bounds", fmt.Sprintf("(and (<= 0 %s) (<= %s %s) (<= %s %s))", lo, lo, hi, hi, bound), e.Pos())
	}
	src := fc.eval(e.Args[1], st)
	var slen string
	var sat func(j string) string
	switch {
	case src.S.Kind == KSlice:
		slen = slLen(src)
		sat = func(j string) string { return fmt.Sprintf("(select %s %s)", slEl(src), j) }
	case isBz(src.S):
		slen = app("bz_len", src.T)
		sat = func(j string) string { return fmt.Sprintf("(bz_at %s %s)", src.T, j) }
	case src.S.Kind == KStr:
		bzs := fc.U.BzSort()
		fc.U.Fun("conv_Str_Bz", []*Sort{SStr}, bzs)
		fc.U.Fun("conv_Bz_Str", []*Sort{bzs}, SStr)
		bz := app("conv_Str_Bz", src.T)
		st.assume(fmt.Sprintf("(and (= (bz_len %s) (str_len %s)) (not (= %s bz_nil)) (= (conv_Bz_Str %s) %s))", bz, src.T, bz, bz, src.T))
		slen = app("bz_len", bz)
		sat = func(j string) string { return fmt.Sprintf("(bz_at %s %s)", bz, j) }
	default:
		oos("copy from %s", src.S.Name)
	}
	n := fc.U.Fresh("cpn", SInt)
	st.assume(fmt.Sprintf("(= %s (imin (- %s %s) %s))", n, hi, lo, slen))
	fc.U.fresh++
	jv := fmt.Sprintf("cj%d", fc.U.fresh)
	inR := fmt.Sprintf("(and (<= %s %s) (< %s (+ %s %s)))", lo, jv, jv, lo, n)
	var nb Val
	if base.S.Kind == KSlice {
		arr := fc.U.Fresh("cp", &Sort{Name: fmt.Sprintf("(Array Int %s)", base.S.Elem.Name)})
		st.assume(fmt.Sprintf("(forall ((%s Int)) (! (= (select %s %s) (ite %s %s (select %s %s))) :pattern ((select %s %s))))", jv, arr, jv, inR, sat(fmt.Sprintf("(- %s %s)", jv, lo)), slEl(base), jv, arr, jv))
		nb = Val{T: mkSlice(base.S, blen, bcap, arr), S: base.S, GoT: base.GoT}
	} else {
		b := fc.U.Fresh("cpb", base.S)
		st.assume(fmt.Sprintf("(and (= (bz_len %s) %s) (= (bz_cap %s) %s) (= (= %s bz_nil) (= %s bz_nil)))", b, blen, b, bcap, b, base.T))
		st.assume(fmt.Sprintf("(forall ((%s Int)) (! (= (bz_at %s %s) (ite %s %s (bz_at %s %s))) :pattern ((bz_at %s %s))))", jv, b, jv, inR, sat(fmt.Sprintf("(- %s %s)", jv, lo)), base.T, jv, b, jv))
		nb = Val{T: b, S: base.S, GoT: base.GoT}
	}
	fc.assignTo(baseExpr, nb, st)
	return Val{T: n, S: SInt, GoT: types.Typ[types.Int]}
}
