package main

import (
	"fmt"
	"go/ast"
	"go/token"
	"go/types"
	"sort"
	"strings"
)

// execBlock executes statements sequentially; after each statement the normal states are merged.
func (fc *FCtx) execBlock(stmts []ast.Stmt, st *State) *Flow {
	out := newFlow()
	cur := st
	own := len(fc.frames) == 1 && fc.C != nil && (len(fc.C.Asserts) > 0 || len(fc.C.NamedAsserts) > 0) && len(stmts) > 0
	top := own && len(fc.FI.Body().List) > 0 && stmts[0] == fc.FI.Body().List[0]
	if fc.seenDef == nil {
		fc.seenDef = map[string]int{}
	}
	if fc.anchored == nil {
		fc.anchored = map[string]bool{}
	}
	// a changed function whose asserted statement moved into a helper it now calls (extract-function refactoring): the
	// assert is anchored at that statement inside the inlined helper; names resolve in the helper first, then in the caller
	moved := !own && fc.changed && len(fc.frames) == 2 && fc.frames[1].inlined && fc.C != nil && len(fc.C.NamedAsserts) > 0 && len(stmts) > 0 && len(fc.inlineCallPos) > 0
	if moved && fc.ownDefs == nil {
		fc.ownDefs = map[string]bool{}
		ast.Inspect(fc.FI.Body(), func(n ast.Node) bool {
			if st, ok := n.(ast.Stmt); ok {
				for _, d := range definedNames(st) {
					fc.ownDefs[d] = true
				}
			}
			return true
		})
	}
	checkAsserts := func(cs []*Clause, label string, pos token.Pos) {
		for k, a := range cs {
			env := fc.newEnv(cur, fc.entry, pos)
			env.specials = fc.curSpecials
			if moved {
				env.fbPos, env.fbPkg = fc.inlineCallPos[len(fc.inlineCallPos)-1], fc.frames[0].fi.Pkg
			}
			t, ok := fc.clauseBool(a, env)
			if !ok {
				// an assert is an obligation of its own: one that can no longer even be stated over the changed body
				// is not established
				fc.obligeNamed(cur, fmt.Sprintf("assert#%s.%d", label, k), "assert", "false", "assert "+label+" (names a variable that no longer exists): "+a.Src, pos)
				continue
			}
			fc.obligeNamed(cur, fmt.Sprintf("assert#%s.%d", label, k), "assert", t, "assert "+label+": "+a.Src, pos)
			cur.assume(t)
		}
	}
	for i, s := range stmts {
		if cur == nil {
			break // unreachable code
		}
		var defs []string
		if top {
			checkAsserts(fc.C.Asserts[i], fmt.Sprint(i), s.Pos())
		}
		if moved {
			for _, d := range definedNames(s) {
				if !fc.ownDefs[d] {
					defs = append(defs, d)
				}
			}
			for _, d := range defs {
				for _, key := range anchorKeys("before", d, fc.seenDef[d]+1) {
					if cs := fc.C.NamedAsserts[key]; len(cs) > 0 {
						fc.anchored[key] = true
						checkAsserts(cs, strings.Replace(key, ":", "-", 1), s.Pos())
					}
				}
			}
		}
		if own {
			// name-anchored asserts attach to the first statement (in execution order, at any nesting depth
			// of the function's own body) that defines or assigns the name
			defs = definedNames(s)
			// anchors follow renamed locals: a definition of the new name counts as one of the name the contract uses
			for i, d := range defs {
				if o, ok := fc.renamesRev[d]; ok {
					defs[i] = o
				}
			}
			for _, d := range defs {
				for _, key := range anchorKeys("before", d, fc.seenDef[d]+1) {
					if cs := fc.C.NamedAsserts[key]; len(cs) > 0 {
						fc.anchored[key] = true
						checkAsserts(cs, strings.Replace(key, ":", "-", 1), s.Pos())
					}
				}
			}
		}
		f := fc.execStmt(s, cur, "")
		out.absorb(f)
		cur = fc.merge(f.normal)
		if own || moved {
			for _, d := range defs {
				fc.seenDef[d]++
				for _, key := range anchorKeys("after", d, fc.seenDef[d]) {
					if cs := fc.C.NamedAsserts[key]; len(cs) > 0 && cur != nil {
						fc.anchored[key] = true
						checkAsserts(cs, strings.Replace(key, ":", "-", 1), s.End())
					}
				}
			}
		}
	}
	if top && cur != nil {
		// "assert at end": where the function's own body falls off its end (the normal completion of a function
		// without results), over the locals of its outermost block
		if cs := fc.C.NamedAsserts["at:end"]; len(cs) > 0 {
			fc.anchored["at:end"] = true
			checkAsserts(cs, "at-end", fc.FI.Body().Rbrace)
		}
	}
	if cur != nil {
		out.normal = []*State{cur}
	}
	return out
}

// anchorKeys: the contract keys that address the n-th (1-based, in execution order) definition/assignment of a
// name: "after:x" is the first one, "after:x#2" the second, ...
func anchorKeys(when, name string, n int) []string {
	if n == 1 {
		return []string{when + ":" + name, when + ":" + name + "#1"}
	}
	return []string{fmt.Sprintf("%s:%s#%d", when, name, n)}
}

// definedNames: variables a top-level statement defines or assigns (for anchoring asserts).
func definedNames(s ast.Stmt) []string {
	var out []string
	switch x := s.(type) {
	case *ast.AssignStmt:
		for _, l := range x.Lhs {
			if id, ok := l.(*ast.Ident); ok && id.Name != "_" {
				out = append(out, id.Name)
			}
		}
	case *ast.DeclStmt:
		if gd, ok := x.Decl.(*ast.GenDecl); ok {
			for _, sp := range gd.Specs {
				if vs, ok := sp.(*ast.ValueSpec); ok {
					for _, n := range vs.Names {
						out = append(out, n.Name)
					}
				}
			}
		}
	}
	return out
}

func single(st *State) *Flow {
	f := newFlow()
	if st != nil {
		f.normal = []*State{st}
	}
	return f
}

func (fc *FCtx) execStmt(s ast.Stmt, st *State, label string) *Flow {
	switch s := s.(type) {
	case *ast.BlockStmt:
		return fc.execBlock(s.List, st)
	case *ast.EmptyStmt:
		return single(st)
	case *ast.LabeledStmt:
		return fc.execStmt(s.Stmt, st, s.Label.Name)
	case *ast.ExprStmt:
		fc.evalMulti(s.X, st)
		if fc.isDead(st) {
			return newFlow()
		}
		return single(st)
	case *ast.AssignStmt:
		fc.execAssign(s, st)
		return single(st)
	case *ast.IncDecStmt:
		x := fc.eval(s.X, st)
		one := Val{T: "1", S: SInt, GoT: x.GoT}
		op := token.ADD
		if s.Tok == token.DEC {
			op = token.SUB
		}
		nv := fc.arith(op, x, one, x.GoT, st, s.Pos())
		fc.assignTo(s.X, nv, st)
		return single(st)
	case *ast.DeclStmt:
		gd, ok := s.Decl.(*ast.GenDecl)
		if !ok {
			oos("declaration statement")
		}
		if gd.Tok == token.CONST || gd.Tok == token.TYPE {
			return single(st)
		}
		for _, sp := range gd.Specs {
			vs := sp.(*ast.ValueSpec)
			if len(vs.Values) == 0 {
				for _, n := range vs.Names {
					obj := fc.info().Defs[n]
					if obj == nil {
						continue
					}
					st.vars[obj] = fc.zeroVal(obj.Type())
				}
				continue
			}
			var vals []Val
			if len(vs.Values) == 1 && len(vs.Names) > 1 {
				vals = fc.evalMulti(vs.Values[0], st)
			} else {
				for _, e := range vs.Values {
					vals = append(vals, fc.eval(e, st))
				}
			}
			for i, n := range vs.Names {
				obj := fc.info().Defs[n]
				if obj == nil {
					continue
				}
				v := vals[i]
				v.GoT = obj.Type()
				st.vars[obj] = fc.coerce(v, obj.Type())
			}
		}
		return single(st)
	case *ast.ReturnStmt:
		fc.execReturn(s, st)
		return newFlow()
	case *ast.IfStmt:
		return fc.execIf(s, st)
	case *ast.ForStmt:
		return fc.execFor(s, st, label)
	case *ast.RangeStmt:
		return fc.execRange(s, st, label)
	case *ast.SwitchStmt:
		return fc.execSwitch(s, st)
	case *ast.BranchStmt:
		f := newFlow()
		l := ""
		if s.Label != nil {
			l = s.Label.Name
		}
		switch s.Tok {
		case token.BREAK:
			f.brk[l] = append(f.brk[l], st)
		case token.CONTINUE:
			f.cont[l] = append(f.cont[l], st)
		default:
			oos("branch statement %s", s.Tok)
		}
		return f
	case *ast.DeferStmt:
		return fc.execDefer(s, st)
	case *ast.GoStmt:
		return fc.execGo(s, st)
	case *ast.TypeSwitchStmt:
		return fc.execTypeSwitch(s, st)
	case *ast.SelectStmt:
		oos("select")
	case *ast.SendStmt:
		return fc.execSend(s, st)
	}
	oos("statement %T", s)
	return nil
}

const deadMarker = "false"

func (fc *FCtx) isDead(st *State) bool {
	return len(st.pc) > 0 && st.pc[len(st.pc)-1] == deadMarker
}

func (fc *FCtx) kill(st *State) { st.pc = append(st.pc, deadMarker) }

func (fc *FCtx) execIf(s *ast.IfStmt, st *State) *Flow {
	out := newFlow()
	if s.Init != nil {
		f := fc.execStmt(s.Init, st, "")
		st = fc.merge(f.normal)
		if st == nil {
			return out
		}
	}
	c := fc.evalBool(s.Cond, st)
	t := st.clone()
	t.assume(c)
	e := st.clone()
	e.assume(not(c))
	ft := fc.execBlock(s.Body.List, t)
	out.absorb(ft)
	out.normal = append(out.normal, ft.normal...)
	if s.Else != nil {
		fe := fc.execStmt(s.Else, e, "")
		out.absorb(fe)
		out.normal = append(out.normal, fe.normal...)
	} else {
		out.normal = append(out.normal, e)
	}
	return out
}

func (fc *FCtx) execSwitch(s *ast.SwitchStmt, st *State) *Flow {
	out := newFlow()
	if s.Init != nil {
		f := fc.execStmt(s.Init, st, "")
		st = fc.merge(f.normal)
		if st == nil {
			return out
		}
	}
	var tag *Val
	if s.Tag != nil {
		v := fc.eval(s.Tag, st)
		tag = &v
	}
	cur := st
	var deflt *ast.CaseClause
	for _, c := range s.Body.List {
		cc := c.(*ast.CaseClause)
		if cc.List == nil {
			deflt = cc
			continue
		}
		var conds []string
		for _, e := range cc.List {
			if tag != nil {
				v := fc.eval(e, cur)
				conds = append(conds, fc.eqTerm(*tag, v))
			} else {
				conds = append(conds, fc.evalBool(e, cur))
			}
		}
		cond := or(conds...)
		b := cur.clone()
		b.assume(cond)
		fb := fc.execBlock(cc.Body, b)
		fc.switchAbsorb(out, fb)
		cur.assume(not(cond))
	}
	if deflt != nil {
		fb := fc.execBlock(deflt.Body, cur)
		fc.switchAbsorb(out, fb)
	} else {
		out.normal = append(out.normal, cur)
	}
	return out
}

func (fc *FCtx) switchAbsorb(out, fb *Flow) {
	out.normal = append(out.normal, fb.normal...)
	out.normal = append(out.normal, fb.brk[""]...)
	delete(fb.brk, "")
	out.absorb(fb)
}

// ---------------------------------------------------------------------------------------------
// Assignment
// ---------------------------------------------------------------------------------------------

func (fc *FCtx) execAssign(s *ast.AssignStmt, st *State) {
	// x = append(x, ...) - the accumulate idiom: sharing x is the point, no aliasing hazard to report
	if len(s.Lhs) == 1 && len(s.Rhs) == 1 {
		if call, ok := unparen(s.Rhs[0]).(*ast.CallExpr); ok {
			if fid, ok := unparen(call.Fun).(*ast.Ident); ok && fid.Name == "append" && len(call.Args) > 0 {
				l, lok := unparen(s.Lhs[0]).(*ast.Ident)
				a0, aok := unparen(call.Args[0]).(*ast.Ident)
				if lok && aok && fc.info().ObjectOf(l) == fc.info().ObjectOf(a0) {
					prev := fc.appendSelf
					fc.appendSelf = call
					defer func() { fc.appendSelf = prev }()
				}
			}
		}
	}
	if s.Tok != token.ASSIGN && s.Tok != token.DEFINE {
		// op=
		var op token.Token
		switch s.Tok {
		case token.ADD_ASSIGN:
			op = token.ADD
		case token.SUB_ASSIGN:
			op = token.SUB
		case token.MUL_ASSIGN:
			op = token.MUL
		case token.QUO_ASSIGN:
			op = token.QUO
		case token.REM_ASSIGN:
			op = token.REM
		case token.SHL_ASSIGN:
			op = token.SHL
		case token.SHR_ASSIGN:
			op = token.SHR
		case token.OR_ASSIGN, token.AND_ASSIGN, token.XOR_ASSIGN:
			be := &ast.BinaryExpr{X: s.Lhs[0], Op: map[token.Token]token.Token{token.OR_ASSIGN: token.OR, token.AND_ASSIGN: token.AND, token.XOR_ASSIGN: token.XOR}[s.Tok], Y: s.Rhs[0], OpPos: s.TokPos}
			fc.bitAssign(be, s, st)
			return
		default:
			oos("assignment operator %s", s.Tok)
		}
		l := fc.eval(s.Lhs[0], st)
		r := fc.eval(s.Rhs[0], st)
		t := fc.info().TypeOf(s.Lhs[0])
		var nv Val
		if op == token.SHL || op == token.SHR {
			nv = fc.shift(op, l, r, t, s.Rhs[0], st, s.Pos())
		} else if op == token.ADD && l.S.Kind == KStr {
			nv = fc.strCat(l, r, t, st)
		} else {
			nv = fc.arith(op, l, r, t, st, s.Pos())
		}
		fc.assignTo(s.Lhs[0], nv, st)
		return
	}
	var vals []Val
	if len(s.Rhs) == 1 && len(s.Lhs) == 2 {
		switch r := unparen(s.Rhs[0]).(type) {
		case *ast.TypeAssertExpr:
			vals = fc.evalTypeAssert(r, st, true)
		case *ast.IndexExpr:
			if _, isMap := fc.info().TypeOf(r.X).Underlying().(*types.Map); isMap {
				vals = fc.evalIndex(r, st, true)
			}
		}
	}
	if vals != nil {
	} else if len(s.Rhs) == 1 && len(s.Lhs) > 1 {
		vals = fc.evalMulti(s.Rhs[0], st)
		if len(vals) != len(s.Lhs) {
			oos("assignment arity mismatch")
		}
	} else {
		for _, e := range s.Rhs {
			vals = append(vals, fc.eval(e, st))
		}
	}
	for i, l := range s.Lhs {
		if id, ok := l.(*ast.Ident); ok && id.Name == "_" {
			continue
		}
		if s.Tok == token.DEFINE {
			if id, ok := l.(*ast.Ident); ok {
				if obj := fc.info().Defs[id]; obj != nil {
					st.vars[obj] = fc.coerce(vals[i], obj.Type())
					continue
				}
			}
		}
		fc.assignTo(l, vals[i], st)
	}
}

// coerce adjusts a value to a static type (mostly a no-op; sets GoT).
func (fc *FCtx) coerce(v Val, t types.Type) Val {
	s := fc.U.SortOf(t)
	if v.S != nil && (v.S.Name == "StoreH" || v.S.Name == "Iter" || strings.HasPrefix(v.T, "@writefn:")) {
		v.GoT = t
		return v
	}
	if isErrorType(t) && v.S != nil && v.S.Kind != KInt {
		// a concrete error value (custom error type) stored in an error variable: some non-nil error
		return Val{T: fmt.Sprint(1000 + fc.U.ErrCode("custom:"+v.S.Name)), S: SInt, GoT: t}
	}
	if v.S != s && !(v.S.Kind == KInt && s.Kind == KInt) {
		if v.S.Kind == KInt && v.T == "0" && s.Kind != KInt {
			// nil literal
			return fc.zeroVal(t)
		}
		if s.Kind == KOpaque && v.S != nil && v.GoT != nil {
			return fc.box(v, s, t)
		}
		if s.Kind == KOpaque {
			return Val{T: fc.U.Fresh("box", s), S: s, GoT: t}
		}
		oos("sort mismatch %s vs %s", v.S.Name, s.Name)
	}
	v.GoT = t
	return v
}

func (fc *FCtx) assignTo(l ast.Expr, v Val, st *State) {
	switch l := l.(type) {
	case *ast.ParenExpr:
		fc.assignTo(l.X, v, st)
	case *ast.Ident:
		if l.Name == "_" {
			return
		}
		obj := fc.info().ObjectOf(l)
		if obj == nil {
			oos("assignment to unknown identifier %s (frame %s, depth %d)", l.Name, fc.frame().fi.Key, len(fc.frames))
		}
		if _, ok := obj.(*types.Var); !ok {
			oos("assignment to non-variable %s", l.Name)
		}
		if obj.Parent() == obj.Pkg().Scope() {
			oos("assignment to package-level variable %s", l.Name)
		}
		st.vars[obj] = fc.coerce(v, obj.Type())
	case *ast.SelectorExpr:
		base := fc.eval(l.X, st)
		if base.S.Kind != KData {
			oos("field assignment on %s", base.S.Name)
		}
		if _, ok := fieldSel(base, l.Sel.Name); !ok {
			oos("assignment to embedded/unknown field %s", l.Sel.Name)
		}
		nb := Val{T: fieldUpdate(base, l.Sel.Name, v.T), S: base.S, GoT: base.GoT}
		fc.assignTo(l.X, nb, st)
	case *ast.StarExpr:
		fc.assignTo(l.X, v, st)
	case *ast.IndexExpr:
		base := fc.eval(l.X, st)
		idx := fc.eval(l.Index, st)
		switch base.S.Kind {
		case KSlice:
			fc.panicCheck(st, "index", fmt.Sprintf("(and (<= 0 %s) (< %s %s))", idx.T, idx.T, slLen(base)), l.Pos())
			nb := Val{T: mkSlice(base.S, slLen(base), slCap(base), fmt.Sprintf("(store %s %s %s)", slEl(base), idx.T, v.T)), S: base.S, GoT: base.GoT}
			fc.assignTo(l.X, nb, st)
		case KMap:
			nb := Val{T: app("mk_"+base.S.Name, fmt.Sprintf("(store %s %s true)", mpDom(base), idx.T), fmt.Sprintf("(store %s %s %s)", mpVal(base), idx.T, v.T)), S: base.S, GoT: base.GoT}
			fc.assignTo(l.X, nb, st)
		case KOpaque:
			if !isBz(base.S) {
				oos("index assignment on %s", base.S.Name)
			}
			fc.panicCheck(st, "index", fmt.Sprintf("(and (<= 0 %s) (< %s (bz_len %s)))", idx.T, idx.T, base.T), l.Pos())
			fc.assignTo(l.X, Val{T: fmt.Sprintf("(bz_upd %s %s %s)", base.T, idx.T, v.T), S: base.S, GoT: base.GoT}, st)
		default:
			oos("index assignment on %s", base.S.Name)
		}
	default:
		oos("assignment target %T", l)
	}
}

// ---------------------------------------------------------------------------------------------
// Return
// ---------------------------------------------------------------------------------------------

func (fc *FCtx) execReturn(s *ast.ReturnStmt, st *State) {
	fr := fc.frame()
	var vals []Val
	if len(s.Results) == 0 {
		for _, r := range fr.results {
			vals = append(vals, st.vars[r])
		}
	} else if len(s.Results) == 1 && len(fr.results) > 1 {
		vals = fc.evalMulti(s.Results[0], st)
	} else {
		for _, e := range s.Results {
			vals = append(vals, fc.eval(e, st))
		}
	}
	for i := range vals {
		if i < len(fr.results) {
			vals[i] = fc.coerce(vals[i], fr.results[i].Type())
		}
	}
	if fc.isDead(st) {
		return
	}
	// "assert at return": at every return statement of the function's own body, over the locals in scope there
	if len(fc.frames) == 1 && fc.C != nil {
		// "assert at lastreturn": the same, only at the last return statement of the body in source order (the normal
		// completion of functions whose earlier returns are error exits made before all locals exist)
		isLast := true
		for _, o := range fc.retOrd {
			if o > fc.retOrd[s.Pos()] {
				isLast = false
			}
		}
		for _, akey := range []string{"at:return", "at:lastreturn"} {
			cs := fc.C.NamedAsserts[akey]
			if len(cs) == 0 || (akey == "at:lastreturn" && !isLast) {
				continue
			}
			if fc.anchored == nil {
				fc.anchored = map[string]bool{}
			}
			fc.anchored[akey] = true
			for k, a := range cs {
				if akey == "at:lastreturn" {
					k += 100
				}
				env := fc.newEnv(st, fc.entry, s.Pos())
				env.specials = fc.curSpecials
				t, ok := fc.clauseBool(a, env)
				if !ok {
					fc.obligeNamed(st, fmt.Sprintf("assert#at-return%d.%d", fc.retOrd[s.Pos()], k), "assert", "false", "assert at return (names a variable that no longer exists): "+a.Src, s.Pos())
					continue
				}
				fc.obligeNamed(st, fmt.Sprintf("assert#at-return%d.%d", fc.retOrd[s.Pos()], k), "assert", t, "assert at return: "+a.Src, s.Pos())
				st.assume(t)
			}
		}
	}
	for i := len(fr.deferred) - 1; i >= 0; i-- {
		fr.deferred[i](st)
	}
	fr.returns = append(fr.returns, &retState{st: st, vals: vals, pos: s.Pos(), ord: fc.retOrd[s.Pos()]})
}

// ---------------------------------------------------------------------------------------------
// Loops
// ---------------------------------------------------------------------------------------------

type loopVars struct {
	objs     []types.Object
	ghost    bool
	ghostSet map[string]bool // ghosts written by the body (from a dry run); nil = unknown (all)
}

// dryRunGhosts executes a loop body once on a scratch copy of the state, discarding every obligation
// and exit it produces, and reports which ghost variables the body writes on some path. The executor
// explores all syntactic paths (it never prunes by feasibility), so a ghost that is unchanged in every
// end state of the dry run is not written by the body at all.
func (fc *FCtx) dryRunGhosts(st *State, body func(s *State) []*State) (changed map[string]bool) {
	nObl := len(fc.Obls)
	counters := map[string]int{}
	for k, v := range fc.counters {
		counters[k] = v
	}
	fr := fc.frame()
	nRet := len(fr.returns)
	nTerm := len(fc.termination)
	cacheN := fc.cacheN
	mayPanic, recoverLit := fc.mayPanic, fc.recoverLit
	guards := append([]string(nil), fc.guards...)
	seenDef, anchored := map[string]int{}, map[string]bool{}
	for k, v := range fc.seenDef {
		seenDef[k] = v
	}
	for k, v := range fc.anchored {
		anchored[k] = v
	}
	nPanic := len(fc.panicStates)
	changed = map[string]bool{}
	defer func() {
		fc.panicStates = fc.panicStates[:nPanic]
		fc.seenDef, fc.anchored = seenDef, anchored
		fc.Obls = fc.Obls[:nObl]
		fc.counters = counters
		fr.returns = fr.returns[:nRet]
		fc.termination = fc.termination[:nTerm]
		fc.cacheN = cacheN
		fc.mayPanic, fc.recoverLit = mayPanic, recoverLit
		fc.guards = guards
		fc.frames = fc.frames[:indexOfFrame(fc.frames, fr)+1]
	}()
	s := st.clone()
	before := map[string]string{}
	for g, v := range s.ghost {
		before[g] = v.T
	}
	ends := body(s)
	for _, r := range fr.returns[nRet:] {
		ends = append(ends, r.st)
	}
	for _, e := range ends {
		for g, v := range e.ghost {
			if b, ok := before[g]; ok && b != v.T {
				changed[g] = true
			}
		}
	}
	return changed
}

func indexOfFrame(fs []*frame, f *frame) int {
	for i, x := range fs {
		if x == f {
			return i
		}
	}
	return len(fs) - 1
}

// modifiedIn computes the local variables assigned in a statement (syntactically).
func (fc *FCtx) modifiedIn(n ast.Node) loopVars {
	seen := map[types.Object]bool{}
	var lv loopVars
	info := fc.info()
	add := func(e ast.Expr) {
		for {
			switch x := e.(type) {
			case *ast.ParenExpr:
				e = x.X
				continue
			case *ast.SelectorExpr:
				e = x.X
				continue
			case *ast.IndexExpr:
				e = x.X
				continue
			case *ast.StarExpr:
				e = x.X
				continue
			case *ast.SliceExpr:
				e = x.X
				continue
			}
			break
		}
		if id, ok := e.(*ast.Ident); ok {
			if obj := info.ObjectOf(id); obj != nil {
				if _, isVar := obj.(*types.Var); isVar && !seen[obj] {
					seen[obj] = true
					lv.objs = append(lv.objs, obj)
				}
			}
		}
	}
	ast.Inspect(n, func(n ast.Node) bool {
		switch x := n.(type) {
		case *ast.FuncLit:
			return false
		case *ast.AssignStmt:
			for _, l := range x.Lhs {
				add(l)
			}
		case *ast.IncDecStmt:
			add(x.X)
		case *ast.RangeStmt:
			if x.Key != nil {
				add(x.Key)
			}
			if x.Value != nil {
				add(x.Value)
			}
		case *ast.UnaryExpr:
			if x.Op == token.AND {
				add(x.X)
			}
		case *ast.DeclStmt:
			if gd, ok := x.Decl.(*ast.GenDecl); ok {
				for _, sp := range gd.Specs {
					if vs, ok := sp.(*ast.ValueSpec); ok {
						for _, nm := range vs.Names {
							add(nm)
						}
					}
				}
			}
		case *ast.CallExpr:
			lv.ghost = true
			// method calls with pointer receivers on addressable locals may mutate them
			if sel, ok := x.Fun.(*ast.SelectorExpr); ok {
				if sel.Sel.Name == "Next" {
					if fo, ok := info.ObjectOf(sel.Sel).(*types.Func); ok && (strings.HasSuffix(fo.FullName(), "Iterator).Next") || fo.FullName() == "(interface).Next") {
						add(sel.X)
					}
				}
				if s := info.Selections[sel]; s != nil && s.Kind() == types.MethodVal {
					if sig, ok := s.Obj().Type().(*types.Signature); ok && sig.Recv() != nil {
						if _, isPtr := sig.Recv().Type().(*types.Pointer); isPtr {
							if _, isBig := sig.Recv().Type().(*types.Pointer); isBig && !isBigIntLike(sig.Recv().Type()) {
								add(sel.X)
							}
						}
					}
				}
			}
		}
		return true
	})
	sort.Slice(lv.objs, func(i, j int) bool { return lv.objs[i].Pos() < lv.objs[j].Pos() })
	return lv
}

func (fc *FCtx) havoc(st *State, lv loopVars) {
	for _, o := range lv.objs {
		old, ok := st.vars[o]
		if !ok {
			continue // declared inside the loop
		}
		if old.S.Name == "Iter" {
			// an iterator keeps its identity; only its position advances
			p := fc.U.Fresh(o.Name()+"_pos", SInt)
			st.vars[o] = Val{T: fmt.Sprintf("(mk_Iter (Iter_id %s) %s)", old.T, p), S: old.S, GoT: old.GoT}
			st.assume(fmt.Sprintf("(<= 0 %s)", p))
			continue
		}
		n := fc.U.Fresh(o.Name(), old.S)
		nv := Val{T: n, S: old.S, GoT: o.Type()}
		st.vars[o] = nv
		st.assume(fc.U.WF(nv))
	}
	if lv.ghost {
		for _, g := range fc.ghostNames(st) {
			if !fc.loopMayModify(g) {
				continue
			}
			if lv.ghostSet != nil && !lv.ghostSet[g] {
				continue
			}
			old := st.ghost[g]
			n := fc.U.Fresh("g_"+g, old.S)
			st.ghost[g] = Val{T: n, S: old.S, GoT: old.GoT}
		}
	}
}

// loopMayModify: ghosts havocked at loop heads are those the enclosing function may modify
// (its `modifies` list, any cache-context copy); all others are checked unchanged per iteration.
func (fc *FCtx) loopMayModify(g string) bool {
	if strings.Contains(g, "@") {
		return true
	}
	return fc.modifiesGhost(g)
}

func (fc *FCtx) checkLoopFrame(ord int, head, end *State, pos token.Pos) {
	for _, g := range fc.ghostNames(head) {
		if fc.loopMayModify(g) && (fc.curGhostSet == nil || fc.curGhostSet[g]) {
			continue
		}
		ev, ok := end.ghost[g]
		if !ok || ev.T == head.ghost[g].T {
			continue
		}
		fc.obligeNamed(end, fmt.Sprintf("inv-preserve#loop%d.frame.%s", ord, g), "inv-preserve", fmt.Sprintf("(= %s %s)", ev.T, head.ghost[g].T), "loop "+fmt.Sprint(ord)+" leaves ghost "+g+" unchanged (not in modifies)", pos)
	}
}

func (fc *FCtx) ghostNames(st *State) []string {
	var gs []string
	for g := range st.ghost {
		gs = append(gs, g)
	}
	sort.Strings(gs)
	return gs
}

type loopSpecials map[string]Val

// withOuter: a range loop nested in the body of another range loop also sees the enclosing loop's specials, under the
// names #i_out, #coll_out, ... (so an inner invariant can say "everything the outer loop has passed so far")
func (fc *FCtx) withOuter(sp loopSpecials) loopSpecials { return fc.withOuterOf(fc.curSpecials, sp) }

func (fc *FCtx) withOuterOf(outer, sp loopSpecials) loopSpecials {
	for k, v := range outer {
		sp[k+"_out"] = v
	}
	return sp
}

func (fc *FCtx) loopSpec(ord int) *LoopSpec {
	if len(fc.frames) == 1 && fc.C != nil {
		return fc.C.Loops[ord]
	}
	// loops of inlined callees: use the callee's own contract if it has one
	if c := fc.E.cs.Funcs[fc.frame().fi.Key]; c != nil {
		return c.Loops[ord]
	}
	return nil
}

func (fc *FCtx) checkInvs(kind string, ord int, ls *LoopSpec, st *State, sp loopSpecials, pos token.Pos) {
	if ls == nil {
		return
	}
	for i, inv := range ls.Invariants {
		env := fc.newEnv(st, fc.entry, pos)
		env.specials = sp
		t, ok := fc.clauseBool(inv, env)
		if !ok {
			continue
		}
		name := fmt.Sprintf("%s#loop%d.%d", kind, ord, i)
		fc.obligeNamed(st, name, kind, t, "loop "+fmt.Sprint(ord)+": invariant "+inv.Src, pos)
	}
	if kind == "inv-preserve" {
		// `each` clauses: what one iteration achieves for its own element, stated over the state at the end of the
		// iteration (the loop variables of that iteration are in scope)
		for i, c := range ls.Each {
			env := fc.newEnv(st, fc.entry, pos)
			env.specials = sp
			t, ok := fc.clauseBool(c, env)
			if !ok {
				t = "false"
			}
			fc.obligeNamed(st, fmt.Sprintf("each#loop%d.%d", ord, i), "assert", t, "loop "+fmt.Sprint(ord)+": each "+c.Src, pos)
		}
	}
}

func (fc *FCtx) assumeInvs(ord int, ls *LoopSpec, st *State, sp loopSpecials, pos token.Pos) {
	if ls == nil {
		return
	}
	for _, inv := range ls.Invariants {
		env := fc.newEnv(st, fc.entry, pos)
		env.specials = sp
		if t, ok := fc.clauseBool(inv, env); ok {
			st.assume(t)
		}
	}
}

// clauseBool evaluates a proof-internal clause (loop invariant, assert). In a function whose body differs from the
// ledgered one, a clause that names a local variable which no longer exists (and is not a renamed one, see renames) is
// void: it is dropped with a note, and whatever it was needed for then fails on its own obligation.
func (fc *FCtx) clauseBool(c *Clause, env *Env) (t string, ok bool) {
	if !fc.changed {
		return fc.specBool(c.Expr, env), true
	}
	defer func() {
		if r := recover(); r != nil {
			if o, isO := r.(OutOfSubset); isO && strings.HasPrefix(o.What, "spec: unknown name") {
				fc.note("proof clause dropped, the function changed and it " + strings.TrimPrefix(o.What, "spec: ") + " no longer resolves: " + c.Src)
				t, ok = "true", false
				return
			}
			panic(r)
		}
	}()
	return fc.specBool(c.Expr, env), true
}

func (fc *FCtx) nextLoopOrd(pos token.Pos) int {
	fr := fc.frame()
	ords := fc.E.loopOrds(fr.fi)
	return ords[pos]
}

func (fc *FCtx) execFor(s *ast.ForStmt, st *State, label string) *Flow {
	out := newFlow()
	ord := fc.nextLoopOrd(s.Pos())
	if s.Init != nil {
		f := fc.execStmt(s.Init, st, "")
		st = fc.merge(f.normal)
		if st == nil {
			return out
		}
	}
	ls := fc.loopSpec(ord)
	bodyPos := s.Body.Lbrace + 1
	// a counting loop `for i := c; i < X; i++` whose body leaves i alone is a range loop written by hand: the same
	// proof clauses apply to it (#i is i), and i stays within [c, X] (so that turning a range loop into an index loop -
	// or back - is not a reason for its invariants to stop applying)
	idx, idxLo, idxHi := fc.countingLoop(s)
	spOf := func(state *State) loopSpecials {
		if idx == nil {
			return nil
		}
		v, ok := state.vars[idx]
		if !ok {
			return nil
		}
		return fc.withOuter(loopSpecials{"#i": v})
	}
	fc.checkInvs("inv-establish", ord, ls, st, spOf(st), bodyPos)
	lv := fc.modifiedIn(s.Body)
	if idx != nil {
		for _, o := range lv.objs {
			if o == idx {
				idx = nil // the body assigns the counter itself: not a counting loop
			}
		}
	}
	if s.Post != nil {
		lv2 := fc.modifiedIn(s.Post)
		lv.objs = append(lv.objs, lv2.objs...)
		lv.ghost = lv.ghost || lv2.ghost
	}
	if s.Cond != nil {
		lv2 := fc.modifiedIn(s.Cond)
		lv.ghost = lv.ghost || lv2.ghost
	}
	if lv.ghost {
		lv.ghostSet = fc.dryRunGhosts(st, func(d *State) []*State {
			if s.Cond != nil {
				fc.evalBool(s.Cond, d)
			}
			f := fc.execBlock(s.Body.List, d)
			ends := append([]*State{}, f.normal...)
			for _, v := range f.cont {
				ends = append(ends, v...)
			}
			for _, v := range f.brk {
				ends = append(ends, v...)
			}
			if s.Post != nil {
				var out []*State
				for _, e := range ends {
					fp := fc.execStmt(s.Post, e, "")
					out = append(out, fp.normal...)
				}
				ends = append(ends, out...)
			}
			return ends
		})
	}
	h := st.clone()
	fc.havoc(h, lv)
	if idx != nil {
		// inductive by construction: i starts at c, the body does not assign it, the post statement adds one while i < X
		if iv, ok := h.vars[idx]; ok {
			if idxLo != nil {
				if lo, ok := fc.tryEvalInt(idxLo, st); ok {
					h.assume(fmt.Sprintf("(>= %s %s)", iv.T, lo))
				}
			}
			if idxHi != nil && !fc.mentionsAny(idxHi, lv.objs) {
				if lo, ok := fc.tryEvalInt(idxLo, st); ok {
					if hi, ok := fc.tryEvalInt(idxHi, h); ok {
						h.assume(fmt.Sprintf("(or (<= %s %s) (= %s %s))", iv.T, hi, iv.T, lo))
					}
				}
			}
		}
	}
	fc.assumeInvs(ord, ls, h, spOf(h), bodyPos)
	if ls == nil || ls.Decreases == nil {
		fc.termination = append(fc.termination, fmt.Sprintf("loop %d at %s: termination not proved", ord, fc.pos(s.Pos())))
	}
	// body
	b := h.clone()
	cond := "true"
	if s.Cond != nil {
		cond = fc.evalBool(s.Cond, b)
	}
	x := b.clone() // exit state shares obligations assumed while evaluating cond
	b.assume(cond)
	prevSpFor := fc.curSpecials
	if sp := spOf(b); sp != nil {
		fc.curSpecials = sp
	}
	fb := fc.execBlock(s.Body.List, b)
	fc.curSpecials = prevSpFor
	ends := append([]*State{}, fb.normal...)
	ends = append(ends, fb.cont[""]...)
	delete(fb.cont, "")
	if label != "" {
		ends = append(ends, fb.cont[label]...)
		delete(fb.cont, label)
	}
	if e := fc.merge(ends); e != nil {
		if s.Post != nil {
			fp := fc.execStmt(s.Post, e, "")
			e = fc.merge(fp.normal)
		}
		if e != nil {
			fc.checkInvs("inv-preserve", ord, ls, e, spOf(e), bodyPos)
			fc.curGhostSet = lv.ghostSet
			fc.checkLoopFrame(ord, h, e, bodyPos)
			fc.curGhostSet = nil
		}
	}
	// exit
	if s.Cond != nil {
		x.assume(not(cond))
		out.normal = append(out.normal, x)
	}
	fc.checkExhaustive(ord, ls, fb, x, label, bodyPos)
	out.normal = append(out.normal, fb.brk[""]...)
	delete(fb.brk, "")
	if label != "" {
		out.normal = append(out.normal, fb.brk[label]...)
		delete(fb.brk, label)
	}
	out.absorb(fb)
	return out
}

func (fc *FCtx) execRange(s *ast.RangeStmt, st *State, label string) *Flow {
	out := newFlow()
	ord := fc.nextLoopOrd(s.Pos())
	coll := fc.eval(s.X, st)
	ls := fc.loopSpec(ord)
	bodyPos := s.Body.Lbrace + 1
	var n string // number of iterations
	switch coll.S.Kind {
	case KSlice:
		n = slLen(coll)
	case KInt:
		n = coll.T
	case KStr:
		oos("range over string")
	case KMap:
		// iteration order is unspecified: every iteration sees SOME key of the (frozen) map; the loop runs
		// card(map) times. Distinctness of the visited keys is not tracked (an over-approximation of the real
		// executions, hence sound for the obligations proved about the loop).
		n = app(fc.mapCard(coll.S), coll.T)
		fc.note("range over a map: arbitrary unvisited key per iteration, card(map) iterations, all keys visited at exit (iteration order unspecified)")
	default:
		if !isBz(coll.S) {
			oos("range over %s", coll.S.Name)
		}
		n = fmt.Sprintf("(bz_len %s)", coll.T)
	}
	// freeze the collection (Go evaluates the range expression once)
	fz := fc.U.Fresh("rng", coll.S)
	st.assume(fmt.Sprintf("(= %s %s)", fz, coll.T))
	coll.T = fz
	if coll.S.Kind == KSlice {
		n = slLen(coll)
	} else if isBz(coll.S) {
		n = fmt.Sprintf("(bz_len %s)", coll.T)
	} else if coll.S.Kind == KMap {
		n = app(fc.mapCard(coll.S), coll.T)
		st.assume(fmt.Sprintf("(>= %s 0)", n))
	}
	sp0 := fc.withOuter(loopSpecials{"#i": Val{T: "0", S: SInt}, "#n": Val{T: n, S: SInt}, "#coll": coll})
	visTerm := func(vis string) Val {
		return Val{T: app("mk_"+coll.S.Name, vis, mpVal(coll)), S: coll.S, GoT: coll.GoT}
	}
	var visHead string
	if coll.S.Kind == KMap {
		// #visited: the sub-map of keys already visited (each key of the map is visited exactly once)
		sp0["#visited"] = visTerm(fmt.Sprintf("((as const (Array %s Bool)) false)", coll.S.Key.Name))
	}
	fc.checkInvs("inv-establish", ord, ls, st, sp0, bodyPos)
	lv := fc.modifiedIn(s.Body)
	if lv.ghost {
		lv.ghostSet = fc.dryRunGhosts(st, func(d *State) []*State {
			dgi := fc.U.Fresh("dry_ri", SInt)
			if coll.S.Kind == KMap {
				dgi = fc.U.Fresh("dry_mk", coll.S.Key)
			}
			if s.Key != nil {
				if id, ok := s.Key.(*ast.Ident); ok && id.Name != "_" {
					if obj := fc.info().ObjectOf(id); obj != nil {
						if coll.S.Kind == KMap {
							d.vars[obj] = Val{T: dgi, S: coll.S.Key, GoT: obj.Type()}
						} else {
							d.vars[obj] = Val{T: dgi, S: SInt, GoT: types.Typ[types.Int]}
						}
					}
				}
			}
			if s.Value != nil {
				if id, ok := s.Value.(*ast.Ident); ok && id.Name != "_" {
					if obj := fc.info().ObjectOf(id); obj != nil {
						var ev Val
						if coll.S.Kind == KSlice {
							ev = Val{T: fmt.Sprintf("(select %s %s)", slEl(coll), dgi), S: coll.S.Elem, GoT: elemType(coll.GoT)}
						} else if coll.S.Kind == KMap {
							ev = Val{T: fmt.Sprintf("(select %s %s)", mpVal(coll), dgi), S: coll.S.Elem, GoT: elemType(coll.GoT)}
						} else {
							ev = Val{T: fmt.Sprintf("(bz_at %s %s)", coll.T, dgi), S: SInt, GoT: types.Typ[types.Uint8]}
						}
						d.vars[obj] = fc.coerce(ev, obj.Type())
					}
				}
			}
			prevSp := fc.curSpecials
			fc.curSpecials = fc.withOuterOf(prevSp, loopSpecials{"#i": Val{T: fc.U.Fresh("dry_i", SInt), S: SInt}, "#n": Val{T: n, S: SInt}, "#coll": coll})
			f := fc.execBlock(s.Body.List, d)
			fc.curSpecials = prevSp
			ends := append([]*State{}, f.normal...)
			for _, v := range f.cont {
				ends = append(ends, v...)
			}
			for _, v := range f.brk {
				ends = append(ends, v...)
			}
			return ends
		})
	}
	h := st.clone()
	// key/value variables are per-iteration; havoc modified
	fc.havoc(h, lv)
	gi := fc.U.Fresh("ri", SInt)
	h.assume(fmt.Sprintf("(and (<= 0 %s) (<= %s %s))", gi, gi, n))
	sp := fc.withOuter(loopSpecials{"#i": Val{T: gi, S: SInt}, "#n": Val{T: n, S: SInt}, "#coll": coll})
	if coll.S.Kind == KMap {
		visHead = fc.U.Fresh("vis", &Sort{Name: fmt.Sprintf("(Array %s Bool)", coll.S.Key.Name), Kind: KOpaque})
		// visited keys are keys of the map; there are #i of them
		fc.U.fresh++
		qk := fmt.Sprintf("qk_%d", fc.U.fresh)
		h.assume(fmt.Sprintf("(forall ((%s %s)) (=> (select %s %s) (select %s %s)))", qk, coll.S.Key.Name, visHead, qk, mpDom(coll), qk))
		h.assume(fmt.Sprintf("(= %s %s)", app(fc.mapCard(coll.S), visTerm(visHead).T), gi))
		sp["#visited"] = visTerm(visHead)
	}
	fc.assumeInvs(ord, ls, h, sp, bodyPos)
	b := h.clone()
	b.assume(fmt.Sprintf("(< %s %s)", gi, n))
	bind := func(e ast.Expr, v Val) {
		if e == nil {
			return
		}
		id, ok := e.(*ast.Ident)
		if ok && id.Name == "_" {
			return
		}
		if s.Tok == token.DEFINE && ok {
			if obj := fc.info().Defs[id]; obj != nil {
				b.vars[obj] = fc.coerce(v, obj.Type())
				return
			}
		}
		fc.assignTo(e, v, b)
	}
	intT := types.Typ[types.Int]
	visNext := ""
	if coll.S.Kind == KMap {
		for _, o := range lv.objs {
			if id, ok := unparen(s.X).(*ast.Ident); ok && fc.info().ObjectOf(id) == o {
				oos("map modified while ranging over it")
			}
		}
		mk := fc.U.Fresh("mk", coll.S.Key)
		b.assume(fmt.Sprintf("(select %s %s)", mpDom(coll), mk))
		b.assume(fmt.Sprintf("(not (select %s %s))", visHead, mk))
		visNext = fmt.Sprintf("(store %s %s true)", visHead, mk)
		var kt types.Type
		if mt, ok := coll.GoT.Underlying().(*types.Map); ok {
			kt = mt.Key()
		}
		kv := Val{T: mk, S: coll.S.Key, GoT: kt}
		if kt != nil {
			b.assume(fc.U.WF(kv))
		}
		bind(s.Key, kv)
		if s.Value != nil {
			ev := Val{T: fmt.Sprintf("(select %s %s)", mpVal(coll), mk), S: coll.S.Elem, GoT: elemType(coll.GoT)}
			if ev.GoT != nil {
				b.assume(fc.U.WF(ev))
			}
			bind(s.Value, ev)
		}
	} else {
		bind(s.Key, Val{T: gi, S: SInt, GoT: intT})
	}
	if s.Value != nil && isBz(coll.S) {
		bind(s.Value, Val{T: fmt.Sprintf("(bz_at %s %s)", coll.T, gi), S: SInt, GoT: types.Typ[types.Uint8]})
	}
	if s.Value != nil && coll.S.Kind == KSlice {
		et := elemType(coll.GoT)
		ev := Val{T: fmt.Sprintf("(select %s %s)", slEl(coll), gi), S: coll.S.Elem, GoT: et}
		bind(s.Value, ev)
	}
	// asserts anchored inside the body may use the loop specials (#i, #coll, ...) of the innermost range loop
	prevSp := fc.curSpecials
	fc.curSpecials = sp
	fb := fc.execBlock(s.Body.List, b)
	fc.curSpecials = prevSp
	ends := append([]*State{}, fb.normal...)
	ends = append(ends, fb.cont[""]...)
	delete(fb.cont, "")
	if label != "" {
		ends = append(ends, fb.cont[label]...)
		delete(fb.cont, label)
	}
	if e := fc.merge(ends); e != nil {
		sp1 := fc.withOuter(loopSpecials{"#i": Val{T: fmt.Sprintf("(+ %s 1)", gi), S: SInt}, "#n": Val{T: n, S: SInt}, "#coll": coll})
		if coll.S.Kind == KMap {
			sp1["#visited"] = visTerm(visNext)
		}
		fc.checkInvs("inv-preserve", ord, ls, e, sp1, bodyPos)
		fc.curGhostSet = lv.ghostSet
		fc.checkLoopFrame(ord, h, e, bodyPos)
		fc.curGhostSet = nil
	}
	x := h.clone()
	x.assume(fmt.Sprintf("(= %s %s)", gi, n))
	if coll.S.Kind == KMap {
		// all keys visited at normal exit
		fc.U.fresh++
		qk := fmt.Sprintf("qk_%d", fc.U.fresh)
		x.assume(fmt.Sprintf("(forall ((%s %s)) (= (select %s %s) (select %s %s)))", qk, coll.S.Key.Name, visHead, qk, mpDom(coll), qk))
	}
	out.normal = append(out.normal, x)
	fc.checkExhaustive(ord, ls, fb, x, label, bodyPos)
	out.normal = append(out.normal, fb.brk[""]...)
	delete(fb.brk, "")
	if label != "" {
		out.normal = append(out.normal, fb.brk[label]...)
		delete(fb.brk, label)
	}
	out.absorb(fb)
	return out
}

// checkExhaustive: `loop N: exhaustive` - one element that is skipped must not end the visit of the others: every break
// out of the loop must be unreachable. x is the state of the normal exit.
func (fc *FCtx) checkExhaustive(ord int, ls *LoopSpec, fb *Flow, x *State, label string, bodyPos token.Pos) {
	if ls == nil || !ls.Exhaustive {
		return
	}
	k := 0
	labels := []string{""}
	if label != "" {
		labels = append(labels, label)
	}
	for _, l := range labels {
		for _, b := range fb.brk[l] {
			name := fmt.Sprintf("exhaustive#loop%d", ord)
			if k > 0 {
				name += fmt.Sprintf(".%d", k)
			}
			fc.obligeNamed(b, name, "assert", "false", "loop "+fmt.Sprint(ord)+" visits every element: this break is reachable", bodyPos)
			k++
		}
	}
	if k == 0 && x != nil {
		// no break in the body: discharged on the spot, and on record - a break added later fails THIS obligation
		fc.obligeNamed(x, fmt.Sprintf("exhaustive#loop%d", ord), "assert", "true", "loop "+fmt.Sprint(ord)+" visits every element: the body has no break", bodyPos)
	}
}

// countingLoop recognises `for i := lo; i < hi; i++` (also `i += 1`): the counter's object and the two bound expressions.
func (fc *FCtx) countingLoop(s *ast.ForStmt) (types.Object, ast.Expr, ast.Expr) {
	as, ok := s.Init.(*ast.AssignStmt)
	if !ok || as.Tok != token.DEFINE || len(as.Lhs) != 1 || len(as.Rhs) != 1 {
		return nil, nil, nil
	}
	id, ok := as.Lhs[0].(*ast.Ident)
	if !ok {
		return nil, nil, nil
	}
	obj := fc.info().Defs[id]
	if obj == nil {
		return nil, nil, nil
	}
	if b, ok := obj.Type().Underlying().(*types.Basic); !ok || b.Info()&types.IsInteger == 0 {
		return nil, nil, nil
	}
	isI := func(e ast.Expr) bool {
		x, ok := unparen(e).(*ast.Ident)
		return ok && fc.info().Uses[x] == obj
	}
	switch p := s.Post.(type) {
	case *ast.IncDecStmt:
		if p.Tok != token.INC || !isI(p.X) {
			return nil, nil, nil
		}
	case *ast.AssignStmt:
		lit, isLit := p.Rhs[0].(*ast.BasicLit)
		if p.Tok != token.ADD_ASSIGN || len(p.Lhs) != 1 || !isI(p.Lhs[0]) || !isLit || lit.Value != "1" {
			return nil, nil, nil
		}
	default:
		return nil, nil, nil
	}
	c, ok := unparen(s.Cond).(*ast.BinaryExpr)
	if s.Cond == nil || !ok || c.Op != token.LSS || !isI(c.X) {
		return nil, nil, nil
	}
	return obj, as.Rhs[0], c.Y
}

// mentionsAny: does the expression mention one of the objects (variables assigned in a loop body)?
func (fc *FCtx) mentionsAny(e ast.Expr, objs []types.Object) bool {
	found := false
	ast.Inspect(e, func(n ast.Node) bool {
		if id, ok := n.(*ast.Ident); ok {
			for _, o := range objs {
				if fc.info().Uses[id] == o {
					found = true
				}
			}
		}
		if _, ok := n.(*ast.CallExpr); ok {
			if ce := n.(*ast.CallExpr); !isLenCall(ce) {
				found = true // a call other than len(): not a fixed bound
			}
		}
		return !found
	})
	return found
}

func isLenCall(ce *ast.CallExpr) bool {
	id, ok := ce.Fun.(*ast.Ident)
	return ok && id.Name == "len" && len(ce.Args) == 1
}

// tryEvalInt evaluates a side-effect-free integer expression, giving up (ok = false) on anything outside the subset.
func (fc *FCtx) tryEvalInt(e ast.Expr, st *State) (t string, ok bool) {
	defer func() {
		if r := recover(); r != nil {
			if _, isO := r.(OutOfSubset); isO {
				t, ok = "", false
				return
			}
			panic(r)
		}
	}()
	nObl := len(fc.Obls)
	v := fc.eval(e, st.clone())
	fc.Obls = fc.Obls[:nObl]
	if v.S.Kind != KInt {
		return "", false
	}
	return v.T, true
}

func elemType(t types.Type) types.Type {
	if t == nil {
		return nil
	}
	if p, ok := t.Underlying().(*types.Pointer); ok {
		t = p.Elem()
	}
	switch tt := t.Underlying().(type) {
	case *types.Slice:
		return tt.Elem()
	case *types.Array:
		return tt.Elem()
	case *types.Map:
		return tt.Elem()
	}
	return nil
}

func (fc *FCtx) execRangeMap(s *ast.RangeStmt, st *State, label string, coll Val, ord int) *Flow {
	oos("range over map (nondeterministic order)")
	return nil
}

func (fc *FCtx) execDefer(s *ast.DeferStmt, st *State) *Flow {
	name := fc.calleeName(s.Call)
	if strings.HasPrefix(name, "(*github.com/bandprotocol/chain/v3/yoda.Context).update") {
		fc.drop("defer " + name)
		return single(st)
	}
	if isDroppedCall(name) || name == "(cosmossdk.io/store/types.Iterator).Close" || name == "(github.com/cosmos/cosmos-db.Iterator).Close" {
		fc.drop("defer " + name)
		return single(st)
	}
	if sel, ok := s.Call.Fun.(*ast.SelectorExpr); ok && sel.Sel.Name == "Close" && len(s.Call.Args) == 0 {
		if id, ok := sel.X.(*ast.Ident); ok {
			if v, ok := st.vars[fc.info().ObjectOf(id)]; ok && v.S != nil && v.S.Name == "Iter" {
				fc.drop("defer iterator.Close()")
				return single(st)
			}
		}
	}
	if lit, ok := s.Call.Fun.(*ast.FuncLit); ok && containsRecover(lit.Body) {
		if len(fc.frames) != 1 || fc.recoverLit != nil {
			oos("defer-recover in an inlined function")
		}
		fc.recoverLit = lit
		fc.mayPanic = true // panics do not escape: no panic-free obligations; the panic exit is modelled in run()
		return single(st)
	}
	if lit, ok := s.Call.Fun.(*ast.FuncLit); ok && len(s.Call.Args) == 0 && len(fc.frames) == 1 {
		var lfi *FuncInfo
		for _, cand := range fc.E.funcs {
			if cand.Lit == lit {
				lfi = cand
			}
		}
		if lfi == nil {
			oos("deferred literal not indexed")
		}
		fr := fc.frame()
		fr.deferred = append(fr.deferred, func(es *State) {
			lfr := &frame{fi: lfi, inlined: true}
			fc.frames = append(fc.frames, lfr)
			fl := fc.execBlock(lit.Body.List, es)
			fc.frames = fc.frames[:len(fc.frames)-1]
			ends := append([]*State{}, fl.normal...)
			for _, r := range lfr.returns {
				ends = append(ends, r.st)
			}
			if m := fc.merge(ends); m != nil {
				*es = *m
			}
		})
		return single(st)
	}
	if len(fc.frames) == 1 && fc.deferInLoop(s) {
		// Go runs nothing at the defer statement itself (exact); every deferred call runs at function exit,
		// one per executed iteration. The exit effect is over-approximated: every ghost becomes arbitrary.
		fc.note("defer inside a loop: no effect inside the loop (exact); at exit all ghost state is havocked (over-approximation of the deferred calls)")
		fr := fc.frame()
		fr.deferred = append(fr.deferred, func(es *State) {
			for _, g := range fc.ghostNames(es) {
				old := es.ghost[g]
				n := fc.U.Fresh("gdefer_"+g, old.S)
				es.ghost[g] = Val{T: n, S: old.S, GoT: old.GoT}
			}
		})
		return single(st)
	}
	if len(fc.frames) == 1 && len(s.Call.Args) == 0 {
		// zero-argument deferred call of a function value / function / method on a plain identifier:
		// evaluated at every exit (the callee expression is an identifier, so evaluating it late is exact
		// unless it is reassigned, which makes the function out of subset)
		ok := false
		switch f := s.Call.Fun.(type) {
		case *ast.Ident:
			ok = !fc.assignedIn(fc.frame().fi, f)
		case *ast.SelectorExpr:
			if id, isId := f.X.(*ast.Ident); isId {
				ok = !fc.assignedIn(fc.frame().fi, id) || fc.info().ObjectOf(id) == nil
				if _, isPkg := fc.info().ObjectOf(id).(*types.PkgName); isPkg {
					ok = true
				}
			}
		}
		if ok {
			fr := fc.frame()
			call := s.Call
			fr.deferred = append(fr.deferred, func(es *State) {
				fc.evalCall(call, es)
			})
			return single(st)
		}
	}
	oos("defer %s", name)
	return nil
}

// deferInLoop: is this defer statement lexically inside a for/range of the function body (not inside a
// nested function literal)?
func (fc *FCtx) deferInLoop(d *ast.DeferStmt) bool {
	body := fc.frame().fi.Body()
	found := false
	var walk func(n ast.Node, inLoop bool)
	walk = func(n ast.Node, inLoop bool) {
		if n == nil || found {
			return
		}
		ast.Inspect(n, func(x ast.Node) bool {
			if found || x == nil {
				return false
			}
			switch y := x.(type) {
			case *ast.FuncLit:
				return false
			case *ast.ForStmt:
				if x != n {
					walk(y.Body, true)
					return false
				}
			case *ast.RangeStmt:
				if x != n {
					walk(y.Body, true)
					return false
				}
			case *ast.DeferStmt:
				if y == d && inLoop {
					found = true
				}
			}
			return true
		})
	}
	walk(body, false)
	return found
}

// assignedIn: is the identifier's object assigned (after its declaration) anywhere in the function?
func (fc *FCtx) assignedIn(fi *FuncInfo, id *ast.Ident) bool {
	obj := fc.info().ObjectOf(id)
	if obj == nil {
		return true
	}
	n := 0
	ast.Inspect(fi.Body(), func(x ast.Node) bool {
		if as, ok := x.(*ast.AssignStmt); ok {
			for _, l := range as.Lhs {
				if lid, ok := l.(*ast.Ident); ok && fc.info().ObjectOf(lid) == obj {
					n++
				}
			}
		}
		return true
	})
	return n > 1
}

func containsRecover(n ast.Node) bool {
	found := false
	ast.Inspect(n, func(x ast.Node) bool {
		if c, ok := x.(*ast.CallExpr); ok {
			if id, ok := c.Fun.(*ast.Ident); ok && id.Name == "recover" {
				found = true
			}
		}
		return !found
	})
	return found
}

// execGo: `go f(args)` where f has a contract. The spawned call is sequentialised at the spawn point: its
// contract is applied there (requires asserted, frame havocked, ensures assumed). This is an assumption about the
// schedule, stated in the evidence; it is adequate for contracts that only count channel sends / describe what
// is sent, on channels buffered for every spawned sender (the sender never blocks, the spawner never observes
// intermediate states of the goroutine except through the channel).
func (fc *FCtx) execGo(s *ast.GoStmt, st *State) *Flow {
	name := fc.calleeName(s.Call)
	fn := fc.calleeObj(s.Call)
	if fn == nil {
		oos("go statement with a non-function callee")
	}
	key := funcKey(fn)
	if c := fc.E.cs.Funcs[key]; c == nil {
		oos("go statement: spawned function %s has no contract", name)
	}
	fc.assumed["goroutine "+shortPkg(key)+" sequentialised at its spawn point (its contract is applied there); scheduling is not modelled"] = true
	fc.evalCall(s.Call, st)
	return single(st)
}

func (fc *FCtx) execSend(s *ast.SendStmt, st *State) *Flow {
	v := fc.eval(s.Value, st)
	// `//@ on_send <pkg.Func>`: one particular schedule of the consumer of this channel is modelled - it takes the value and
	// runs to completion at the moment of the send (its contract is applied here with the sent value as first argument)
	if fc.C != nil && fc.C.Flags["on_send"] != "" {
		fc.applyConsumer(modPath+"/"+fc.C.Flags["on_send"], v, st)
	}
	if g, ok := st.ghost["ChanSent"]; ok {
		st.ghost["ChanSent"] = Val{T: fmt.Sprintf("(+ %s 1)", g.T), S: g.S}
		// every ghost named ChanLast* whose sort is the sent value's sort records the last value sent
		for _, gname := range fc.ghostNames(st) {
			if strings.HasPrefix(gname, "ChanLast") && st.ghost[gname].S == v.S {
				st.ghost[gname] = Val{T: v.T, S: v.S, GoT: v.GoT}
			}
		}
		fc.note("channel sends are counted in the ghost ChanSent (last value in ChanLast); goroutine scheduling is not modelled")
	} else {
		fc.note("channel send modelled as a no-op on the sequential state (goroutine communication is not modelled)")
	}
	return single(st)
}

func (fc *FCtx) drop(what string) {
	for _, d := range fc.dropped {
		if d == what {
			return
		}
	}
	fc.dropped = append(fc.dropped, what)
}

// ---------------------------------------------------------------------------------------------
// Interfaces: dynamic type tags, boxing, type switches and assertions
// ---------------------------------------------------------------------------------------------

func (fc *FCtx) typeTagID(t types.Type) int {
	key := typeString(t)
	if id, ok := fc.E.typeTags[key]; ok {
		return id
	}
	id := len(fc.E.typeTags) + 1
	fc.E.typeTags[key] = id
	return id
}

func (fc *FCtx) tagFn(is *Sort) string {
	n := "typetag_" + sanitize(is.Name)
	fc.U.Fun(n, []*Sort{is}, SInt)
	return n
}

func (fc *FCtx) unboxFn(cs, is *Sort) string {
	n := "unbox_" + sanitize(cs.Name) + "_" + sanitize(is.Name)
	fc.U.Fun(n, []*Sort{is}, cs)
	return n
}

func (fc *FCtx) box(v Val, is *Sort, it types.Type) Val {
	if is.Name != "I_any" && it != nil {
		// all empty-interface-like boxing goes through the sort of the static interface type
	}
	id := fc.typeTagID(v.GoT)
	n := fmt.Sprintf("box%d_%s_%s", id, sanitize(v.S.Name), sanitize(is.Name))
	if !fc.U.declared["f:"+n] {
		fc.U.Fun(n, []*Sort{v.S}, is)
		tag := fc.tagFn(is)
		ub := fc.unboxFn(v.S, is)
		if v.S.Name == "(Array Bz Bz)" {
			oos("boxing a store")
		}
		fc.U.Axiom("interface boxing round trip ("+v.S.Name+")", fmt.Sprintf("(forall ((x %s)) (! (and (= (%s (%s x)) x) (= (%s (%s x)) %d)) :pattern ((%s x))))", v.S.Name, ub, n, tag, n, id, n))
	}
	r := Val{T: app(n, v.T), S: is, GoT: it}
	return r
}

// boxTagFact: the dynamic type of a boxed concrete value.
func (fc *FCtx) dynTypeIs(x Val, t types.Type) string {
	return fmt.Sprintf("(= (%s %s) %d)", fc.tagFn(x.S), x.T, fc.typeTagID(t))
}

func (fc *FCtx) evalTypeAssert(e *ast.TypeAssertExpr, st *State, commaOk bool) []Val {
	x := fc.eval(e.X, st)
	if x.S.Kind != KOpaque {
		oos("type assertion on %s", x.S.Name)
	}
	t := fc.info().TypeOf(e.Type)
	cs := fc.U.SortOf(t)
	ok := fc.dynTypeIs(x, t)
	v := Val{T: app(fc.unboxFn(cs, x.S), x.T), S: cs, GoT: t}
	st.assume(implies(ok, fc.U.WF(v)))
	if commaOk {
		return []Val{v, {T: ok, S: SBool, GoT: types.Typ[types.Bool]}}
	}
	fc.panicCheck(st, "type-assertion", ok, e.Pos())
	return []Val{v}
}

func (fc *FCtx) execTypeSwitch(s *ast.TypeSwitchStmt, st *State) *Flow {
	out := newFlow()
	if s.Init != nil {
		f := fc.execStmt(s.Init, st, "")
		st = fc.merge(f.normal)
		if st == nil {
			return out
		}
	}
	var xe ast.Expr
	switch a := s.Assign.(type) {
	case *ast.AssignStmt:
		xe = a.Rhs[0].(*ast.TypeAssertExpr).X
	case *ast.ExprStmt:
		xe = a.X.(*ast.TypeAssertExpr).X
	}
	x := fc.eval(xe, st)
	if x.S.Kind != KOpaque {
		oos("type switch on %s", x.S.Name)
	}
	cur := st
	var deflt *ast.CaseClause
	for _, c := range s.Body.List {
		cc := c.(*ast.CaseClause)
		if cc.List == nil {
			deflt = cc
			continue
		}
		var conds []string
		var single types.Type
		for _, te := range cc.List {
			if id, ok := te.(*ast.Ident); ok && id.Name == "nil" {
				fn := "isnil_" + x.S.Name
				fc.U.Fun(fn, []*Sort{x.S}, SBool)
				conds = append(conds, app(fn, x.T))
				continue
			}
			t := fc.info().TypeOf(te)
			conds = append(conds, fc.dynTypeIs(x, t))
			if len(cc.List) == 1 {
				single = t
			}
		}
		cond := or(conds...)
		b := cur.clone()
		b.assume(cond)
		if obj := fc.info().Implicits[cc]; obj != nil {
			if single != nil {
				cs := fc.U.SortOf(single)
				v := Val{T: app(fc.unboxFn(cs, x.S), x.T), S: cs, GoT: single}
				b.assume(fc.U.WF(v))
				b.vars[obj] = v
			} else {
				b.vars[obj] = x
			}
		}
		fb := fc.execBlock(cc.Body, b)
		fc.switchAbsorb(out, fb)
		cur.assume(not(cond))
	}
	if deflt != nil {
		if obj := fc.info().Implicits[deflt]; obj != nil {
			cur.vars[obj] = x
		}
		fb := fc.execBlock(deflt.Body, cur)
		fc.switchAbsorb(out, fb)
	} else {
		out.normal = append(out.normal, cur)
	}
	return out
}

func (fc *FCtx) bitAssign(be *ast.BinaryExpr, s *ast.AssignStmt, st *State) {
	x := fc.eval(be.X, st)
	y := fc.eval(be.Y, st)
	fn := map[token.Token]string{token.OR: "bit_or", token.XOR: "bit_xor", token.AND: "bit_and"}[be.Op]
	fc.U.Fun(fn, []*Sort{SInt, SInt}, SInt)
	t := fc.info().TypeOf(s.Lhs[0])
	v := Val{T: app(fn, x.T, y.T), S: SInt, GoT: t}
	st.assume(fc.U.WF(v))
	fc.note("bitwise " + be.Op.String() + " modelled as an uninterpreted function of its operands")
	fc.assignTo(s.Lhs[0], v, st)
}

func (fc *FCtx) applyConsumer(key string, v Val, st *State) {
	cc := fc.E.cs.Funcs[key]
	fi := fc.E.funcs[key]
	if cc == nil || fi == nil || fi.Sig.Params().Len() == 0 {
		oos("on_send: consumer %s has no contract (or takes no argument)", key)
	}
	fc.assumed["consumer "+shortPkg(key)+" of the channel runs to completion at the moment of the send (one schedule; others are not modelled)"] = true
	names := map[string]Val{}
	if r := fi.Sig.Recv(); r != nil {
		rs := fc.U.SortOf(r.Type())
		rn := r.Name()
		if rn == "" || rn == "_" {
			rn = cc.RecvName
		}
		names[rn] = Val{T: fc.U.Fresh("consumer", rs), S: rs, GoT: r.Type()}
	}
	for i := 0; i < fi.Sig.Params().Len(); i++ {
		p := fi.Sig.Params().At(i)
		if i == 0 {
			names[p.Name()] = fc.coerce(v, p.Type())
			continue
		}
		ps := fc.U.SortOf(p.Type())
		pv := Val{T: fc.U.Fresh("carg", ps), S: ps, GoT: p.Type()}
		st.assume(fc.U.WF(pv))
		names[p.Name()] = pv
	}
	pre := st.clone()
	for _, m := range cc.Modifies {
		if g, ok := st.ghost[m]; ok {
			nv := Val{T: fc.U.Fresh("g_"+m, g.S), S: g.S, GoT: g.GoT}
			st.ghost[m] = nv
		}
	}
	for _, en := range cc.Ensures {
		env := &Env{fc: fc, st: st, old: pre, names: names, oldNames: names, pkg: fc.E.pkgOfContract(cc)}
		st.assume(fc.specBool(en.Expr, env))
	}
}
