package main

import (
	"bytes"
	"context"
	"crypto/sha256"
	"encoding/hex"
	"os"
	"os/exec"
	"path/filepath"
	"strings"
	"sync"
	"time"
)

type solverSpec struct {
	name string
}

var solvers = []solverSpec{
	{name: "z3-new"}, {name: "z3"}, {name: "cvc5"},
	// E-matching only (no model-based quantifier instantiation): often proves what the default
	// configuration gives up on as "incomplete"; can only answer unsat or unknown on quantified goals
	{name: "z3-ematch"}, {name: "z3-new-ematch"},
}

type solveResult struct {
	res    string // sat unsat unknown timeout error
	solver string
	ms     int64
	out    string
}

func fmtInt(i int) string {
	if i == 0 {
		return "0"
	}
	neg := i < 0
	if neg {
		i = -i
	}
	var b []byte
	for i > 0 {
		b = append([]byte{byte('0' + i%10)}, b...)
		i /= 10
	}
	if neg {
		b = append([]byte{'-'}, b...)
	}
	return string(b)
}

func runOne(ctx context.Context, s solverSpec, file string, timeoutS int) solveResult {
	start := time.Now()
	var args []string
	switch s.name {
	case "z3-new", "z3":
		args = []string{s.name, "-T:" + fmtInt(timeoutS), file}
	case "z3-ematch":
		args = []string{"z3", "-T:" + fmtInt(timeoutS), "smt.mbqi=false", file}
	case "z3-new-ematch":
		args = []string{"z3-new", "-T:" + fmtInt(timeoutS), "smt.mbqi=false", file}
	case "z3-new-nogrob":
		// nonlinear goals: the Groebner-basis step of z3's nla solver makes run time vary 10x with the seed
		args = []string{"z3-new", "-T:" + fmtInt(timeoutS), "smt.arith.nl.grobner=false", file}
	case "cvc5":
		args = []string{"cvc5", "--tlimit=" + fmtInt(timeoutS*1000), file}
	}
	cctx, cancel := context.WithTimeout(ctx, time.Duration(timeoutS+2)*time.Second)
	defer cancel()
	cmd := exec.CommandContext(cctx, args[0], args[1:]...)
	var out bytes.Buffer
	cmd.Stdout = &out
	cmd.Stderr = &out
	cmd.Run()
	ms := time.Since(start).Milliseconds()
	text := out.String()
	first := ""
	for _, l := range strings.Split(text, "\n") {
		l = strings.TrimSpace(l)
		if l == "" || strings.HasPrefix(l, "WARNING") {
			continue
		}
		first = l
		break
	}
	r := solveResult{solver: s.name, ms: ms, out: text}
	switch {
	case first == "unsat":
		r.res = "unsat"
	case first == "sat":
		r.res = "sat"
	case first == "unknown":
		r.res = "unknown"
	case strings.HasPrefix(first, "timeout") || cctx.Err() != nil || strings.Contains(first, "interrupted"):
		r.res = "timeout"
	default:
		r.res = "error"
	}
	return r
}

// Solve races the solvers on one script; the first definite (sat/unsat) answer wins.
func Solve(workDir, name, script string, timeoutS int, only []string) solveResult {
	return SolveLite(workDir, name, script, "", timeoutS, only)
}

// SolveLite races the solvers on the script and, when a lite variant exists, two more solver processes on it; from
// the lite variant only `unsat` counts.
func SolveLite(workDir, name, script, lite string, timeoutS int, only []string) solveResult {
	h := sha256.Sum256([]byte(script))
	file := filepath.Join(workDir, hex.EncodeToString(h[:8])+".smt2")
	os.WriteFile(file, []byte(script), 0o644)
	ctx, cancel := context.WithCancel(context.Background())
	defer cancel()
	ch := make(chan solveResult, len(solvers)+3)
	n := 0
	if lite != "" && len(only) == 0 {
		lfile := filepath.Join(workDir, hex.EncodeToString(h[:8])+".lite.smt2")
		os.WriteFile(lfile, []byte(lite), 0o644)
		for _, s := range []solverSpec{{name: "z3-new"}, {name: "cvc5"}, {name: "z3-new-nogrob"}} {
			n++
			go func(s solverSpec) {
				r := runOne(ctx, s, lfile, timeoutS)
				r.solver = s.name + "(lite)"
				if r.res != "unsat" {
					r.res = "unknown"
				}
				ch <- r
			}(s)
		}
	}
	for _, s := range solvers {
		if len(only) > 0 {
			ok := false
			for _, o := range only {
				if o == s.name {
					ok = true
				}
			}
			if !ok {
				continue
			}
		}
		n++
		go func(s solverSpec) { ch <- runOne(ctx, s, file, timeoutS) }(s)
	}
	var best solveResult
	best.res = "unknown"
	var errs []string
	for i := 0; i < n; i++ {
		r := <-ch
		if r.res == "sat" || r.res == "unsat" {
			cancel()
			return r
		}
		if r.res == "error" {
			errs = append(errs, r.solver+": "+firstLines(r.out, 3))
		}
		if best.solver == "" || (best.res == "error" && r.res != "error") || r.res == "timeout" {
			if !(best.res == "timeout" && r.res != "timeout") {
				best = r
			}
		}
	}
	if best.res == "error" {
		best.out = strings.Join(errs, " | ")
	}
	return best
}

func firstLines(s string, n int) string {
	ls := strings.Split(strings.TrimSpace(s), "\n")
	if len(ls) > n {
		ls = ls[:n]
	}
	return strings.Join(ls, " / ")
}

// SolveAll discharges obligations in parallel, in two phases so that the machine is not flooded with solver processes:
// (A) every obligation gets ONE z3 5.1 process on the full script with a short timeout (most obligations end here);
// (B) what is left is raced on all solver configurations (and the lite script), a quarter as many at a time.
// Covers and canaries only have to be "not unsat": they stop after phase A unless z3 5.1 errs.
func SolveAll(workDir string, obls []*Obligation, timeoutS, par int) {
	os.MkdirAll(workDir, 0o755)
	var todo []*Obligation
	for _, o := range obls {
		if o.Kind == "ground" {
			continue // decided by evaluation inside govc
		}
		if !o.Cover && o.Goal == "true" {
			o.Result, o.Solver = "unsat", "trivial"
			continue
		}
		todo = append(todo, o)
	}
	short := 3
	if timeoutS < short {
		short = timeoutS
	}
	run := func(list []*Obligation, n int, f func(o *Obligation)) {
		sem := make(chan struct{}, n)
		var wg sync.WaitGroup
		for _, o := range list {
			wg.Add(1)
			sem <- struct{}{}
			go func(o *Obligation) {
				defer wg.Done()
				defer func() { <-sem }()
				f(o)
			}(o)
		}
		wg.Wait()
	}
	record := func(o *Obligation, r solveResult) {
		o.Result, o.Solver, o.Ms = r.res, r.solver, r.ms
		if r.res == "sat" || r.res == "error" {
			o.Model = r.out
		}
		if r.res != "unsat" && r.res != "sat" {
			o.Model = firstLines(r.out, 5)
		}
	}
	run(todo, par, func(o *Obligation) {
		t := short
		if o.Cover && t > 2 {
			t = 2
		}
		record(o, SolveLite(workDir, o.Name, o.Script, "", t, []string{"z3-new"}))
	})
	var rest []*Obligation
	for _, o := range todo {
		if o.Result == "unsat" || o.Result == "sat" {
			continue
		}
		if o.Cover && o.Result != "error" {
			continue // not unsat within the budget: good enough for a cover
		}
		rest = append(rest, o)
	}
	p2 := par / 4
	if p2 < 2 {
		p2 = 2
	}
	run(rest, p2, func(o *Obligation) {
		t := timeoutS
		if o.Cover {
			t = 2
		}
		first := o.Ms
		record(o, SolveLite(workDir, o.Name, o.Script, o.Lite, t, nil))
		o.Ms += first
	})
}

// runAllSolvers runs the three base solvers to completion (no race) on one obligation.
func runAllSolvers(workDir string, o *Obligation, timeoutS int) map[string]string {
	h := sha256.Sum256([]byte(o.Script))
	file := filepath.Join(workDir, "x-"+hex.EncodeToString(h[:8])+".smt2")
	os.WriteFile(file, []byte(o.Script), 0o644)
	res := map[string]string{}
	var mu sync.Mutex
	var wg sync.WaitGroup
	for _, s := range solvers[:3] {
		wg.Add(1)
		go func(s solverSpec) {
			defer wg.Done()
			r := runOne(context.Background(), s, file, timeoutS)
			mu.Lock()
			res[s.name] = r.res
			mu.Unlock()
		}(s)
	}
	wg.Wait()
	return res
}

// seedStability re-runs a discharged obligation under other z3 random seeds: how many of the seeds still give unsat
// (on the full script or, where there is one, the lite script, default or Groebner-free arithmetic) within the timeout,
// and whether cvc5 (seed-independent) proves it.
func seedStability(workDir string, o *Obligation, seeds []int, timeoutS int) (okSeeds int, cvc5ok bool) {
	h := sha256.Sum256([]byte(o.Script))
	file := filepath.Join(workDir, "s-"+hex.EncodeToString(h[:8])+".smt2")
	os.WriteFile(file, []byte(o.Script), 0o644)
	lfile := ""
	if o.Lite != "" {
		lfile = filepath.Join(workDir, "s-"+hex.EncodeToString(h[:8])+".lite.smt2")
		os.WriteFile(lfile, []byte(o.Lite), 0o644)
	}
	one := func(args ...string) bool {
		cctx, cancel := context.WithTimeout(context.Background(), time.Duration(timeoutS+2)*time.Second)
		defer cancel()
		out, _ := exec.CommandContext(cctx, args[0], args[1:]...).CombinedOutput()
		for _, l := range strings.Split(string(out), "\n") {
			l = strings.TrimSpace(l)
			if l == "" || strings.HasPrefix(l, "WARNING") {
				continue
			}
			return l == "unsat"
		}
		return false
	}
	for _, sd := range seeds {
		seed := "smt.random_seed=" + fmtInt(sd)
		t := "-T:" + fmtInt(timeoutS)
		ok := one("z3-new", t, seed, file)
		if !ok && lfile != "" {
			ok = one("z3-new", t, seed, lfile) || one("z3-new", t, seed, "smt.arith.nl.grobner=false", lfile)
		}
		if !ok {
			ok = one("z3-new", t, seed, "smt.mbqi=false", file)
		}
		if ok {
			okSeeds++
		}
	}
	if okSeeds < len(seeds) {
		cvc5ok = one("cvc5", "--tlimit="+fmtInt(timeoutS*1000), file)
		if !cvc5ok && lfile != "" {
			cvc5ok = one("cvc5", "--tlimit="+fmtInt(timeoutS*1000), lfile)
		}
	}
	return
}
