package main

import (
	"fmt"
	"go/ast"
	"go/constant"
	"go/parser"
	"go/token"
	"go/types"
	"math/big"
	"sort"
	"strings"

	"golang.org/x/tools/go/packages"
)

// Env is the evaluation environment of a spec expression.
type Env struct {
	fc       *FCtx
	st       *State
	old      *State
	names    map[string]Val
	oldNames map[string]Val
	specials loopSpecials
	scopePos token.Pos
	pkg      *packages.Package
	inOld    bool
	bound    map[string]Val
	gsuf     string // ghost-name suffix (cache context) for evaluating a callee's contract
	fbPos    token.Pos         // second scope to resolve names in (the caller's, at the call of an inlined helper)
	fbPkg    *packages.Package // ... and its package
}

func (fc *FCtx) newEnv(st, old *State, pos token.Pos) *Env {
	return &Env{fc: fc, st: st, old: old, scopePos: pos, pkg: fc.frame().fi.Pkg, names: map[string]Val{}}
}

func (e *Env) with(name string, v Val) *Env {
	n := *e
	n.bound = map[string]Val{}
	for k, x := range e.bound {
		n.bound[k] = x
	}
	n.bound[name] = v
	return &n
}

func (e *Env) state() *State {
	if e.inOld && e.old != nil {
		return e.old
	}
	return e.st
}

func (fc *FCtx) specBool(n *SNode, env *Env) string {
	v := fc.specEval(n, env)
	if v.S.Kind != KBool {
		oos("spec: expected Bool in %q", n.String())
	}
	return v.T
}

func (fc *FCtx) resolveSpecType(name string, pkg *packages.Package) (*Sort, types.Type) {
	switch name {
	case "", "Int", "int":
		return SInt, nil
	case "Bool", "bool":
		return SBool, nil
	case "Str", "string":
		return SStr, nil
	case "Addr":
		return fc.U.opaque("Addr"), nil
	case "Bz":
		return fc.U.BzSort(), nil
	case "Store":
		return fc.U.StoreSort(), nil
	}
	if t, ok := fc.typeArgs[name]; ok {
		return fc.U.SortOf(t), t
	}
	if fc.E.cs.OpaqueSorts[name] {
		return fc.U.opaque(name), nil
	}
	if pkg == nil {
		// shared spec files have no package: resolve the type in any loaded package that knows it
		var paths []string
		for p := range fc.E.pkgs {
			paths = append(paths, p)
		}
		sort.Strings(paths)
		for _, p := range paths {
			var s *Sort
			var t types.Type
			func() {
				defer func() {
					if r := recover(); r != nil {
						if _, ok := r.(OutOfSubset); !ok {
							panic(r)
						}
					}
				}()
				s, t = fc.resolveSpecType(name, fc.E.pkgs[p])
			}()
			if s != nil {
				return s, t
			}
		}
		oos("spec: cannot resolve type %q in any loaded package", name)
	}
	tv, err := types.Eval(fc.E.fset, pkg.Types, token.NoPos, name)
	if err != nil {
		// composite type expressions mentioning imported packages (map[string]x.T, []*x.T ...): file-level
		// imports are not in package scope, resolve them structurally
		if ex, perr := parser.ParseExpr(name); perr == nil {
			if t := fc.typeFromExpr(ex, pkg); t != nil {
				return fc.U.SortOf(t), t
			}
		}
		// try imports of the package by name qualifier
		if k := strings.Index(name, "."); k > 0 {
			q := name[:k]
			q = strings.TrimLeft(q, "[]*")
			if imp := fc.importByName(pkg, q); imp != nil {
				tv2, err2 := types.Eval(fc.E.fset, imp, token.NoPos, strings.Replace(name, q+".", "", 1))
				if err2 == nil {
					return fc.U.SortOf(tv2.Type), tv2.Type
				}
			}
		}
		oos("spec: cannot resolve type %q: %v", name, err)
	}
	return fc.U.SortOf(tv.Type), tv.Type
}

func (fc *FCtx) lookupName(name string, env *Env) (Val, bool) {
	if v, ok := env.bound[name]; ok {
		return v, true
	}
	if env.specials != nil {
		if v, ok := env.specials[name]; ok {
			return v, true
		}
	}
	if env.inOld && env.oldNames != nil {
		if v, ok := env.oldNames[name]; ok {
			return v, true
		}
	}
	if v, ok := env.names[name]; ok {
		return v, true
	}
	st := env.state()
	if env.scopePos.IsValid() && env.pkg != nil {
		if sc := env.pkg.Types.Scope().Innermost(env.scopePos); sc != nil {
			if _, obj := sc.LookupParent(name, env.scopePos); obj != nil {
				if v, ok := st.vars[obj]; ok {
					return v, true
				}
				// a variable declared in the scope but with no value in this state (e.g. old state)
				if c, ok := obj.(*types.Const); ok {
					if v, ok := fc.constVal(types.TypeAndValue{Type: c.Type(), Value: c.Val()}); ok {
						return v, true
					}
				}
			}
		}
	}
	if env.fbPos.IsValid() && env.fbPkg != nil {
		if sc := env.fbPkg.Types.Scope().Innermost(env.fbPos); sc != nil {
			if _, obj := sc.LookupParent(name, env.fbPos); obj != nil {
				if v, ok := st.vars[obj]; ok {
					return v, true
				}
			}
		}
	}
	if obj, ok := fc.renames[name]; ok {
		if v, ok := st.vars[obj]; ok {
			return v, true
		}
	}
	if fc.changed && len(fc.frames) == 1 && env.scopePos.IsValid() && !env.inOld {
		// a local of the ledgered body that now lives in a helper the function calls (extract-function refactoring): the
		// helper was inlined, its locals are still in the state. Taken only when exactly one such variable has the name.
		// (A wrong pick cannot make a proof clause pass that should fail: asserts and invariants are obligations.)
		var hit types.Object
		n := 0
		for o := range st.vars {
			if o.Name() != name || o.Pkg() == nil {
				continue
			}
			for key := range fc.inlined {
				if fi := fc.E.funcs[key]; fi != nil && fi.Body() != nil && fi.Body().Pos() <= o.Pos() && o.Pos() <= fi.Body().End() && fi.Pkg.Types == o.Pkg() {
					hit = o
					n++
					break
				}
			}
		}
		if n == 1 {
			return st.vars[hit], true
		}
	}
	if env.gsuf != "" {
		if v, ok := st.ghost[name+env.gsuf]; ok {
			return v, true
		}
	}
	if v, ok := st.ghost[name]; ok {
		return v, true
	}
	switch name {
	case "true":
		return Val{T: "true", S: SBool}, true
	case "false":
		return Val{T: "false", S: SBool}, true
	case "nil":
		return Val{T: "0", S: SInt}, true
	case "MaxInt64":
		return Val{T: "9223372036854775807", S: SInt}, true
	case "MinInt64":
		return Val{T: "(- 9223372036854775808)", S: SInt}, true
	case "MaxUint64":
		return Val{T: "18446744073709551615", S: SInt}, true
	case "T62":
		return Val{T: "4611686018427387904", S: SInt}, true
	case "T61":
		return Val{T: "2305843009213693952", S: SInt}, true
	case "TimeZero":
		return Val{T: timeZeroNs, S: SInt}, true
	}
	if env.pkg != nil {
		if obj := env.pkg.Types.Scope().Lookup(name); obj != nil {
			if v, ok := fc.objVal(obj); ok {
				return v, true
			}
		}
	}
	if inv, ok := fc.E.cs.Invs[name]; ok {
		e2 := *env
		e2.pkg = fc.E.pkgs[inv.Pkg]
		return Val{T: fc.specBool(inv.Expr, &e2), S: SBool}, true
	}
	if sf, ok := fc.E.cs.Specs[name]; ok && len(sf.Params) == 0 {
		fc.declareSpecFn(sf)
		return Val{T: "spec_" + sf.Name, S: fc.specRet(sf)}, true
	}
	return Val{}, false
}

func (fc *FCtx) objVal(obj types.Object) (Val, bool) {
	switch o := obj.(type) {
	case *types.Const:
		return fc.constVal(types.TypeAndValue{Type: o.Type(), Value: o.Val()})
	case *types.Var:
		ts := typeString(o.Type())
		if ts == "*cosmossdk.io/errors.Error" || isErrorType(o.Type()) {
			return Val{T: fmt.Sprint(fc.U.ErrCode(o.Pkg().Path() + "." + o.Name())), S: SInt, GoT: o.Type()}, true
		}
		if isByteSliceType(o.Type()) && o.Pkg() != nil && o.Parent() == o.Pkg().Scope() {
			return fc.keyConst(o), true
		}
	}
	return Val{}, false
}

func (fc *FCtx) specRet(sf *SpecFn) *Sort {
	s, _ := fc.resolveSpecType(sf.Ret, fc.E.pkgs[sf.Pkg])
	return s
}

// declareSpecFn emits the SMT definition of a spec function (once per universe).
func (fc *FCtx) declareSpecFn(sf *SpecFn) {
	if fc.specDecl[sf.Name] {
		return
	}
	fc.specDecl[sf.Name] = true
	pkg := fc.E.pkgs[sf.Pkg]
	ret := fc.specRet(sf)
	var psorts []*Sort
	var ptypes []types.Type
	for _, p := range sf.Params {
		s, t := fc.resolveSpecType(p.Type, pkg)
		psorts = append(psorts, s)
		ptypes = append(ptypes, t)
	}
	name := "spec_" + sf.Name
	if sf.Body == nil {
		fc.U.Fun(name, psorts, ret)
		return
	}
	// always: declare-fun + defining axiom with trigger (works for recursive definitions)
	fc.U.Fun(name, psorts, ret)
	env := &Env{fc: fc, st: &State{vars: map[types.Object]Val{}, ghost: map[string]Val{}}, pkg: pkg, names: map[string]Val{}, bound: map[string]Val{}}
	var bs, args []string
	for i, p := range sf.Params {
		vn := "sp_" + sanitize(p.Name)
		bs = append(bs, fmt.Sprintf("(%s %s)", vn, psorts[i].Name))
		args = append(args, vn)
		env.bound[p.Name] = Val{T: vn, S: psorts[i], GoT: ptypes[i]}
	}
	body := fc.specEval(sf.Body, env)
	appl := app(name, args...)
	if len(bs) == 0 {
		fc.U.Axiom("spec "+sf.Name, fmt.Sprintf("(= %s %s)", appl, body.T))
		return
	}
	fc.U.Axiom("spec "+sf.Name, fmt.Sprintf("(forall (%s) (! (= %s %s) :pattern (%s)))", strings.Join(bs, " "), appl, body.T, appl))
}

func (fc *FCtx) specEval(n *SNode, env *Env) Val {
	switch n.Op {
	case "num":
		b, ok := new(big.Int).SetString(n.Name, 0)
		if !ok {
			oos("spec: bad number %s", n.Name)
		}
		return Val{T: bigLit(b), S: SInt}
	case "str":
		return Val{T: fc.U.StrLit(n.Name), S: SStr}
	case "id":
		if v, ok := fc.lookupName(n.Name, env); ok {
			return v
		}
		oos("spec: unknown name %q", n.Name)
	case "old":
		e2 := *env
		e2.inOld = true
		return fc.specEval(n.Args[0], &e2)
	case "un":
		x := fc.specEval(n.Args[0], env)
		if n.Name == "!" {
			return Val{T: not(x.T), S: SBool}
		}
		return Val{T: app("-", x.T), S: SInt}
	case "ite":
		c := fc.specBool(n.Args[0], env)
		a := fc.specEval(n.Args[1], env)
		b := fc.specEval(n.Args[2], env)
		return Val{T: ite(c, a.T, b.T), S: a.S, GoT: a.GoT}
	case "let":
		v := fc.specEval(n.Args[0], env)
		return fc.specEval(n.Args[1], env.with(n.Name, v))
	case "forall", "exists":
		e2 := env
		var bs []string
		var guards []string
		for _, b := range n.Binders {
			s, t := fc.resolveSpecType(b.Type, env.pkg)
			fc.U.fresh++
			vn := fmt.Sprintf("q_%s_%d", sanitize(b.Name), fc.U.fresh)
			bs = append(bs, fmt.Sprintf("(%s %s)", vn, s.Name))
			bv := Val{T: vn, S: s, GoT: t}
			e2 = e2.with(b.Name, bv)
			if t != nil {
				if w := fc.U.WFShallow(bv); w != "true" {
					guards = append(guards, w)
				}
			}
		}
		body := fc.specBool(n.Args[0], e2)
		if n.Op == "forall" {
			inner := implies(and(guards...), body)
			if len(n.Args) > 1 {
				var groups []string
				var ps []string
				for _, tn := range n.Args[1:] {
					if tn.Op == "trigsep" {
						groups = append(groups, fmt.Sprintf(":pattern (%s)", strings.Join(ps, " ")))
						ps = nil
						continue
					}
					ps = append(ps, fc.specEval(tn, e2).T)
				}
				groups = append(groups, fmt.Sprintf(":pattern (%s)", strings.Join(ps, " ")))
				inner = fmt.Sprintf("(! %s %s)", inner, strings.Join(groups, " "))
			}
			return Val{T: fmt.Sprintf("(forall (%s) %s)", strings.Join(bs, " "), inner), S: SBool}
		}
		return Val{T: fmt.Sprintf("(exists (%s) %s)", strings.Join(bs, " "), and(append(guards, body)...)), S: SBool}
	case "bin":
		return fc.specBin(n, env)
	case "field":
		return fc.specField(n, env)
	case "index":
		b := fc.specEval(n.Args[0], env)
		i := fc.specEval(n.Args[1], env)
		switch b.S.Kind {
		case KSlice:
			return Val{T: fmt.Sprintf("(select %s %s)", slEl(b), i.T), S: b.S.Elem, GoT: elemType(b.GoT)}
		case KMap:
			return Val{T: fmt.Sprintf("(select %s %s)", mpVal(b), i.T), S: b.S.Elem, GoT: elemType(b.GoT)}
		case KStore:
			return Val{T: fmt.Sprintf("(select %s %s)", b.T, fc.toBz(i)), S: fc.U.BzSort()}
		}
		if isBz(b.S) {
			return Val{T: fmt.Sprintf("(bz_at %s %s)", b.T, i.T), S: SInt}
		}
		oos("spec: indexing %s", b.S.Name)
	case "call":
		return fc.specCall(n, env)
	case "lit":
		return fc.specLit(n, env)
	case "slice":
		oos("spec: slice expressions are not supported; use index arithmetic")
	}
	oos("spec: unsupported node %s", n.Op)
	return Val{}
}

func (fc *FCtx) specBin(n *SNode, env *Env) Val {
	switch n.Name {
	case "&&":
		return Val{T: and(fc.specBool(n.Args[0], env), fc.specBool(n.Args[1], env)), S: SBool}
	case "||":
		return Val{T: or(fc.specBool(n.Args[0], env), fc.specBool(n.Args[1], env)), S: SBool}
	case "==>":
		return Val{T: implies(fc.specBool(n.Args[0], env), fc.specBool(n.Args[1], env)), S: SBool}
	case "<==>":
		return Val{T: fmt.Sprintf("(= %s %s)", fc.specBool(n.Args[0], env), fc.specBool(n.Args[1], env)), S: SBool}
	}
	x := fc.specEval(n.Args[0], env)
	y := fc.specEval(n.Args[1], env)
	switch n.Name {
	case "==", "!=":
		// nil compared with a byte string
		if isBz(x.S) && n.Args[1].Op == "id" && n.Args[1].Name == "nil" {
			y = Val{T: "bz_nil", S: x.S}
		}
		if isBz(y.S) && n.Args[0].Op == "id" && n.Args[0].Name == "nil" {
			x = Val{T: "bz_nil", S: y.S}
		}
		if x.S != y.S && !(x.S.Kind == KInt && y.S.Kind == KInt) {
			oos("spec: comparing %s with %s in %q", x.S.Name, y.S.Name, n.String())
		}
		t := fmt.Sprintf("(= %s %s)", x.T, y.T)
		if n.Name == "!=" {
			t = not(t)
		}
		return Val{T: t, S: SBool}
	case "<", "<=", ">", ">=":
		if x.S.Kind == KStr {
			fc.U.Fun("str_lt", []*Sort{SStr, SStr}, SBool)
			switch n.Name {
			case "<":
				return Val{T: app("str_lt", x.T, y.T), S: SBool}
			case ">":
				return Val{T: app("str_lt", y.T, x.T), S: SBool}
			case "<=":
				return Val{T: not(app("str_lt", y.T, x.T)), S: SBool}
			default:
				return Val{T: not(app("str_lt", x.T, y.T)), S: SBool}
			}
		}
		return Val{T: app(n.Name, x.T, y.T), S: SBool}
	case "+", "-", "*":
		return Val{T: app(n.Name, x.T, y.T), S: SInt}
	case "/":
		return Val{T: app("tdiv", x.T, y.T), S: SInt}
	case "%":
		return Val{T: app("tmod", x.T, y.T), S: SInt}
	}
	oos("spec: operator %s", n.Name)
	return Val{}
}

func (fc *FCtx) specField(n *SNode, env *Env) Val {
	// qualified name pkg.X ?
	if n.Args[0].Op == "id" {
		if _, ok := fc.lookupName(n.Args[0].Name, env); !ok && env.pkg != nil {
			q := n.Args[0].Name
			if imp := fc.importByName(env.pkg, q); imp != nil {
				if obj := imp.Scope().Lookup(n.Name); obj != nil {
					if v, ok := fc.objVal(obj); ok {
						return v
					}
				}
			}
			for _, imp := range env.pkg.Types.Imports() {
				if imp.Name() == q {
					if obj := imp.Scope().Lookup(n.Name); obj != nil {
						if v, ok := fc.objVal(obj); ok {
							return v
						}
					}
				}
			}
			// import aliases: search file imports
			for _, f := range env.pkg.Syntax {
				for _, is := range f.Imports {
					if is.Name != nil && is.Name.Name == q {
						path := strings.Trim(is.Path.Value, "\"")
						for _, imp := range env.pkg.Types.Imports() {
							if imp.Path() == path {
								if obj := imp.Scope().Lookup(n.Name); obj != nil {
									if v, ok := fc.objVal(obj); ok {
										return v
									}
								}
							}
						}
					}
				}
			}
			oos("spec: unknown qualified name %s.%s", q, n.Name)
		}
	}
	x := fc.specEval(n.Args[0], env)
	if x.S.Kind == KData {
		if v, ok := fieldSel(x, n.Name); ok {
			return v
		}
		// embedded struct fields: search one level
		for _, f := range x.S.Fields {
			if f.S.Kind == KData {
				inner := Val{T: app(x.S.Name+"_"+sanitize(f.Name), x.T), S: f.S, GoT: f.GoT}
				if v, ok := fieldSel(inner, n.Name); ok {
					return v
				}
			}
		}
	}
	oos("spec: no field %s on %s", n.Name, x.S.Name)
	return Val{}
}

func (fc *FCtx) specLit(n *SNode, env *Env) Val {
	tn := n.Args[0]
	name := tn.Name
	if tn.Op == "field" {
		name = tn.Args[0].Name + "." + tn.Name
	}
	s, t := fc.resolveSpecType(name, env.pkg)
	if s.Kind != KData {
		oos("spec: literal of non-struct %s", name)
	}
	if len(n.Args)-1 != len(s.Fields) {
		oos("spec: literal %s needs %d fields", name, len(s.Fields))
	}
	var args []string
	for _, a := range n.Args[1:] {
		args = append(args, fc.specEval(a, env).T)
	}
	return Val{T: app("mk_"+s.Name, args...), S: s, GoT: t}
}

func (fc *FCtx) specCall(n *SNode, env *Env) Val {
	fn := n.Args[0]
	var args []Val
	evalArgs := func() {
		for _, a := range n.Args[1:] {
			args = append(args, fc.specEval(a, env))
		}
	}
	if fn.Op == "field" && fn.Args[0].Op == "id" && env.pkg != nil {
		if _, isVal := fc.lookupName(fn.Args[0].Name, env); !isVal {
			if p := fc.importByName(env.pkg, fn.Args[0].Name); p != nil {
				key := p.Path() + "." + fn.Name
				if c := fc.E.cs.Funcs[key]; c != nil && c.Flags["keyfn"] != "" {
					evalArgs()
					return fc.keyFnApply(key, args)
				}
				if c := fc.E.cs.Funcs[key]; c != nil && c.Flags["pure"] != "" {
					if v, ok := fc.specPureCallKey(key, n, env); ok {
						return v
					}
				}
				if sf, ok := fc.E.cs.Specs[fn.Name]; ok && sf.Pkg == p.Path() {
					evalArgs()
					fc.declareSpecFn(sf)
					var ts []string
					for _, a := range args {
						ts = append(ts, a.T)
					}
					fc.unfoldOnce(sf, args, env)
					return Val{T: app("spec_"+sf.Name, ts...), S: fc.specRet(sf)}
				}
				oos("spec: %s.%s is not a declared key function", fn.Args[0].Name, fn.Name)
			}
		}
	}
	if fn.Op == "field" {
		// method-style intrinsic: x.Unix(), x.IsZero(), x.Before(y) ...
		recv := fc.specEval(fn.Args[0], env)
		evalArgs()
		if v, ok := fc.specMethod(recv, fn.Name, args); ok {
			return v
		}
		oos("spec: unknown method %s on %s", fn.Name, recv.S.Name)
	}
	if fn.Op != "id" {
		oos("spec: call of non-name")
	}
	switch fn.Name {
	case "len":
		evalArgs()
		switch args[0].S.Kind {
		case KSlice:
			return Val{T: slLen(args[0]), S: SInt}
		case KStr:
			return Val{T: app("str_len", args[0].T), S: SInt}
		}
		if isBz(args[0].S) {
			return Val{T: app("bz_len", args[0].T), S: SInt}
		}
		if args[0].S.Kind == KMap {
			return Val{T: app(fc.mapCard(args[0].S), args[0].T), S: SInt}
		}
		if args[0].S.Name == "Addr" {
			fc.U.Fun("addr_len", []*Sort{args[0].S}, SInt)
			return Val{T: app("addr_len", args[0].T), S: SInt}
		}
		oos("spec: len of %s", args[0].S.Name)
	case "cap":
		evalArgs()
		if isBz(args[0].S) {
			return Val{T: app("bz_cap", args[0].T), S: SInt}
		}
		return Val{T: slCap(args[0]), S: SInt}
	case "abs":
		evalArgs()
		return Val{T: app("iabs", args[0].T), S: SInt}
	case "min":
		evalArgs()
		return Val{T: app("imin", args[0].T, args[1].T), S: SInt}
	case "max":
		evalArgs()
		return Val{T: app("imax", args[0].T, args[1].T), S: SInt}
	case "has":
		evalArgs()
		if args[0].S.Kind == KStore {
			return Val{T: fmt.Sprintf("(not (= (select %s %s) bz_nil))", args[0].T, fc.toBz(args[1])), S: SBool}
		}
		if args[0].S.Kind != KMap {
			oos("spec: has() on %s", args[0].S.Name)
		}
		return Val{T: fmt.Sprintf("(select %s %s)", mpDom(args[0]), args[1].T), S: SBool}
	case "iskey", "keyarg":
		key, sig := fc.specKeyFn(n.Args[1], env)
		// make sure the key function symbol and its axioms exist: apply to dummy bound variables is not
		// possible here, so declare through a direct call with fresh constants
		var dummies []Val
		for i := 0; i < sig.Params().Len(); i++ {
			s := fc.U.SortOf(sig.Params().At(i).Type())
			dummies = append(dummies, Val{T: fc.U.Const(fmt.Sprintf("kd_%s_%d", sanitize(shortPkg(key)), i), s), S: s})
		}
		fc.keyFnApply(key, dummies)
		kv := fc.specEval(n.Args[2], env)
		if fn.Name == "iskey" {
			return Val{T: fmt.Sprintf("(= (key_tag %s) %d)", fc.toBz(kv), fc.keyTag(key)), S: SBool}
		}
		if n.Args[3].Op != "num" {
			oos("spec: keyarg index must be a literal")
		}
		var idx int
		fmt.Sscan(n.Args[3].Name, &idx)
		pt := sig.Params().At(idx).Type()
		return Val{T: fmt.Sprintf("(key_%s_inv%d %s)", sanitize(shortPkg(key)), idx, fc.toBz(kv)), S: fc.U.SortOf(pt), GoT: pt}
	case "enc":
		evalArgs()
		return Val{T: app(fc.encFn(args[0].S), args[0].T), S: fc.U.BzSort()}
	case "isnilptr":
		evalArgs()
		fname := "isnil_" + args[0].S.Name
		fc.U.Fun(fname, []*Sort{args[0].S}, SBool)
		return Val{T: app(fname, args[0].T), S: SBool}
	case "bzmk":
		evalArgs()
		var es []string
		for _, a := range args {
			es = append(es, a.T)
		}
		return Val{T: fc.bzMk(es), S: fc.U.BzSort()}
	case "sdkctx":
		evalArgs()
		cs := fc.ctxTheory()
		fc.U.Fun("unwrap_ctx", []*Sort{args[0].S}, cs)
		return Val{T: app("unwrap_ctx", args[0].T), S: cs}
	case "bzcat":
		evalArgs()
		return Val{T: fmt.Sprintf("(bz_cat %s %s)", fc.toBz(args[0]), fc.toBz(args[1])), S: fc.U.BzSort()}
	case "bzslice":
		evalArgs()
		return Val{T: fmt.Sprintf("(bz_slice %s %s %s)", fc.toBz(args[0]), args[1].T, args[2].T), S: fc.U.BzSort()}
	case "anybox":
		evalArgs()
		if args[0].GoT == nil {
			oos("spec: anybox needs a value with a known Go type")
		}
		is := fc.U.opaque("I_any")
		return fc.box(args[0], is, nil)
	case "list":
		evalArgs()
		if len(args) == 0 {
			oos("spec: list() needs elements")
		}
		es := args[0].S
		ss := fc.U.sliceSort(es)
		arr := fc.constArray("Int", es, fc.zeroTerm(es, args[0].GoT))
		for i, a := range args {
			arr = fmt.Sprintf("(store %s %d %s)", arr, i, a.T)
		}
		n := fmt.Sprint(len(args))
		return Val{T: mkSlice(ss, n, n, arr), S: ss}
	case "absfn":
		if n.Args[1].Op != "str" {
			oos("spec: absfn() needs a function name string")
		}
		var as []Val
		var sorts []*Sort
		var ts []string
		for _, a := range n.Args[2:] {
			v := fc.specEval(a, env)
			as = append(as, v)
			sorts = append(sorts, v.S)
			ts = append(ts, v.T)
		}
		fnm := n.Args[1].Name
		ridx := 0
		if k := strings.Index(fnm, "#"); k >= 0 {
			fmt.Sscan(fnm[k+1:], &ridx)
			fnm = fnm[:k]
		}
		fo := fc.lookupFuncByName(env.pkg, fnm)
		if fo == nil {
			oos("spec: absfn: unknown function %q", fnm)
		}
		sg := fo.Type().(*types.Signature)
		rt := sg.Results().At(ridx).Type()
		rs := fc.U.SortOf(rt)
		fname := extFnName(fo.FullName(), sorts, ridx)
		fc.U.Fun(fname, sorts, rs)
		return Val{T: app(fname, ts...), S: rs, GoT: rt}
	case "ext":
		if n.Args[1].Op != "str" {
			oos("spec: ext() needs a function alias string")
		}
		al, ok := extAliases[n.Args[1].Name]
		if !ok {
			oos("spec: unknown ext alias %q", n.Args[1].Name)
		}
		var as []Val
		var sorts []*Sort
		var ts []string
		for _, a := range n.Args[2:] {
			v := fc.specEval(a, env)
			as = append(as, v)
			sorts = append(sorts, v.S)
			ts = append(ts, v.T)
		}
		rs, rt := fc.resolveSpecType(al.ret, env.pkg)
		ridx := 0
		if k := strings.Index(n.Args[1].Name, "#"); k >= 0 {
			fmt.Sscan(n.Args[1].Name[k+1:], &ridx)
		}
		fname := extFnName(al.full, sorts, ridx)
		fc.U.Fun(fname, sorts, rs)
		return Val{T: app(fname, ts...), S: rs, GoT: rt}
	case "with":
		evalArgs()
		if n.Args[2].Op != "str" || args[0].S.Kind != KData {
			oos("spec: with(struct, \"Field\", value)")
		}
		if _, ok := fieldSel(args[0], n.Args[2].Name); !ok {
			oos("spec: with: no field %s", n.Args[2].Name)
		}
		return Val{T: fieldUpdate(args[0], n.Args[2].Name, args[2].T), S: args[0].S, GoT: args[0].GoT}
	case "unboxStr":
		evalArgs()
		return Val{T: app(fc.unboxFn(SStr, args[0].S), args[0].T), S: SStr}
	case "addrstr":
		evalArgs()
		fc.bech32Fns()
		return Val{T: app("addr_string", args[0].T), S: SStr}
	case "bech32addr":
		evalArgs()
		fc.bech32Fns()
		return Val{T: app("bech32_addr", args[0].T), S: fc.U.opaque("Addr")}
	case "bech32ok":
		evalArgs()
		fc.bech32Fns()
		return Val{T: "(= " + app("bech32_err", args[0].T) + " 0)", S: SBool}
	case "pcount":
		evalArgs()
		fc.iterSort()
		fc.U.Fun("pcount", []*Sort{fc.U.StoreSort(), fc.U.BzSort()}, SInt)
		return Val{T: fmt.Sprintf("(pcount %s %s)", args[0].T, fc.toBz(args[1])), S: SInt}
	case "fvresult":
		// fvresult(i): the i-th result of the last call made through a function value (a handler looked up in a router)
		if len(n.Args) != 2 || n.Args[1].Op != "num" {
			oos("spec: fvresult needs a literal result index")
		}
		if v, ok := env.state().ghost["fv@r"+n.Args[1].Name]; ok {
			return v
		}
		// no such call on this path: an unconstrained value (clauses about it are guarded by the path's outcome)
		return Val{T: fc.U.Fresh("nofv", SInt), S: SInt}
	case "isolated":
		evalArgs()
		suf, ok := fc.ctxSuffixOf[args[0].T]
		if !ok {
			// the function's own context parameter (or a non-cache context): nothing to say
			if len(fc.frames) > 0 && env.gsuf == "" && env.scopePos.IsValid() {
				return Val{T: "true", S: SBool}
			}
			// delegation: the context handed on is the caller's own context parameter and the caller itself requires
			// that parameter to be isolated (its own callers discard the context when it fails)
			if fc.C != nil && len(fc.frames) >= 1 {
				for _, r := range fc.C.Requires {
					if r.Expr != nil && r.Expr.Op == "call" && len(r.Expr.Args) == 2 && r.Expr.Args[0].Op == "id" && r.Expr.Args[0].Name == "isolated" {
						own := fc.newEnv(fc.entry, fc.entry, fc.FI.Body().Lbrace+1)
						func() {
							defer func() { recover() }()
							if v := fc.specEval(r.Expr.Args[1], own); v.T == args[0].T {
								ok = true
							}
						}()
					}
				}
				if ok {
					return Val{T: "true", S: SBool}
				}
			}
			return Val{T: "false", S: SBool}
		}
		parent := fc.cacheParent[suf]
		var cs []string
		st := env.state()
		for _, g := range fc.ghostNames(st) {
			if strings.HasSuffix(g, suf) {
				if pv, ok := st.ghost[baseGhost(g)+parent]; ok && pv.T != st.ghost[g].T {
					cs = append(cs, fmt.Sprintf("(= %s %s)", st.ghost[g].T, pv.T))
				}
			}
		}
		return Val{T: and(cs...), S: SBool}
	case "str":
		evalArgs()
		bzs := fc.U.BzSort()
		fc.U.Fun("conv_Bz_Str", []*Sort{bzs}, SStr)
		fc.U.Fun("conv_Str_Bz", []*Sort{SStr}, bzs)
		return Val{T: app("conv_Bz_Str", fc.toBz(args[0])), S: SStr}
	case "bytes":
		evalArgs()
		bzs := fc.U.BzSort()
		fc.U.Fun("conv_Bz_Str", []*Sort{bzs}, SStr)
		fc.U.Fun("conv_Str_Bz", []*Sort{SStr}, bzs)
		// []byte(s) is never nil (the empty string converts to an empty, non-nil slice) and has the string's length
		fc.U.Axiom("[]byte(string): non-nil, same length", "(forall ((s Str)) (! (and (not (= (conv_Str_Bz s) bz_nil)) (= (bz_len (conv_Str_Bz s)) (str_len s))) :pattern ((conv_Str_Bz s))))")
		return Val{T: app("conv_Str_Bz", args[0].T), S: bzs}
	case "itlen":
		evalArgs()
		fc.iterSort()
		return Val{T: fmt.Sprintf("(it_len %s)", itID(args[0])), S: SInt}
	case "itpos":
		evalArgs()
		return Val{T: itPos(args[0]), S: SInt}
	case "itkey":
		evalArgs()
		return Val{T: fmt.Sprintf("(it_key %s %s)", itID(args[0]), args[1].T), S: fc.U.BzSort()}
	case "itval":
		evalArgs()
		return Val{T: fmt.Sprintf("(it_val %s %s)", itID(args[0]), args[1].T), S: fc.U.BzSort()}
	case "hasprefix":
		evalArgs()
		fc.iterSort()
		return Val{T: fmt.Sprintf("(hasprefix %s %s)", fc.toBz(args[0]), fc.toBz(args[1])), S: SBool}
	case "bzlt":
		evalArgs()
		fc.iterSort()
		return Val{T: fmt.Sprintf("(bz_lt %s %s)", fc.toBz(args[0]), fc.toBz(args[1])), S: SBool}
	case "zero":
		tn := n.Args[1]
		name := tn.Name
		if tn.Op == "str" {
			name = tn.Name
		} else if tn.Op == "field" {
			name = tn.Args[0].Name + "." + tn.Name
		}
		s, t := fc.resolveSpecType(name, env.pkg)
		return Val{T: fc.zeroTerm(s, t), S: s, GoT: t}
	case "typeis", "unbox":
		// typeis(x, "T"): the dynamic type of the interface value x is T; unbox(x, "T"): its value as a T
		x := fc.specEval(n.Args[1], env)
		if n.Args[2].Op != "str" {
			oos("spec: %s needs a quoted type", fn.Name)
		}
		_, t := fc.resolveSpecType(n.Args[2].Name, env.pkg)
		if t == nil {
			oos("spec: %s: not a Go type: %s", fn.Name, n.Args[2].Name)
		}
		if x.S.Kind != KOpaque {
			// a value of statically known type (the argument of an extern whose parameter is an interface is bound
			// unboxed): decided by the sorts
			cs := fc.U.SortOf(t)
			same := cs == x.S || cs.Name == x.S.Name
			if fn.Name == "typeis" {
				if same {
					return Val{T: "true", S: SBool}
				}
				return Val{T: "false", S: SBool}
			}
			if same {
				x.GoT = t
				return x
			}
			return Val{T: fc.U.Fresh("unbox_other", cs), S: cs, GoT: t}
		}
		if fn.Name == "typeis" {
			return Val{T: fc.dynTypeIs(x, t), S: SBool}
		}
		cs := fc.U.SortOf(t)
		return Val{T: app(fc.unboxFn(cs, x.S), x.T), S: cs, GoT: t}
	case "dec":
		tn := n.Args[1]
		name := tn.Name
		if tn.Op == "field" {
			name = tn.Args[0].Name + "." + tn.Name
		}
		s, t := fc.resolveSpecType(name, env.pkg)
		bzv := fc.specEval(n.Args[2], env)
		return Val{T: app(fc.decFn(s), fc.toBz(bzv)), S: s, GoT: t}
	case "u64be":
		evalArgs()
		fc.u64be()
		return Val{T: app("u64be", args[0].T), S: fc.U.BzSort()}
	case "u64of":
		evalArgs()
		fc.u64be()
		return Val{T: app("u64of", fc.toBz(args[0])), S: SInt}
	case "wrap64":
		evalArgs()
		return Val{T: app("wrap_int64", args[0].T), S: SInt}
	case "wrapu64":
		evalArgs()
		return Val{T: app("wrap_uint64", args[0].T), S: SInt}
	case "pow2":
		evalArgs()
		return Val{T: app("pow2", args[0].T), S: SInt}
	case "wrapu32":
		evalArgs()
		return Val{T: app("wrap_uint32", args[0].T), S: SInt}
	case "wrapu8":
		evalArgs()
		return Val{T: app("wrap_uint8", args[0].T), S: SInt}
	case "inInt64":
		evalArgs()
		return Val{T: app("in_int64", args[0].T), S: SBool}
	case "inUint64":
		evalArgs()
		return Val{T: app("in_uint64", args[0].T), S: SBool}
	case "store":
		evalArgs()
		b := args[0]
		switch b.S.Kind {
		case KSlice:
			return Val{T: mkSlice(b.S, slLen(b), slCap(b), fmt.Sprintf("(store %s %s %s)", slEl(b), args[1].T, args[2].T)), S: b.S, GoT: b.GoT}
		case KMap:
			return Val{T: app("mk_"+b.S.Name, fmt.Sprintf("(store %s %s true)", mpDom(b), args[1].T), fmt.Sprintf("(store %s %s %s)", mpVal(b), args[1].T, args[2].T)), S: b.S, GoT: b.GoT}
		case KStore:
			return Val{T: fmt.Sprintf("(store %s %s %s)", b.T, fc.toBz(args[1]), fc.toBz(args[2])), S: b.S}
		}
		oos("spec: store on %s", b.S.Name)
	case "remove":
		evalArgs()
		b := args[0]
		if b.S.Kind == KStore {
			return Val{T: fmt.Sprintf("(store %s %s bz_nil)", b.T, fc.toBz(args[1])), S: b.S}
		}
		if b.S.Kind != KMap {
			oos("spec: remove on %s", b.S.Name)
		}
		return Val{T: app("mk_"+b.S.Name, fmt.Sprintf("(store %s %s false)", mpDom(b), args[1].T), mpVal(b)), S: b.S, GoT: b.GoT}
	}
	if env.pkg != nil {
		if c := fc.E.cs.Funcs[env.pkg.PkgPath+"."+fn.Name]; c != nil && c.Flags["keyfn"] != "" {
			evalArgs()
			return fc.keyFnApply(env.pkg.PkgPath+"."+fn.Name, args)
		}
	}
	if sf, ok := fc.E.cs.Specs[fn.Name]; ok {
		evalArgs()
		fc.declareSpecFn(sf)
		if len(args) != len(sf.Params) {
			oos("spec: %s expects %d arguments", sf.Name, len(sf.Params))
		}
		var ts []string
		for i, a := range args {
			// the literal nil passed for a byte-string parameter
			if ps, _ := fc.resolveSpecType(sf.Params[i].Type, fc.E.pkgs[sf.Pkg]); ps != nil && isBz(ps) && a.S == SInt && a.T == "0" && n.Args[i+1].Op == "id" && n.Args[i+1].Name == "nil" {
				a.T = "bz_nil"
			}
			ts = append(ts, a.T)
		}
		fc.unfoldOnce(sf, args, env)
		return Val{T: app("spec_"+sf.Name, ts...), S: fc.specRet(sf)}
	}
	// application of a pure Go function that is under contract: uninterpreted symbol + its ensures
	if v, ok := fc.specPureCall(fn.Name, n, env); ok {
		return v
	}
	oos("spec: unknown function %q", fn.Name)
	return Val{}
}

// specMethod: intrinsic methods usable inside specs (time, big ints, strings).
func (fc *FCtx) specMethod(recv Val, name string, args []Val) (Val, bool) {
	if recv.S.Kind == KOpaque && recv.S.Name == "Ctx" {
		fc.ctxTheory()
		switch name {
		case "BlockTime":
			return Val{T: app("ctx_blocktime", recv.T), S: SInt, GoT: fc.E.timeType()}, true
		case "BlockHeight":
			return Val{T: app("ctx_blockheight", recv.T), S: SInt}, true
		case "ChainID":
			return Val{T: app("ctx_chainid", recv.T), S: SStr}, true
		case "HeaderHash":
			fc.U.Fun("ctx_headerhash", []*Sort{recv.S}, fc.U.BzSort())
			return Val{T: app("ctx_headerhash", recv.T), S: fc.U.BzSort()}, true
		}
		// any other side-effect-free accessor of sdk.Context that the code sees as an uninterpreted function of the
		// context (e.g. VoteInfos): the same symbol
		if recv.GoT != nil {
			if obj, _, _ := types.LookupFieldOrMethod(recv.GoT, true, nil, name); obj != nil {
				if fn, ok := obj.(*types.Func); ok && isPureExtern(fn.FullName()) {
					sig := fn.Type().(*types.Signature)
					if sig.Results().Len() == 1 && sig.Params().Len() == len(args) {
						sorts := []*Sort{recv.S}
						ts := []string{recv.T}
						for _, a := range args {
							sorts = append(sorts, a.S)
							ts = append(ts, a.T)
						}
						rt := sig.Results().At(0).Type()
						rs := fc.U.SortOf(rt)
						fname := extFnName(fn.FullName(), sorts, 0)
						fc.U.Fun(fname, sorts, rs)
						return Val{T: app(fname, ts...), S: rs, GoT: rt}, true
					}
				}
			}
		}
	}
	if recv.GoT != nil && isTime(recv.GoT) || (recv.GoT == nil && recv.S.Kind == KInt) {
		switch name {
		case "Unix":
			return Val{T: fmt.Sprintf("(div %s 1000000000)", recv.T), S: SInt}, true
		case "UnixNano":
			return Val{T: recv.T, S: SInt}, true
		case "Nanosecond":
			return Val{T: fmt.Sprintf("(mod %s 1000000000)", recv.T), S: SInt}, true
		case "IsZero":
			if recv.GoT != nil && isTime(recv.GoT) {
				return Val{T: fmt.Sprintf("(= %s %s)", recv.T, timeZeroNs), S: SBool}, true
			}
			return Val{T: fmt.Sprintf("(= %s 0)", recv.T), S: SBool}, true
		case "Before":
			return Val{T: app("<", recv.T, args[0].T), S: SBool}, true
		case "After":
			return Val{T: app(">", recv.T, args[0].T), S: SBool}, true
		case "Equal":
			return Val{T: app("=", recv.T, args[0].T), S: SBool}, true
		case "Add":
			return Val{T: app("+", recv.T, args[0].T), S: SInt, GoT: recv.GoT}, true
		}
	}
	if recv.S.Kind == KInt {
		switch name {
		case "IsZero":
			return Val{T: fmt.Sprintf("(= %s 0)", recv.T), S: SBool}, true
		case "IsNegative":
			return Val{T: fmt.Sprintf("(< %s 0)", recv.T), S: SBool}, true
		case "IsPositive":
			return Val{T: fmt.Sprintf("(> %s 0)", recv.T), S: SBool}, true
		case "Int64", "Uint64", "BigInt":
			return recv, true
		}
	}
	return Val{}, false
}

// specPureCall applies a real Go function inside a spec: an uninterpreted symbol constrained by the
// function's own (proved) contract. Only for functions whose contract is marked `pure`.
func (fc *FCtx) specPureCall(name string, n *SNode, env *Env) (Val, bool) {
	if env.pkg == nil {
		return Val{}, false
	}
	return fc.specPureCallKey(env.pkg.PkgPath+"."+name, n, env)
}

func (fc *FCtx) specPureCallKey(key string, n *SNode, env *Env) (Val, bool) {
	name := key
	c := fc.E.cs.Funcs[key]
	fi := fc.E.funcs[key]
	if c == nil || fi == nil || c.Flags["pure"] == "" {
		return Val{}, false
	}
	sig := fi.Sig
	if sig.Results().Len() != 1 {
		oos("spec: pure function %s must have one result", name)
	}
	var args []Val
	var sorts []*Sort
	var ts []string
	for _, a := range n.Args[1:] {
		v := fc.specEval(a, env)
		args = append(args, v)
		sorts = append(sorts, v.S)
		ts = append(ts, v.T)
	}
	rs := fc.U.SortOf(sig.Results().At(0).Type())
	fname := "pure_" + sanitize(shortPkg(key))
	fc.U.Fun(fname, sorts, rs)
	res := Val{T: app(fname, ts...), S: rs, GoT: sig.Results().At(0).Type()}
	// instantiate ensures at this application (requires are the caller's responsibility: guarded)
	names := map[string]Val{}
	pn := paramNames(sig, c)
	for i, a := range args {
		a.GoT = sig.Params().At(i).Type()
		names[pn[i]] = a
	}
	rn := resultNames(sig, c)
	names[rn[0]] = res
	st0 := &State{vars: map[types.Object]Val{}, ghost: map[string]Val{}}
	cenv := &Env{fc: fc, st: st0, old: st0, names: names, oldNames: names, pkg: fi.Pkg, bound: env.bound}
	var reqs, ens []string
	for _, r := range c.Requires {
		reqs = append(reqs, fc.specBool(r.Expr, cenv))
	}
	for _, en := range c.Ensures {
		ens = append(ens, fc.specBool(en.Expr, cenv))
	}
	wf := []string{}
	for k, a := range names {
		if k == rn[0] {
			ens = append(ens, fc.U.WF(a))
			continue
		}
		wf = append(wf, fc.U.WF(a))
	}
	fact := implies(and(append(wf, reqs...)...), and(ens...))
	// inside a quantifier or a spec-function definition the arguments mention bound variables: the fact is
	// valid for every value of those, so it is stated universally (trigger: the application itself)
	var qs []string
	seen := map[string]bool{}
	for _, bv := range env.bound {
		if (strings.HasPrefix(bv.T, "q_") || strings.HasPrefix(bv.T, "sp_")) && !seen[bv.T] && hasToken(res.T, bv.T) {
			seen[bv.T] = true
			qs = append(qs, fmt.Sprintf("(%s %s)", bv.T, bv.S.Name))
		}
	}
	if len(qs) > 0 {
		sort.Strings(qs)
		fact = fmt.Sprintf("(forall (%s) (! %s :pattern (%s)))", strings.Join(qs, " "), fact, res.T)
	}
	fc.pureFacts = append(fc.pureFacts, fact)
	return res, true
}

var _ = constant.MakeBool

func (fc *FCtx) importByName(pkg *packages.Package, q string) *types.Package {
	for _, f := range pkg.Syntax {
		for _, is := range f.Imports {
			path := strings.Trim(is.Path.Value, "\"")
			name := ""
			if is.Name != nil {
				name = is.Name.Name
			}
			for _, imp := range pkg.Types.Imports() {
				if imp.Path() == path && (name == q || (name == "" && imp.Name() == q)) {
					return imp
				}
			}
		}
	}
	return nil
}

// specKeyFn resolves a (possibly qualified) key function name used as an argument of iskey/keyarg.
func (fc *FCtx) specKeyFn(n *SNode, env *Env) (string, *types.Signature) {
	var key string
	switch n.Op {
	case "id":
		key = env.pkg.PkgPath + "." + n.Name
	case "field":
		p := fc.importByName(env.pkg, n.Args[0].Name)
		if p == nil {
			oos("spec: unknown package %s", n.Args[0].Name)
		}
		key = p.Path() + "." + n.Name
	default:
		oos("spec: key function name expected")
	}
	c := fc.E.cs.Funcs[key]
	if c == nil || c.Flags["keyfn"] == "" {
		oos("spec: %s is not a declared key function", key)
	}
	fi := fc.E.funcs[key]
	if fi == nil {
		oos("spec: key function %s not loaded", key)
	}
	return key, fi.Sig
}

// lookupFuncByName resolves "Func", "Type.Method", "pkg.Func" or "pkg.Type.Method" from a spec.
func (fc *FCtx) lookupFuncByName(pkg *packages.Package, name string) *types.Func {
	parts := strings.Split(name, ".")
	scope := pkg.Types.Scope()
	if len(parts) >= 2 {
		if imp := fc.importByName(pkg, parts[0]); imp != nil {
			scope = imp.Scope()
			parts = parts[1:]
		}
	}
	switch len(parts) {
	case 1:
		if f, ok := scope.Lookup(parts[0]).(*types.Func); ok {
			return f
		}
	case 2:
		if tn, ok := scope.Lookup(parts[0]).(*types.TypeName); ok {
			for _, t := range []types.Type{tn.Type(), types.NewPointer(tn.Type())} {
				ms := types.NewMethodSet(t)
				for i := 0; i < ms.Len(); i++ {
					if ms.At(i).Obj().Name() == parts[1] {
						if f, ok := ms.At(i).Obj().(*types.Func); ok {
							return f
						}
					}
				}
			}
		}
	}
	return nil
}

// hasToken: does the SMT text contain the identifier as a whole token?
func hasToken(text, id string) bool {
	for i := 0; ; {
		j := strings.Index(text[i:], id)
		if j < 0 {
			return false
		}
		j += i
		end := j + len(id)
		okL := j == 0 || strings.ContainsRune(" ()", rune(text[j-1]))
		okR := end == len(text) || strings.ContainsRune(" ()", rune(text[end]))
		if okL && okR {
			return true
		}
		i = end
	}
}

// typeFromExpr resolves a Go type expression against a package, looking qualifiers up in the imports of the
// package's files.
func (fc *FCtx) typeFromExpr(ex ast.Expr, pkg *packages.Package) types.Type {
	switch x := ex.(type) {
	case *ast.Ident:
		if o := pkg.Types.Scope().Lookup(x.Name); o != nil {
			if tn, ok := o.(*types.TypeName); ok {
				return tn.Type()
			}
		}
		if o := types.Universe.Lookup(x.Name); o != nil {
			if tn, ok := o.(*types.TypeName); ok {
				return tn.Type()
			}
		}
	case *ast.SelectorExpr:
		if q, ok := x.X.(*ast.Ident); ok {
			if imp := fc.importByName(pkg, q.Name); imp != nil {
				if o := imp.Scope().Lookup(x.Sel.Name); o != nil {
					if tn, ok := o.(*types.TypeName); ok {
						return tn.Type()
					}
				}
			}
		}
	case *ast.StarExpr:
		if t := fc.typeFromExpr(x.X, pkg); t != nil {
			return types.NewPointer(t)
		}
	case *ast.ArrayType:
		if x.Len == nil {
			if t := fc.typeFromExpr(x.Elt, pkg); t != nil {
				return types.NewSlice(t)
			}
		}
	case *ast.MapType:
		k := fc.typeFromExpr(x.Key, pkg)
		v := fc.typeFromExpr(x.Value, pkg)
		if k != nil && v != nil {
			return types.NewMap(k, v)
		}
	}
	return nil
}

// unfoldOnce: for a RECURSIVE spec function, every application that appears in a contract clause also gets its
// one-step unfolding as a ground (or, under binders, universally quantified) fact. The quantified defining axiom can
// then be left out of a solver query (the "lite" variant), which avoids e-matching loops through the recursion.
func (fc *FCtx) unfoldOnce(sf *SpecFn, args []Val, env *Env) {
	// (non-recursive spec functions too: a ground application that occurs only inside a quantified clause is not a
	// term the solver matches on, so the trigger of its defining axiom would never fire)
	if sf.Body == nil || fc.unfolding {
		return
	}
	// ... but only quantifier-free accessor-style bodies: restating a quantified body as a second ground fact only
	// gives the solver more to match on (it made one proved loop invariant of feeds Vote time out)
	// - and only where the function's contract asks for it (`//@ unfold`), because the extra ground facts are not free
	if !specMentions(sf.Body, sf.Name) && (specHasQuant(sf.Body) || fc.C == nil || fc.C.Flags["unfold"] == "") {
		return
	}
	fc.unfolding = true
	defer func() { fc.unfolding = false }()
	pkg := fc.E.pkgs[sf.Pkg]
	benv := &Env{fc: fc, st: &State{vars: map[types.Object]Val{}, ghost: map[string]Val{}}, pkg: pkg, names: map[string]Val{}, bound: map[string]Val{}}
	var ts []string
	for i, p := range sf.Params {
		_, pt := fc.resolveSpecType(p.Type, pkg)
		a := args[i]
		if a.GoT == nil {
			a.GoT = pt
		}
		benv.bound[p.Name] = a
		ts = append(ts, a.T)
	}
	body := fc.specEval(sf.Body, benv)
	appl := app("spec_"+sf.Name, ts...)
	fact := fmt.Sprintf("(= %s %s)", appl, body.T)
	// only ground applications are unfolded: under a binder the unfolding would itself be a quantified fact
	// whose instances create ever smaller applications (the matching loop this is meant to avoid)
	for _, tok := range strings.FieldsFunc(appl, func(r rune) bool { return r == ' ' || r == '(' || r == ')' }) {
		if strings.HasPrefix(tok, "q_") || strings.HasPrefix(tok, "sp_") || strings.HasPrefix(tok, "qk_") {
			return
		}
	}
	for _, f := range fc.pureFacts {
		if f == fact {
			return
		}
	}
	fc.pureFacts = append(fc.pureFacts, fact)
}

func specMentions(n *SNode, name string) bool {
	if n == nil {
		return false
	}
	if n.Op == "call" && len(n.Args) > 0 && n.Args[0].Op == "id" && n.Args[0].Name == name {
		return true
	}
	for _, a := range n.Args {
		if specMentions(a, name) {
			return true
		}
	}
	return false
}

func specHasQuant(n *SNode) bool {
	if n == nil {
		return false
	}
	if n.Op == "forall" || n.Op == "exists" {
		return true
	}
	for _, a := range n.Args {
		if specHasQuant(a) {
			return true
		}
	}
	return false
}
