package main

import (
	"fmt"
	"go/ast"
	"go/constant"
	"go/token"
	"strings"

	"golang.org/x/tools/go/packages"
)

// groundLagrangeTables (C03): the table-based Lagrange routine multiplies entries of two literal tables. Their
// content is a finite fact that can be decided by evaluation: PRIME_FACTORS[n] is the prime factorisation of n for
// every n in 2..20 (primes, exponents >= 1, product n), and PRECOMPUTED_POWERS[p][k] == p^k for every listed prime
// p and every k - with enough powers for the largest exponent that 19 factors from 1..20 can accumulate.
func groundLagrangeTables(e *Engine, prop string) []*Obligation {
	p := e.pkgs[modPath+"/pkg/tss/internal/lagrange"]
	if p == nil {
		return []*Obligation{groundObl(prop, "lagrange-tables", "Lagrange tables", false, "package pkg/tss/internal/lagrange not loaded")}
	}
	pf := literalTable(p, "PRIME_FACTORS")
	pw := literalTable(p, "PRECOMPUTED_POWERS")
	var bad []string
	if pf == nil || pw == nil {
		bad = append(bad, "table literals not found or not constant")
	}
	isPrime := func(x int64) bool {
		if x < 2 {
			return false
		}
		for d := int64(2); d*d <= x; d++ {
			if x%d == 0 {
				return false
			}
		}
		return true
	}
	maxExp := map[int64]int64{}
	for n := int64(2); n <= 20 && pf != nil; n++ {
		row, ok := pf[n]
		if !ok {
			bad = append(bad, fmt.Sprintf("PRIME_FACTORS[%d] missing", n))
			continue
		}
		prod := int64(1)
		seen := map[int64]bool{}
		for _, pe := range row {
			if len(pe) != 2 || !isPrime(pe[0]) || pe[1] < 1 || seen[pe[0]] {
				bad = append(bad, fmt.Sprintf("PRIME_FACTORS[%d] has a bad entry %v", n, pe))
				continue
			}
			seen[pe[0]] = true
			for k := int64(0); k < pe[1]; k++ {
				prod *= pe[0]
			}
			// a committee of 20 ids can accumulate at most the sum of this prime's exponents over 2..20
			maxExp[pe[0]] += pe[1]
		}
		if prod != n {
			bad = append(bad, fmt.Sprintf("PRIME_FACTORS[%d] multiplies to %d", n, prod))
		}
	}
	for n := range pf {
		if n < 2 || n > 20 {
			bad = append(bad, fmt.Sprintf("PRIME_FACTORS has an entry for %d", n))
		}
	}
	for prime, need := range maxExp {
		row, ok := pw[prime]
		if !ok {
			bad = append(bad, fmt.Sprintf("PRECOMPUTED_POWERS[%d] missing", prime))
			continue
		}
		if int64(len(row)) < need+1 {
			bad = append(bad, fmt.Sprintf("PRECOMPUTED_POWERS[%d] has %d entries, exponents up to %d can occur", prime, len(row), need))
		}
	}
	for prime, row := range pw {
		want := int64(1)
		for k, ent := range row {
			if len(ent) != 1 || ent[0] != want {
				bad = append(bad, fmt.Sprintf("PRECOMPUTED_POWERS[%d][%d] = %v, but %d^%d = %d", prime, k, ent, prime, k, want))
			}
			want *= prime
		}
	}
	return []*Obligation{groundObl(prop, "lagrange-tables", "PRIME_FACTORS[n] is the prime factorisation of n (2..20) and PRECOMPUTED_POWERS[p][k] == p^k", len(bad) == 0, strings.Join(bad, "; "))}
}

// literalTable evaluates a package-level `var X = [...]T{ idx: {...}, ... }` of constant integers (rows of scalars or of
// pairs) into index -> rows of int64 lists.
func literalTable(p *packages.Package, name string) map[int64][][]int64 {
	for _, f := range p.Syntax {
		for _, d := range f.Decls {
			gd, ok := d.(*ast.GenDecl)
			if !ok || gd.Tok != token.VAR {
				continue
			}
			for _, sp := range gd.Specs {
				vs := sp.(*ast.ValueSpec)
				for i, nm := range vs.Names {
					if nm.Name != name || i >= len(vs.Values) {
						continue
					}
					cl, ok := vs.Values[i].(*ast.CompositeLit)
					if !ok {
						return nil
					}
					out := map[int64][][]int64{}
					next := int64(0)
					for _, el := range cl.Elts {
						idx := next
						val := el
						if kv, ok := el.(*ast.KeyValueExpr); ok {
							tv := p.TypesInfo.Types[kv.Key]
							if tv.Value == nil {
								return nil
							}
							idx, _ = constant.Int64Val(tv.Value)
							val = kv.Value
						}
						next = idx + 1
						rowLit, ok := val.(*ast.CompositeLit)
						if !ok {
							return nil
						}
						var row [][]int64
						for _, re := range rowLit.Elts {
							if inner, ok := re.(*ast.CompositeLit); ok {
								var ent []int64
								for _, ie := range inner.Elts {
									tv := p.TypesInfo.Types[ie]
									if tv.Value == nil {
										return nil
									}
									v, _ := constant.Int64Val(tv.Value)
									ent = append(ent, v)
								}
								row = append(row, ent)
							} else {
								tv := p.TypesInfo.Types[re]
								if tv.Value == nil {
									return nil
								}
								v, _ := constant.Int64Val(tv.Value)
								row = append(row, []int64{v})
							}
						}
						out[idx] = row
					}
					return out
				}
			}
		}
	}
	return nil
}

func init() { groundChecks["lagrange-tables"] = groundLagrangeTables }
