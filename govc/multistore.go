package main

import (
	"fmt"
	"go/ast"
	"go/constant"
	"regexp"
	"sort"
	"strconv"
	"strings"
)

// groundMultistore (C12): the positional accesses of GetMultiStoreProof (which Path[k] element is a left /
// right sibling, and which stores its field name says the sibling covers) must agree with the RFC-6962 tree
// over the store names actually mounted by the app (app/keepers/keys.go, sorted bytewise), for the leaf
// "oracle". Adding, removing or renaming a store so that the shape changes fails this obligation.
func groundMultistore(e *Engine, prop string) []*Obligation {
	fail := func(msg string) []*Obligation {
		return []*Obligation{groundObl(prop, "multistore-shape", "GetMultiStoreProof's positional layout matches the mounted store set", false, msg)}
	}
	kp := e.pkgs[modPath+"/app/keepers"]
	pp := e.pkgs[modPath+"/client/grpc/oracle/proof"]
	if kp == nil || pp == nil {
		return fail("packages app/keepers and client/grpc/oracle/proof must be loaded")
	}
	// 1. store names
	var names []string
	for _, f := range kp.Syntax {
		ast.Inspect(f, func(n ast.Node) bool {
			c, ok := n.(*ast.CallExpr)
			if !ok {
				return true
			}
			sel, ok := c.Fun.(*ast.SelectorExpr)
			if !ok || sel.Sel.Name != "NewKVStoreKeys" {
				return true
			}
			for _, a := range c.Args {
				tv := kp.TypesInfo.Types[a]
				if tv.Value == nil || tv.Value.Kind() != constant.String {
					names = append(names, "?")
					continue
				}
				names = append(names, constant.StringVal(tv.Value))
			}
			return false
		})
	}
	if len(names) == 0 {
		return fail("NewKVStoreKeys(...) call not found")
	}
	sort.Strings(names)
	idx := sort.SearchStrings(names, "oracle")
	if idx >= len(names) || names[idx] != "oracle" {
		return fail("store \"oracle\" is not mounted")
	}
	// 2. RFC-6962 path of the leaf, top-down, then reversed (ics23 lists the lowest level first)
	type sib struct {
		left        bool // sibling is on the left (its hash is in the inner op's prefix)
		first, last string
	}
	var path []sib
	lo, hi, i := 0, len(names), idx
	for hi-lo > 1 {
		k := 1
		for k*2 < hi-lo {
			k *= 2
		}
		if i-lo < k {
			path = append(path, sib{false, names[lo+k], names[hi-1]})
			hi = lo + k
		} else {
			path = append(path, sib{true, names[lo], names[lo+k-1]})
			lo = lo + k
		}
	}
	for a, b := 0, len(path)-1; a < b; a, b = a+1, b-1 {
		path[a], path[b] = path[b], path[a]
	}
	// 3. what the code assumes
	fi := e.funcs[modPath+"/client/grpc/oracle/proof.GetMultiStoreProof"]
	if fi == nil {
		return fail("GetMultiStoreProof not found")
	}
	alias := map[string]string{"auth": "acc"}
	re := regexp.MustCompile(`^([A-Z][a-z]*)(?:To([A-Z][a-z]*))?Stores?MerkleHash$`)
	pathRe := regexp.MustCompile(`Path\[(\d+)\]\.(Prefix|Suffix)`)
	type want struct {
		k           int
		left        bool
		first, last string
		field       string
	}
	var wants []want
	ast.Inspect(fi.Body(), func(n ast.Node) bool {
		kv, ok := n.(*ast.KeyValueExpr)
		if !ok {
			return true
		}
		key, ok := kv.Key.(*ast.Ident)
		if !ok {
			return true
		}
		m := re.FindStringSubmatch(key.Name)
		if m == nil {
			return true
		}
		src := exprString(e, kv.Value)
		pm := pathRe.FindStringSubmatch(src)
		if pm == nil {
			return true
		}
		k, _ := strconv.Atoi(pm[1])
		first := strings.ToLower(m[1])
		last := first
		if m[2] != "" {
			last = strings.ToLower(m[2])
		}
		if a, ok := alias[first]; ok {
			first = a
		}
		if a, ok := alias[last]; ok {
			last = a
		}
		wants = append(wants, want{k, pm[2] == "Prefix", first, last, key.Name})
		return true
	})
	if len(wants) != len(path) {
		return fail(fmt.Sprintf("GetMultiStoreProof reads %d path elements but the tree over the %d mounted stores has depth %d for leaf oracle (stores: %s)", len(wants), len(names), len(path), strings.Join(names, ",")))
	}
	var bad []string
	for _, w := range wants {
		if w.k >= len(path) {
			bad = append(bad, fmt.Sprintf("%s reads Path[%d] beyond depth %d", w.field, w.k, len(path)))
			continue
		}
		p := path[w.k]
		if p.left != w.left || p.first != w.first || p.last != w.last {
			side := map[bool]string{true: "left(prefix)", false: "right(suffix)"}
			bad = append(bad, fmt.Sprintf("%s assumes Path[%d] = %s sibling covering %s..%s, but the mounted stores give %s sibling covering %s..%s", w.field, w.k, side[w.left], w.first, w.last, side[p.left], p.first, p.last))
		}
	}
	return []*Obligation{groundObl(prop, "multistore-shape", fmt.Sprintf("GetMultiStoreProof's positional layout matches the RFC-6962 tree over the %d mounted stores (oracle is leaf %d)", len(names), idx), len(bad) == 0, strings.Join(bad, "; "))}
}

func exprString(e *Engine, x ast.Expr) string {
	var b strings.Builder
	ast.Inspect(x, func(n ast.Node) bool {
		switch v := n.(type) {
		case *ast.Ident:
			b.WriteString(v.Name)
		case *ast.BasicLit:
			b.WriteString("[" + v.Value + "].")
		case *ast.SelectorExpr:
		}
		return true
	})
	// normalise "multiStoreEpPath[0].Prefix..." -> contains Path[0].Prefix
	s := b.String()
	s = strings.ReplaceAll(s, "Path[", "Path[")
	return regexp.MustCompile(`Path\[(\d+)\]\.(Prefix|Suffix)`).FindString(regexp.MustCompile(`Path\[(\d+)\]\.`).ReplaceAllString(s, "Path[$1]."))
}

func init() { groundChecks["multistore-shape"] = groundMultistore }
