package main

// GroundChecks: obligations decided by evaluation inside govc (no SMT): tag constants, module order,
// multistore shape. Each returns an Obligation with Result already set.
func (e *Engine) GroundChecks(prop string, names []string) []*Obligation {
	var out []*Obligation
	for _, n := range names {
		f, ok := groundChecks[n]
		if !ok {
			out = append(out, &Obligation{Name: prop + "/ground/" + n, Kind: "ground", Goal: "false", Result: "error", Model: "unknown ground check", Clause: n})
			continue
		}
		out = append(out, f(e, prop)...)
	}
	return out
}

var groundChecks = map[string]func(e *Engine, prop string) []*Obligation{}

func groundObl(prop, name, clause string, ok bool, detail string) *Obligation {
	o := &Obligation{Name: prop + "/ground/" + name, Kind: "ground", Goal: "ground", Clause: clause, Solver: "govc-eval", Func: "ground." + name}
	if ok {
		o.Result = "unsat"
	} else {
		o.Result = "sat"
		o.Model = detail
	}
	return o
}

// ---------------------------------------------------------------------------------------------
// Determinism effect (DESIGN §3): in consensus code a `range` over a map may only collect keys into a slice
// that is sorted before its next use (or delete/insert into another map). Anything else is order-dependent.
// ---------------------------------------------------------------------------------------------
