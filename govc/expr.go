package main

import (
	"fmt"
	"go/ast"
	"go/constant"
	"go/token"
	"go/types"
	"math/big"
	"strings"
)

func (fc *FCtx) eval(e ast.Expr, st *State) Val {
	vs := fc.evalMulti(e, st)
	if len(vs) != 1 {
		oos("expected single value from %T, got %d", e, len(vs))
	}
	return vs[0]
}

func (fc *FCtx) evalBool(e ast.Expr, st *State) string {
	v := fc.eval(e, st)
	if v.S.Kind != KBool {
		oos("expected bool expression")
	}
	return v.T
}

func (fc *FCtx) constVal(tv types.TypeAndValue) (Val, bool) {
	if tv.Value == nil {
		return Val{}, false
	}
	switch tv.Value.Kind() {
	case constant.Int:
		bi, _ := new(big.Int).SetString(tv.Value.ExactString(), 10)
		if b, ok := tv.Type.Underlying().(*types.Basic); ok && b.Info()&types.IsFloat != 0 {
			return fc.floatConst(tv.Value.ExactString(), tv.Type), true
		}
		return Val{T: bigLit(bi), S: SInt, GoT: tv.Type}, true
	case constant.Bool:
		if constant.BoolVal(tv.Value) {
			return Val{T: "true", S: SBool, GoT: tv.Type}, true
		}
		return Val{T: "false", S: SBool, GoT: tv.Type}, true
	case constant.String:
		return Val{T: fc.U.StrLit(constant.StringVal(tv.Value)), S: SStr, GoT: tv.Type}, true
	case constant.Float:
		if b, ok := tv.Type.Underlying().(*types.Basic); ok && b.Info()&types.IsFloat != 0 {
			return fc.floatConst(tv.Value.ExactString(), tv.Type), true
		}
		if b, ok := tv.Type.Underlying().(*types.Basic); ok && b.Info()&types.IsInteger != 0 {
			if i := constant.ToInt(tv.Value); i.Kind() == constant.Int {
				bi, _ := new(big.Int).SetString(i.ExactString(), 10)
				return Val{T: bigLit(bi), S: SInt, GoT: tv.Type}, true
			}
		}
	}
	return Val{}, false
}

func bigLit(b *big.Int) string {
	if b.Sign() < 0 {
		return "(- " + new(big.Int).Neg(b).String() + ")"
	}
	return b.String()
}

func (fc *FCtx) evalMulti(e ast.Expr, st *State) []Val {
	info := fc.info()
	if tv, ok := info.Types[e]; ok {
		if v, ok := fc.constVal(tv); ok {
			return []Val{v}
		}
	}
	switch e := e.(type) {
	case *ast.ParenExpr:
		return fc.evalMulti(e.X, st)
	case *ast.Ident:
		return []Val{fc.evalIdent(e, st)}
	case *ast.BasicLit:
		oos("non-constant literal %s", e.Value)
	case *ast.UnaryExpr:
		return []Val{fc.evalUnary(e, st)}
	case *ast.BinaryExpr:
		return []Val{fc.evalBinary(e, st)}
	case *ast.SelectorExpr:
		return []Val{fc.evalSelector(e, st)}
	case *ast.StarExpr:
		return []Val{fc.eval(e.X, st)}
	case *ast.IndexExpr:
		return fc.evalIndex(e, st, false)
	case *ast.SliceExpr:
		return []Val{fc.evalSlice(e, st)}
	case *ast.CallExpr:
		return fc.evalCall(e, st)
	case *ast.CompositeLit:
		return []Val{fc.evalCompositeLit(e, st)}
	case *ast.TypeAssertExpr:
		return fc.evalTypeAssert(e, st, false)
	case *ast.FuncLit:
		oos("function literal as value")
	}
	oos("expression %T", e)
	return nil
}

func (fc *FCtx) evalIdent(e *ast.Ident, st *State) Val {
	info := fc.info()
	obj := info.ObjectOf(e)
	switch o := obj.(type) {
	case *types.Nil:
		t := info.TypeOf(e)
		return fc.zeroVal(t)
	case *types.Var:
		if v, ok := st.vars[o]; ok {
			return v
		}
		return fc.pkgVar(o)
	case *types.Const:
		if v, ok := fc.constVal(types.TypeAndValue{Type: o.Type(), Value: o.Val()}); ok {
			return v
		}
	}
	oos("identifier %s", e.Name)
	return Val{}
}

// pkgVar: package-level variables. Registered errors become distinct codes; everything else is out of subset.
func (fc *FCtx) pkgVar(o *types.Var) Val {
	if o.Pkg() != nil && o.Parent() == o.Pkg().Scope() {
		ts := typeString(o.Type())
		if ts == "*cosmossdk.io/errors.Error" || isErrorType(o.Type()) {
			return Val{T: fmt.Sprint(fc.U.ErrCode(o.Pkg().Path() + "." + o.Name())), S: SInt, GoT: o.Type()}
		}
		if isByteSliceType(o.Type()) {
			return fc.keyConst(o)
		}
		if b, ok := o.Type().Underlying().(*types.Basic); ok && b.Info()&types.IsString != 0 {
			fc.note("package-level string variable " + o.Pkg().Name() + "." + o.Name() + " read as an arbitrary constant")
			return Val{T: fc.U.Const("pkgstr_"+sanitize(o.Pkg().Name()+"_"+o.Name()), SStr), S: SStr, GoT: o.Type()}
		}
		if strings.HasPrefix(o.Pkg().Path(), modPath) {
			switch o.Type().Underlying().(type) {
			case *types.Struct, *types.Interface, *types.Map, *types.Slice:
				s := fc.U.SortOf(o.Type())
				fc.note("package-level variable " + o.Pkg().Name() + "." + o.Name() + " read as an arbitrary constant")
				return Val{T: fc.U.Const("pkgvar_"+sanitize(o.Pkg().Name()+"_"+o.Name()), s), S: s, GoT: o.Type()}
			}
		}
		if o.Pkg().Path() == "encoding/binary" {
			s := fc.U.opaque("ByteOrder")
			return Val{T: fc.U.Const("binary_"+o.Name(), s), S: s, GoT: o.Type()}
		}
		if v, ok := fc.E.pkgVarInit(fc, o); ok {
			return v
		}
		if _, isPtr := o.Type().Underlying().(*types.Pointer); isPtr && strings.HasPrefix(o.Pkg().Path(), modPath) {
			// e.g. a module's package-level codec: an arbitrary constant (it is only ever a receiver of modelled calls)
			s := fc.U.SortOf(o.Type())
			fc.note("package-level variable " + o.Pkg().Name() + "." + o.Name() + " read as an arbitrary constant")
			return Val{T: fc.U.Const("pkgvar_"+sanitize(o.Pkg().Name()+"_"+o.Name()), s), S: s, GoT: o.Type()}
		}
		oos("package-level variable %s.%s", o.Pkg().Name(), o.Name())
	}
	oos("unbound variable %s", o.Name())
	return Val{}
}

func (fc *FCtx) zeroVal(t types.Type) Val {
	s := fc.U.SortOf(t)
	return Val{T: fc.zeroTerm(s, t), S: s, GoT: t}
}

const timeZeroNs = "(- 62135596800000000000)"

func (fc *FCtx) zeroTerm(s *Sort, t types.Type) string {
	switch s.Kind {
	case KInt:
		if t != nil && isTime(t) {
			return timeZeroNs
		}
		return "0"
	case KBool:
		return "false"
	case KStr:
		return fc.U.StrLit("")
	case KData:
		var st *types.Struct
		if t != nil {
			tt := t
			if p, ok := tt.Underlying().(*types.Pointer); ok {
				tt = p.Elem()
			}
			st, _ = tt.Underlying().(*types.Struct)
		}
		var args []string
		for i, f := range s.Fields {
			ft := f.GoT
			if st != nil && i < st.NumFields() {
				ft = st.Field(i).Type()
			}
			args = append(args, fc.zeroTerm(f.S, ft))
		}
		return app("mk_"+s.Name, args...)
	case KSlice:
		n := "0"
		if t != nil {
			if a, ok := t.Underlying().(*types.Array); ok {
				n = fmt.Sprint(a.Len())
			}
		}
		return mkSlice(s, n, n, fc.constArray("Int", s.Elem, fc.zeroTerm(s.Elem, elemType(t))))
	case KMap:
		return app("mk_"+s.Name, fmt.Sprintf("((as const (Array %s Bool)) false)", s.Key.Name), fc.constArray(s.Key.Name, s.Elem, fc.zeroTerm(s.Elem, elemType(t))))
	case KOpaque:
		if isBz(s) {
			return "bz_nil"
		}
		return fc.U.Const("zero_"+s.Name, s)
	case KFloat:
		return "((_ to_fp 11 53) RNE 0.0)"
	}
	oos("zero value of %s", s.Name)
	return ""
}

func (fc *FCtx) evalUnary(e *ast.UnaryExpr, st *State) Val {
	switch e.Op {
	case token.NOT:
		return Val{T: not(fc.evalBool(e.X, st)), S: SBool, GoT: types.Typ[types.Bool]}
	case token.SUB:
		x := fc.eval(e.X, st)
		if x.S.Name == "F64" {
			fc.U.Fun("f64_neg", []*Sort{x.S}, x.S)
			return Val{T: app("f64_neg", x.T), S: x.S, GoT: x.GoT}
		}
		zero := Val{T: "0", S: SInt, GoT: x.GoT}
		return fc.arith(token.SUB, zero, x, fc.info().TypeOf(e), st, e.Pos())
	case token.ADD:
		return fc.eval(e.X, st)
	case token.AND:
		// address-of: pointers are modelled as the value of their cell
		v := fc.eval(e.X, st)
		v.GoT = fc.info().TypeOf(e)
		return v
	case token.ARROW:
		return fc.evalRecv(e, st)
	}
	oos("unary operator %s", e.Op)
	return Val{}
}

// evalRecv: `<-ch`. Yields an arbitrary well-typed value. With the ghosts ChanSent/ChanRecv declared, a receive is
// only possible when something was sent that has not been received yet (obligation "recv-available": the
// receiver never waits for a value that is never sent), and it is counted in ChanRecv.
func (fc *FCtx) evalRecv(e *ast.UnaryExpr, st *State) Val {
	ch := fc.info().TypeOf(e.X)
	ct, ok := ch.Underlying().(*types.Chan)
	if !ok {
		oos("receive from a non-channel")
	}
	s := fc.U.SortOf(ct.Elem())
	v := Val{T: fc.U.Fresh("recv", s), S: s, GoT: ct.Elem()}
	st.assume(fc.U.WF(v))
	if r, ok := st.ghost["ChanRecv"]; ok {
		if sent, ok2 := st.ghost["ChanSent"]; ok2 {
			fc.oblige(st, "recv-available", fmt.Sprintf("(< %s %s)", r.T, sent.T), "a value was sent that has not been received yet (the receive does not block forever)", e.Pos())
		}
		st.ghost["ChanRecv"] = Val{T: fmt.Sprintf("(+ %s 1)", r.T), S: r.S}
	} else {
		fc.note("channel receive modelled as an arbitrary value (no ChanRecv ghost declared)")
	}
	return v
}

func (fc *FCtx) eqTerm(a, b Val) string {
	if a.S != b.S && !(a.S.Kind == KInt && b.S.Kind == KInt) {
		oos("comparison of different sorts %s / %s", a.S.Name, b.S.Name)
	}
	if a.S.Kind == KFloat {
		return "(fp.eq " + a.T + " " + b.T + ")"
	}
	return "(= " + a.T + " " + b.T + ")"
}

func (fc *FCtx) evalBinary(e *ast.BinaryExpr, st *State) Val {
	boolT := types.Typ[types.Bool]
	switch e.Op {
	case token.LAND:
		a := fc.evalBool(e.X, st)
		var b string
		fc.withGuard(a, func() { b = fc.evalBool(e.Y, st) })
		return Val{T: and(a, b), S: SBool, GoT: boolT}
	case token.LOR:
		a := fc.evalBool(e.X, st)
		var b string
		fc.withGuard(not(a), func() { b = fc.evalBool(e.Y, st) })
		return Val{T: or(a, b), S: SBool, GoT: boolT}
	}
	// nil comparisons
	if e.Op == token.EQL || e.Op == token.NEQ {
		if r, ok := fc.nilCompare(e, st); ok {
			return r
		}
	}
	x := fc.eval(e.X, st)
	y := fc.eval(e.Y, st)
	if x.S.Name == "F64" || y.S.Name == "F64" {
		switch e.Op {
		case token.EQL, token.NEQ, token.LSS, token.LEQ, token.GTR, token.GEQ:
			return Val{T: fc.fcmp(e.Op, x, y), S: SBool, GoT: boolT}
		case token.ADD, token.SUB, token.MUL, token.QUO:
			return fc.farith(e.Op, x, y, fc.info().TypeOf(e))
		}
	}
	switch e.Op {
	case token.EQL:
		return Val{T: fc.eqTerm(x, y), S: SBool, GoT: boolT}
	case token.NEQ:
		return Val{T: not(fc.eqTerm(x, y)), S: SBool, GoT: boolT}
	case token.LSS, token.LEQ, token.GTR, token.GEQ:
		if x.S.Kind == KFloat {
			op := map[token.Token]string{token.LSS: "fp.lt", token.LEQ: "fp.leq", token.GTR: "fp.gt", token.GEQ: "fp.geq"}[e.Op]
			return Val{T: app(op, x.T, y.T), S: SBool, GoT: boolT}
		}
		if x.S.Kind == KStr {
			fc.U.Fun("str_lt", []*Sort{SStr, SStr}, SBool)
			switch e.Op {
			case token.LSS:
				return Val{T: app("str_lt", x.T, y.T), S: SBool, GoT: boolT}
			case token.GTR:
				return Val{T: app("str_lt", y.T, x.T), S: SBool, GoT: boolT}
			case token.LEQ:
				return Val{T: not(app("str_lt", y.T, x.T)), S: SBool, GoT: boolT}
			default:
				return Val{T: not(app("str_lt", x.T, y.T)), S: SBool, GoT: boolT}
			}
		}
		if x.S.Kind != KInt {
			oos("ordering on %s", x.S.Name)
		}
		op := map[token.Token]string{token.LSS: "<", token.LEQ: "<=", token.GTR: ">", token.GEQ: ">="}[e.Op]
		return Val{T: app(op, x.T, y.T), S: SBool, GoT: boolT}
	case token.SHL, token.SHR:
		return fc.shift(e.Op, x, y, fc.info().TypeOf(e), e.Y, st, e.Pos())
	case token.ADD, token.SUB, token.MUL, token.QUO, token.REM:
		if x.S.Kind == KStr {
			if e.Op != token.ADD || y.S.Kind != KStr {
				oos("string operator %s", e.Op)
			}
			return fc.strCat(x, y, fc.info().TypeOf(e), st)
		}
		return fc.arith(e.Op, x, y, fc.info().TypeOf(e), st, e.Pos())
	case token.OR, token.XOR, token.AND_NOT:
		fn := map[token.Token]string{token.OR: "bit_or", token.XOR: "bit_xor", token.AND_NOT: "bit_andnot"}[e.Op]
		fc.U.Fun(fn, []*Sort{SInt, SInt}, SInt)
		v := Val{T: app(fn, x.T, y.T), S: SInt, GoT: fc.info().TypeOf(e)}
		st.assume(fc.U.WF(v))
		fc.note("bitwise " + e.Op.String() + " modelled as an uninterpreted function of its operands")
		return v
	case token.AND:
		// x & (2^k-1) on non-negative values
		if tv, ok := fc.info().Types[e.Y]; ok && tv.Value != nil {
			if m, ok := constant.Uint64Val(constant.ToInt(tv.Value)); ok && m&(m+1) == 0 && m != 0 {
				if b, ok := fc.info().TypeOf(e).Underlying().(*types.Basic); ok && b.Info()&types.IsUnsigned != 0 {
					return Val{T: fmt.Sprintf("(mod %s %d)", x.T, m+1), S: SInt, GoT: fc.info().TypeOf(e)}
				}
			}
		}
		fc.U.Fun("bit_and", []*Sort{SInt, SInt}, SInt)
		v := Val{T: app("bit_and", x.T, y.T), S: SInt, GoT: fc.info().TypeOf(e)}
		st.assume(fc.U.WF(v))
		fc.note("bitwise & modelled as an uninterpreted function of its operands")
		return v
	}
	oos("binary operator %s", e.Op)
	return Val{}
}

func (fc *FCtx) nilCompare(e *ast.BinaryExpr, st *State) (Val, bool) {
	info := fc.info()
	isNil := func(x ast.Expr) bool {
		if id, ok := x.(*ast.Ident); ok {
			_, n := info.ObjectOf(id).(*types.Nil)
			return n
		}
		return false
	}
	var other ast.Expr
	switch {
	case isNil(e.Y):
		other = e.X
	case isNil(e.X):
		other = e.Y
	default:
		return Val{}, false
	}
	t := info.TypeOf(other)
	var term string
	switch {
	case isErrorType(t):
		v := fc.eval(other, st)
		term = "(= " + v.T + " 0)"
	default:
		switch t.Underlying().(type) {
		case *types.Slice:
			// nil slice: modelled as len == 0 && cap == 0 (a non-nil empty slice with cap 0 is
			// indistinguishable for the anchored code, which only tests len afterwards)
			v := fc.eval(other, st)
			if v.S.Kind == KSlice {
				term = fmt.Sprintf("(and (= %s 0) (= %s 0))", slLen(v), slCap(v))
			} else if isBz(v.S) {
				term = "(= " + v.T + " bz_nil)"
			} else {
				oos("nil comparison on %s", typeString(t))
			}
		case *types.Pointer, *types.Interface, *types.Map, *types.Signature:
			v := fc.eval(other, st)
			fname := "isnil_" + v.S.Name
			fc.U.Fun(fname, []*Sort{v.S}, SBool)
			term = app(fname, v.T)
		default:
			oos("nil comparison on %s", typeString(t))
		}
	}
	if e.Op == token.NEQ {
		term = not(term)
	}
	return Val{T: term, S: SBool, GoT: types.Typ[types.Bool]}, true
}

func isUnsigned(t types.Type) bool {
	if t == nil {
		return false
	}
	b, ok := t.Underlying().(*types.Basic)
	return ok && b.Info()&types.IsUnsigned != 0
}

func machineIntName(t types.Type) string {
	if t == nil || isBigIntLike(t) || isTime(t) {
		return ""
	}
	b, ok := t.Underlying().(*types.Basic)
	if !ok {
		return ""
	}
	return basicIntName(b)
}

// arith implements Go integer arithmetic with explicit wrap-around (or an overflow obligation
// under //@ nooverflow).
func (fc *FCtx) arith(op token.Token, x, y Val, t types.Type, st *State, pos token.Pos) Val {
	if x.S.Name == "F64" || y.S.Name == "F64" {
		return fc.farith(op, x, y, t)
	}
	if x.S.Kind != KInt || y.S.Kind != KInt {
		oos("arithmetic on %s", x.S.Name)
	}
	var raw string
	switch op {
	case token.ADD:
		raw = app("+", x.T, y.T)
	case token.SUB:
		raw = app("-", x.T, y.T)
	case token.MUL:
		raw = app("*", x.T, y.T)
	case token.QUO, token.REM:
		fc.panicCheck(st, "div-by-zero", "(not (= "+y.T+" 0))", pos)
		if isUnsigned(t) {
			if op == token.QUO {
				raw = app("div", x.T, y.T)
			} else {
				raw = app("mod", x.T, y.T)
			}
		} else {
			if op == token.QUO {
				raw = app("tdiv", x.T, y.T)
			} else {
				raw = app("tmod", x.T, y.T)
			}
		}
	default:
		oos("arith op %s", op)
	}
	mn := machineIntName(t)
	if mn == "" {
		return Val{T: raw, S: SInt, GoT: t}
	}
	if op == token.REM || (op == token.QUO && isUnsigned(t)) {
		return Val{T: raw, S: SInt, GoT: t} // cannot leave the range
	}
	if fc.noOverflow {
		fc.oblige(st, "nooverflow", app("in_"+mn, raw), fmt.Sprintf("no %s overflow in %s", mn, op), pos)
		return Val{T: raw, S: SInt, GoT: t}
	}
	return Val{T: app("wrap_"+mn, raw), S: SInt, GoT: t}
}

func (fc *FCtx) shift(op token.Token, x, y Val, t types.Type, ye ast.Expr, st *State, pos token.Pos) Val {
	tv, ok := fc.info().Types[ye]
	if !ok || tv.Value == nil {
		// variable shift amount: x << k == x * 2^k, x >> k == x div 2^k, for 0 <= k <= 64
		// (a shift count >= the operand width yields 0 for unsigned / non-negative operands)
		fc.panicCheck(st, "shift-amount", fmt.Sprintf("(<= 0 %s)", y.T), pos)
		mn := machineIntName(t)
		if op == token.SHR {
			if !isUnsigned(t) {
				return Val{T: fmt.Sprintf("(ite (>= %s 64) (ite (< %s 0) (- 1) 0) (div %s (pow2 %s)))", y.T, x.T, x.T, y.T), S: SInt, GoT: t}
			}
			return Val{T: fmt.Sprintf("(ite (>= %s 64) 0 (div %s (pow2 %s)))", y.T, x.T, y.T), S: SInt, GoT: t}
		}
		raw := fmt.Sprintf("(ite (>= %s 64) 0 (* %s (pow2 %s)))", y.T, x.T, y.T)
		if mn == "" {
			oos("variable left shift of an unbounded integer")
		}
		return Val{T: app("wrap_"+mn, raw), S: SInt, GoT: t}
	}
	k, ok := constant.Int64Val(constant.ToInt(tv.Value))
	if !ok || k < 0 || k > 255 {
		oos("shift amount")
	}
	p := new(big.Int).Lsh(big.NewInt(1), uint(k)).String()
	mn := machineIntName(t)
	if op == token.SHR {
		return Val{T: app("div", x.T, p), S: SInt, GoT: t}
	}
	raw := app("*", x.T, p)
	if mn == "" {
		return Val{T: raw, S: SInt, GoT: t}
	}
	if fc.noOverflow {
		fc.oblige(st, "nooverflow", app("in_"+mn, raw), "no overflow in <<", pos)
		return Val{T: raw, S: SInt, GoT: t}
	}
	return Val{T: app("wrap_"+mn, raw), S: SInt, GoT: t}
}

func (fc *FCtx) evalSelector(e *ast.SelectorExpr, st *State) Val {
	info := fc.info()
	if sel, ok := info.Selections[e]; ok {
		switch sel.Kind() {
		case types.FieldVal:
			base := fc.eval(e.X, st)
			// walk embedded path
			cur := base
			path := sel.Index()
			bt := sel.Recv()
			for _, idx := range path {
				if p, ok := bt.Underlying().(*types.Pointer); ok {
					bt = p.Elem()
				}
				stt, ok := bt.Underlying().(*types.Struct)
				if !ok {
					oos("field selection on non-struct")
				}
				f := stt.Field(idx)
				if cur.S.Kind != KData {
					oos("field %s of opaque %s", f.Name(), cur.S.Name)
				}
				nv, ok := fieldSel(cur, f.Name())
				if !ok {
					oos("unknown field %s", f.Name())
				}
				nv.GoT = f.Type()
				cur = nv
				bt = f.Type()
			}
			return cur
		default:
			oos("method value %s", e.Sel.Name)
		}
	}
	// qualified identifier
	obj := info.ObjectOf(e.Sel)
	switch o := obj.(type) {
	case *types.Var:
		return fc.pkgVar(o)
	case *types.Const:
		if v, ok := fc.constVal(types.TypeAndValue{Type: o.Type(), Value: o.Val()}); ok {
			return v
		}
	}
	oos("selector %s", e.Sel.Name)
	return Val{}
}

func (fc *FCtx) evalIndex(e *ast.IndexExpr, st *State, commaOk bool) []Val {
	info := fc.info()
	if tv, ok := info.Types[e.X]; ok && tv.IsType() {
		oos("generic instantiation")
	}
	if _, isSig := info.TypeOf(e.X).Underlying().(*types.Signature); isSig {
		oos("generic function instantiation")
	}
	base := fc.eval(e.X, st)
	idx := fc.eval(e.Index, st)
	switch base.S.Kind {
	case KSlice:
		fc.panicCheck(st, "index", fmt.Sprintf("(and (<= 0 %s) (< %s %s))", idx.T, idx.T, slLen(base)), e.Pos())
		return []Val{{T: fmt.Sprintf("(select %s %s)", slEl(base), idx.T), S: base.S.Elem, GoT: elemType(base.GoT)}}
	case KMap:
		in := fmt.Sprintf("(select %s %s)", mpDom(base), idx.T)
		et := elemType(base.GoT)
		v := Val{T: ite(in, fmt.Sprintf("(select %s %s)", mpVal(base), idx.T), fc.zeroTerm(base.S.Elem, et)), S: base.S.Elem, GoT: et}
		if et != nil {
			st.assume(fc.U.WF(v)) // type invariant of the stored value (machine-integer ranges of its fields)
		}
		if commaOk {
			return []Val{v, {T: in, S: SBool, GoT: types.Typ[types.Bool]}}
		}
		return []Val{v}
	case KStr:
		oos("string indexing")
	case KOpaque:
		if isBz(base.S) {
			fc.panicCheck(st, "index", fmt.Sprintf("(and (<= 0 %s) (< %s (bz_len %s)))", idx.T, idx.T, base.T), e.Pos())
			return []Val{{T: fmt.Sprintf("(bz_at %s %s)", base.T, idx.T), S: SInt, GoT: types.Typ[types.Uint8]}}
		}
	}
	oos("indexing %s", base.S.Name)
	return nil
}

func (fc *FCtx) evalSlice(e *ast.SliceExpr, st *State) Val {
	base := fc.eval(e.X, st)
	if isBz(base.S) && !e.Slice3 {
		lo := "0"
		if e.Low != nil {
			lo = fc.eval(e.Low, st).T
		}
		hi := fmt.Sprintf("(bz_len %s)", base.T)
		if e.High != nil {
			hi = fc.eval(e.High, st).T
		}
		fc.panicCheck(st, "slice-bounds", fmt.Sprintf("(and (<= 0 %s) (<= %s %s) (<= %s (bz_cap %s)))", lo, lo, hi, hi, base.T), e.Pos())
		return Val{T: fmt.Sprintf("(bz_slice %s %s %s)", base.T, lo, hi), S: base.S, GoT: fc.info().TypeOf(e)}
	}
	if base.S.Kind != KSlice {
		oos("slicing %s", base.S.Name)
	}
	if e.Slice3 {
		oos("3-index slice")
	}
	if rs0 := fc.U.SortOf(fc.info().TypeOf(e)); isBz(rs0) {
		// slicing a byte array: abstract conversion to a byte string of the same length
		if e.Low != nil || e.High != nil {
			oos("partial slice of a byte array")
		}
		fn := "bz_of_" + sanitize(base.S.Name)
		fc.U.Fun(fn, []*Sort{base.S}, rs0)
		r := Val{T: app(fn, base.T), S: rs0, GoT: fc.info().TypeOf(e)}
		st.assume(fmt.Sprintf("(and (= (bz_len %s) %s) (not (= %s bz_nil)))", r.T, slLen(base), r.T))
		return r
	}
	lo := "0"
	if e.Low != nil {
		lo = fc.eval(e.Low, st).T
	}
	t := fc.info().TypeOf(e.X)
	_, isArr := t.Underlying().(*types.Array)
	if p, ok := t.Underlying().(*types.Pointer); ok {
		_, isArr = p.Elem().Underlying().(*types.Array)
	}
	hi := slLen(base)
	if e.High != nil {
		hi = fc.eval(e.High, st).T
	}
	bound := slCap(base)
	if isArr {
		bound = slLen(base)
	}
	fc.panicCheck(st, "slice-bounds", fmt.Sprintf("(and (<= 0 %s) (<= %s %s) (<= %s %s))", lo, lo, hi, hi, bound), e.Pos())
	rs := fc.U.SortOf(fc.info().TypeOf(e))
	// elements shift by lo
	var el string
	if lo == "0" {
		el = slEl(base)
	} else {
		n := fc.U.Fresh("sl", &Sort{Name: fmt.Sprintf("(Array Int %s)", base.S.Elem.Name)})
		fc.U.fresh++
		iv := fmt.Sprintf("si%d", fc.U.fresh)
		st.assume(fmt.Sprintf("(forall ((%s Int)) (! (= (select %s %s) (select %s (+ %s %s))) :pattern ((select %s %s))))", iv, n, iv, slEl(base), iv, lo, n, iv))
		el = n
	}
	newCap := app("-", bound, lo)
	if isArr {
		newCap = app("-", slLen(base), lo)
	}
	return Val{T: mkSlice(rs, app("-", hi, lo), newCap, el), S: rs, GoT: fc.info().TypeOf(e)}
}

func (fc *FCtx) evalCompositeLit(e *ast.CompositeLit, st *State) Val {
	t := fc.info().TypeOf(e)
	s := fc.U.SortOf(t)
	if len(e.Elts) == 0 && (isTime(t) || isBigIntLike(t)) {
		return fc.zeroVal(t)
	}
	switch s.Kind {
	case KData:
		tt := t
		if p, ok := tt.Underlying().(*types.Pointer); ok {
			tt = p.Elem()
		}
		stt := tt.Underlying().(*types.Struct)
		vals := make([]string, len(s.Fields))
		for i, f := range s.Fields {
			vals[i] = fc.zeroTerm(f.S, stt.Field(i).Type())
		}
		for i, el := range e.Elts {
			if kv, ok := el.(*ast.KeyValueExpr); ok {
				name := kv.Key.(*ast.Ident).Name
				found := false
				for j, f := range s.Fields {
					if f.Name == name {
						v := fc.eval(kv.Value, st)
						vals[j] = fc.coerce(v, stt.Field(j).Type()).T
						found = true
					}
				}
				if !found {
					oos("unknown field %s in literal", name)
				}
			} else {
				v := fc.eval(el, st)
				vals[i] = fc.coerce(v, stt.Field(i).Type()).T
			}
		}
		return Val{T: app("mk_"+s.Name, vals...), S: s, GoT: t}
	case KSlice:
		et := elemType(t)
		arr := fc.constArray("Int", s.Elem, fc.zeroTerm(s.Elem, et))
		n := 0
		for _, el := range e.Elts {
			if _, ok := el.(*ast.KeyValueExpr); ok {
				oos("keyed slice literal")
			}
			var v Val
			if cl, ok := el.(*ast.CompositeLit); ok && cl.Type == nil {
				v = fc.evalCompositeLit(cl, st)
			} else {
				v = fc.eval(el, st)
			}
			arr = fmt.Sprintf("(store %s %d %s)", arr, n, fc.coerce(v, et).T)
			n++
		}
		ln := fmt.Sprint(n)
		if a, ok := t.Underlying().(*types.Array); ok {
			ln = fmt.Sprint(a.Len())
		}
		return Val{T: mkSlice(s, ln, ln, arr), S: s, GoT: t}
	case KMap:
		cur := fc.zeroVal(t)
		mt := t.Underlying().(*types.Map)
		for _, el := range e.Elts {
			kv, ok := el.(*ast.KeyValueExpr)
			if !ok {
				oos("map literal element")
			}
			k := fc.coerce(fc.eval(kv.Key, st), mt.Key())
			v := fc.coerce(fc.eval(kv.Value, st), mt.Elem())
			cur = Val{T: app("mk_"+s.Name, fmt.Sprintf("(store %s %s true)", mpDom(cur), k.T), fmt.Sprintf("(store %s %s %s)", mpVal(cur), k.T, v.T)), S: s, GoT: t}
		}
		return cur
	case KOpaque:
		if isBz(s) {
			var es []string
			for _, el := range e.Elts {
				if _, ok := el.(*ast.KeyValueExpr); ok {
					oos("keyed byte literal")
				}
				es = append(es, fc.eval(el, st).T)
			}
			return Val{T: fc.bzMk(es), S: s, GoT: t}
		}
	}
	oos("composite literal of %s", s.Name)
	return Val{}
}

func (fc *FCtx) calleeName(c *ast.CallExpr) string {
	info := fc.info()
	switch f := c.Fun.(type) {
	case *ast.Ident:
		if o, ok := info.ObjectOf(f).(*types.Func); ok {
			return o.FullName()
		}
		return f.Name
	case *ast.SelectorExpr:
		if o, ok := info.ObjectOf(f.Sel).(*types.Func); ok {
			return o.FullName()
		}
		return f.Sel.Name
	case *ast.IndexExpr:
		if id, ok := f.X.(*ast.Ident); ok {
			if o, ok := info.ObjectOf(id).(*types.Func); ok {
				return o.FullName()
			}
		}
		if se, ok := f.X.(*ast.SelectorExpr); ok {
			if o, ok := info.ObjectOf(se.Sel).(*types.Func); ok {
				return o.FullName()
			}
		}
	}
	return fmt.Sprintf("%T", c.Fun)
}

var droppedPrefixes = []string{
	"(github.com/cosmos/cosmos-sdk/types.EventManagerI).EmitEvent",
	"(*github.com/cosmos/cosmos-sdk/types.EventManager).EmitEvent",
	"(github.com/cosmos/cosmos-sdk/types.EventManagerI).EmitTypedEvent",
	"(cosmossdk.io/log.Logger).",
	"github.com/hashicorp/go-metrics.",
	"github.com/cosmos/cosmos-sdk/telemetry.",
	"(*github.com/bandprotocol/chain/v3/pkg/logger.Logger).",
	"(*github.com/bandprotocol/chain/v3/yoda.Logger).",
	"(*github.com/bandprotocol/chain/v3/yoda.Context).update",
}

func isDroppedCall(name string) bool {
	for _, p := range droppedPrefixes {
		if strings.HasPrefix(name, p) {
			return true
		}
	}
	return false
}

// constArray returns the constant array with the given element. cvc5 accepts `as const` only for
// values, so for elements built from declared constants a named array with a defining axiom is used.
func (fc *FCtx) constArray(keySort string, elem *Sort, zero string) string {
	isValue := true
	for _, tok := range strings.FieldsFunc(zero, func(r rune) bool { return r == '(' || r == ')' || r == ' ' }) {
		if strings.HasPrefix(tok, "strlit_") || strings.HasPrefix(tok, "zero_") || tok == "bz_nil" || strings.HasPrefix(tok, "zarr") {
			isValue = false
		}
	}
	if isValue {
		return fmt.Sprintf("((as const (Array %s %s)) %s)", keySort, elem.Name, zero)
	}
	name := "zarr_" + sanitize(keySort) + "_" + sanitize(elem.Name)
	if !fc.U.declared["c:"+name] {
		fc.U.decl("c:"+name, fmt.Sprintf("(declare-const %s (Array %s %s))", name, keySort, elem.Name))
		fc.U.decl("ax:"+name, fmt.Sprintf("(assert (forall ((i %s)) (! (= (select %s i) %s) :pattern ((select %s i)))))", keySort, name, zero, name))
	}
	return name
}

// strCat: string concatenation as an uninterpreted function with the length law and the two unit laws (the characters
// are not modelled: strings are compared for equality and measured, not inspected).
func (fc *FCtx) strCat(x, y Val, t types.Type, st *State) Val {
	fc.U.Fun("str_cat", []*Sort{SStr, SStr}, SStr)
	fc.U.Axiom("string concatenation: length and units", "(forall ((a Str) (b Str)) (! (and (= (str_len (str_cat a b)) (+ (str_len a) (str_len b))) (=> (= (str_len b) 0) (= (str_cat a b) a)) (=> (= (str_len a) 0) (= (str_cat a b) b))) :pattern ((str_cat a b))))")
	return Val{T: app("str_cat", x.T, y.T), S: SStr, GoT: t}
}
