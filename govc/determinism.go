package main

import (
	"fmt"
	"go/ast"
	"go/types"
	"sort"
	"strings"
)

// mapRangeFindings inspects every `range` over a map in the given function and classifies it.
func (e *Engine) mapRanges(fi *FuncInfo) (ok []string, bad []string) {
	info := fi.Pkg.TypesInfo
	var visitBlock func(stmts []ast.Stmt)
	check := func(rs *ast.RangeStmt, rest []ast.Stmt) {
		pos := e.fset.Position(rs.Pos())
		where := fmt.Sprintf("%s:%d", strings.TrimPrefix(pos.Filename, e.repo+"/"), pos.Line)
		// idiom: for k := range m { keys = append(keys, k) } ... sort.Strings(keys) before other uses
		if len(rs.Body.List) == 1 {
			if as, isAs := rs.Body.List[0].(*ast.AssignStmt); isAs && len(as.Lhs) == 1 && len(as.Rhs) == 1 {
				if call, isCall := as.Rhs[0].(*ast.CallExpr); isCall {
					if id, isID := call.Fun.(*ast.Ident); isID && id.Name == "append" {
						if lhs, isL := as.Lhs[0].(*ast.Ident); isL {
							obj := info.ObjectOf(lhs)
							for _, nx := range rest {
								if sortsVar(info, nx, obj) {
									ok = append(ok, where+" (keys collected, then sorted)")
									return
								}
								if usesVar(info, nx, obj) {
									break
								}
							}
							bad = append(bad, where+": keys of a map are collected into "+lhs.Name+" but not sorted before use")
							return
						}
					}
				}
			}
		}
		// idiom: body only writes into other maps / deletes (order-insensitive)
		if onlyMapWrites(info, rs.Body) {
			ok = append(ok, where+" (only map inserts/deletes)")
			return
		}
		bad = append(bad, where+": range over a map with an order-dependent body")
	}
	visitBlock = func(stmts []ast.Stmt) {
		for i, s := range stmts {
			ast.Inspect(s, func(n ast.Node) bool {
				switch x := n.(type) {
				case *ast.FuncLit:
					return false
				case *ast.BlockStmt:
					if n != s {
						visitBlock(x.List)
						return false
					}
				case *ast.RangeStmt:
					if t := info.TypeOf(x.X); t != nil {
						if _, isMap := t.Underlying().(*types.Map); isMap {
							if n == s {
								check(x, stmts[i+1:])
							} else {
								check(x, nil)
							}
						}
					}
				}
				return true
			})
		}
	}
	if fi.Body() != nil {
		visitBlock(fi.Body().List)
	}
	return
}

func sortsVar(info *types.Info, s ast.Stmt, obj types.Object) bool {
	es, ok := s.(*ast.ExprStmt)
	if !ok {
		return false
	}
	call, ok := es.X.(*ast.CallExpr)
	if !ok || len(call.Args) == 0 {
		return false
	}
	sel, ok := call.Fun.(*ast.SelectorExpr)
	if !ok {
		return false
	}
	pk, ok := sel.X.(*ast.Ident)
	if !ok {
		return false
	}
	name := pk.Name + "." + sel.Sel.Name
	switch name {
	case "sort.Strings", "sort.Ints", "sort.Slice", "sort.SliceStable", "slices.Sort", "slices.SortFunc", "slices.SortStableFunc":
	default:
		return false
	}
	id, ok := call.Args[0].(*ast.Ident)
	return ok && info.ObjectOf(id) == obj
}

func usesVar(info *types.Info, n ast.Node, obj types.Object) bool {
	used := false
	ast.Inspect(n, func(x ast.Node) bool {
		if id, ok := x.(*ast.Ident); ok && info.ObjectOf(id) == obj {
			used = true
		}
		return !used
	})
	return used
}

func onlyMapWrites(info *types.Info, b *ast.BlockStmt) bool {
	for _, s := range b.List {
		switch x := s.(type) {
		case *ast.AssignStmt:
			for _, l := range x.Lhs {
				ix, ok := l.(*ast.IndexExpr)
				if !ok {
					return false
				}
				if _, isMap := info.TypeOf(ix.X).Underlying().(*types.Map); !isMap {
					return false
				}
			}
		case *ast.ExprStmt:
			c, ok := x.X.(*ast.CallExpr)
			if !ok {
				return false
			}
			if id, ok := c.Fun.(*ast.Ident); !ok || id.Name != "delete" {
				return false
			}
		default:
			return false
		}
	}
	return true
}

// groundDeterminism: every function of the loaded consensus packages (x/<module>, x/<module>/keeper) is
// swept for map ranges.
func groundDeterminism(e *Engine, prop string) []*Obligation {
	var keys []string
	for k, fi := range e.funcs {
		if fi.Lit != nil {
			continue
		}
		p := shortPkg(fi.Pkg.PkgPath)
		file := e.fset.Position(fi.Decl.Pos()).Filename
		base := file[strings.LastIndex(file, "/")+1:]
		// block execution code only: module root (abci, handlers) and keeper packages; genesis validation,
		// snapshot restore, generated code, clients and test utilities are outside block execution
		if !strings.HasPrefix(p, "x/") || strings.Contains(p, "/client") || strings.Contains(p, "/testutil") || strings.Contains(p, "/simulation") {
			continue
		}
		// the modules' types packages: the helper methods block execution calls (Tunnel.GetSignalIDs, LatestPrices.
		// UpdatePrices, encoders ...); message validation, codec registration and generated code are not block execution
		if strings.HasSuffix(p, "/types") && (strings.HasPrefix(base, "msg") || strings.HasPrefix(base, "codec") || strings.HasPrefix(base, "expected") || strings.HasPrefix(base, "errors") || strings.HasPrefix(base, "events")) {
			continue
		}
		if strings.Contains(base, "genesis") || strings.Contains(base, "snapshotter") || strings.HasSuffix(base, ".pb.go") || strings.HasSuffix(base, ".pb.gw.go") {
			continue
		}
		keys = append(keys, k)
	}
	sort.Strings(keys)
	var okAll, badAll []string
	for _, k := range keys {
		ok, bad := e.mapRanges(e.funcs[k])
		for _, o := range ok {
			okAll = append(okAll, shortPkg(k)+" @ "+o)
		}
		for _, b := range bad {
			badAll = append(badAll, shortPkg(k)+" @ "+b)
		}
	}
	var out []*Obligation
	out = append(out, groundObl(prop, "determinism/map-ranges", fmt.Sprintf("no order-dependent range over a map in %d consensus functions (%d map ranges follow a deterministic idiom)", len(keys), len(okAll)), len(badAll) == 0, strings.Join(badAll, "; ")))
	return out
}

func init() {
	groundChecks["determinism"] = groundDeterminism
}
