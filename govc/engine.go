package main

import (
	"bytes"
	"crypto/sha256"
	"encoding/hex"
	"fmt"
	"go/ast"
	"go/constant"
	"go/printer"
	"go/token"
	"go/types"
	"math/big"
	"os"
	"os/exec"
	"path/filepath"
	"sort"
	"strconv"
	"strings"

	"golang.org/x/tools/go/packages"
)

type Engine struct {
	repo, verif string
	fset        *token.FileSet
	pkgs        map[string]*packages.Package
	funcs       map[string]*FuncInfo
	cs          *ContractSet
	loopOrdMemo map[*FuncInfo]map[token.Pos]int
	loadErrs    []string
	keyTags     map[string]int
	typeTags    map[string]int
	overlay     map[string][]byte // absolute path -> patched content (GOVC_OVERLAY_PATCH)
	overlayDir  string
	ledHash     map[string]string   // ledgered source hashes (nil while a ledger is being written)
	ledLocals   map[string][]string // ledgered local-variable lists
}

const modPath = "github.com/bandprotocol/chain/v3"

func NewEngine(repo, verif string) *Engine {
	return &Engine{repo: repo, verif: verif, pkgs: map[string]*packages.Package{}, funcs: map[string]*FuncInfo{}, cs: NewContractSet(), loopOrdMemo: map[*FuncInfo]map[token.Pos]int{}, keyTags: map[string]int{}, typeTags: map[string]int{}}
}

// Load loads the given package directories (relative to the repo root) with full type info.
func (e *Engine) Load(rels []string) error {
	var pats []string
	for _, r := range rels {
		pats = append(pats, "./"+r)
	}
	if err := e.loadOverlay(); err != nil {
		return err
	}
	cfg := &packages.Config{
		Overlay:    e.overlay,
		Mode:       packages.NeedName | packages.NeedFiles | packages.NeedSyntax | packages.NeedTypes | packages.NeedTypesInfo | packages.NeedImports | packages.NeedCompiledGoFiles,
		Dir:        e.repo,
		BuildFlags: []string{"-tags=verif"},
		Env:        append(os.Environ(), "GOFLAGS=-mod=mod", "GOPROXY=off", "GOSUMDB=off", "GOTOOLCHAIN=local"),
		Tests:      false,
	}
	pkgs, err := packages.Load(cfg, pats...)
	if err != nil {
		return err
	}
	for _, p := range pkgs {
		for _, er := range p.Errors {
			e.loadErrs = append(e.loadErrs, er.Error())
		}
		if p.Types == nil || p.TypesInfo == nil {
			return fmt.Errorf("package %s did not type-check", p.PkgPath)
		}
		e.fset = p.Fset
		e.pkgs[p.PkgPath] = p
		e.indexFuncs(p)
	}
	if len(e.loadErrs) > 0 {
		return fmt.Errorf("load errors: %s", strings.Join(e.loadErrs, "; "))
	}
	// contracts
	for _, r := range rels {
		path := modPath + "/" + r
		if f := contractFileFor(e.repo, e.verif, r); f != "" {
			if err := e.cs.LoadFile(f, path); err != nil {
				return err
			}
		}
	}
	// assumed contracts and shared specs
	for _, dir := range []string{"assumed", "shared"} {
		files, _ := filepath.Glob(filepath.Join(e.verif, "contracts", dir, "*.spec"))
		sort.Strings(files)
		for _, f := range files {
			if err := e.cs.LoadFile(f, ""); err != nil {
				return err
			}
		}
	}
	return nil
}

func (e *Engine) indexFuncs(p *packages.Package) {
	for _, f := range p.Syntax {
		for _, d := range f.Decls {
			fd, ok := d.(*ast.FuncDecl)
			if !ok {
				continue
			}
			obj, _ := p.TypesInfo.Defs[fd.Name].(*types.Func)
			if obj == nil {
				continue
			}
			key := funcKey(obj)
			sig := obj.Type().(*types.Signature)
			fi := &FuncInfo{Pkg: p, Decl: fd, Key: key, Sig: sig, Recv: sig.Recv()}
			e.funcs[key] = fi
			// function literals, numbered in source order
			if fd.Body != nil {
				k := 0
				ast.Inspect(fd.Body, func(n ast.Node) bool {
					if fl, ok := n.(*ast.FuncLit); ok {
						lk := fmt.Sprintf("%s$lit%d", key, k)
						k++
						lsig, _ := p.TypesInfo.TypeOf(fl).(*types.Signature)
						e.funcs[lk] = &FuncInfo{Pkg: p, Decl: fd, Lit: fl, Key: lk, Sig: lsig}
					}
					return true
				})
			}
		}
	}
}

func (e *Engine) timeType() types.Type {
	for _, p := range e.pkgs {
		for _, imp := range p.Types.Imports() {
			if imp.Path() == "time" {
				return imp.Scope().Lookup("Time").Type()
			}
		}
	}
	return nil
}

func (e *Engine) pkgOfContract(c *FuncContract) *packages.Package {
	if p, ok := e.pkgs[c.PkgPath]; ok {
		return p
	}
	return nil
}

// externFor finds an assumed contract for a function that is not in the loaded packages.
func (e *Engine) externFor(fn *types.Func) *FuncContract {
	full := fn.FullName()
	if c, ok := e.cs.Funcs[full]; ok {
		return c
	}
	if c, ok := e.cs.Funcs[funcKey(fn)]; ok && c.Extern {
		return c
	}
	return nil
}

func (e *Engine) autoInlinable(fi *FuncInfo) bool {
	if fi.Body() == nil {
		return false
	}
	n := 0
	ok := true
	// predicate / comparator literals handed straight to sort.* / slices.* (modelled by intrinsics that do not
	// interpret the literal) do not make a function un-inlinable
	libLit := map[*ast.FuncLit]bool{}
	ast.Inspect(fi.Body(), func(x ast.Node) bool {
		if c, isCall := x.(*ast.CallExpr); isCall {
			if sel, isSel := c.Fun.(*ast.SelectorExpr); isSel {
				if id, isID := sel.X.(*ast.Ident); isID && (id.Name == "sort" || id.Name == "slices") {
					for _, a := range c.Args {
						if l, isLit := a.(*ast.FuncLit); isLit {
							libLit[l] = true
						}
					}
				}
			}
		}
		return true
	})
	ast.Inspect(fi.Body(), func(x ast.Node) bool {
		switch l := x.(type) {
		case *ast.FuncLit:
			if libLit[l] {
				return false
			}
			ok = false
		case *ast.ForStmt, *ast.RangeStmt, *ast.GoStmt, *ast.DeferStmt, *ast.SelectStmt:
			ok = false
		case ast.Stmt:
			n++
		}
		return ok
	})
	return ok && n <= 40
}

func (e *Engine) loopOrds(fi *FuncInfo) map[token.Pos]int {
	if m, ok := e.loopOrdMemo[fi]; ok {
		return m
	}
	m := map[token.Pos]int{}
	k := 0
	root := fi.Body()
	ast.Inspect(root, func(n ast.Node) bool {
		switch x := n.(type) {
		case *ast.FuncLit:
			if x != fi.Lit {
				return false
			}
		case *ast.ForStmt:
			m[x.Pos()] = k
			k++
		case *ast.RangeStmt:
			m[x.Pos()] = k
			k++
		}
		return true
	})
	e.loopOrdMemo[fi] = m
	return m
}

func (e *Engine) retOrds(fi *FuncInfo) map[token.Pos]int {
	m := map[token.Pos]int{}
	k := 0
	ast.Inspect(fi.Body(), func(n ast.Node) bool {
		switch x := n.(type) {
		case *ast.FuncLit:
			if x != fi.Lit {
				return false
			}
		case *ast.ReturnStmt:
			m[x.Pos()] = k
			k++
		}
		return true
	})
	return m
}

// pkgVarInit: package-level variables initialised by simple composite literals of constants
// (lookup tables) are supported read-only.
func (e *Engine) pkgVarInit(fc *FCtx, o *types.Var) (Val, bool) {
	basicInt := false
	if bt, ok := o.Type().Underlying().(*types.Basic); ok && bt.Info()&types.IsInteger != 0 && strings.HasPrefix(o.Pkg().Path(), modPath) {
		basicInt = true
	}
	if !isBigIntLike(o.Type()) && !basicInt {
		return Val{}, false
	}
	var pkg *packages.Package
	for _, p := range e.pkgs {
		if p.Types == o.Pkg() {
			pkg = p
		}
	}
	if pkg == nil {
		return Val{}, false
	}
	for _, f := range pkg.Syntax {
		for _, d := range f.Decls {
			gd, ok := d.(*ast.GenDecl)
			if !ok || gd.Tok != token.VAR {
				continue
			}
			for _, sp := range gd.Specs {
				vs := sp.(*ast.ValueSpec)
				for i, nm := range vs.Names {
					if pkg.TypesInfo.Defs[nm] != o || len(vs.Values) == 0 {
						continue
					}
					var init ast.Expr
					if len(vs.Values) == len(vs.Names) {
						init = vs.Values[i]
					} else if i == 0 {
						init = vs.Values[0]
					}
					if basicInt {
						// an integer variable of this module with a constant initialiser and no other assignment anywhere
						// in the loaded packages (checked below) is read as that constant
						tv := pkg.TypesInfo.Types[init]
						if init == nil || tv.Value == nil || e.assignedSomewhere(o) {
							return Val{}, false
						}
						fc.note("package-level integer variable " + o.Pkg().Name() + "." + o.Name() + " read as its initial constant (no assignment to it in the loaded packages)")
						return Val{T: bigLitStr(tv.Value.ExactString()), S: SInt, GoT: o.Type()}, true
					}
					if b := constBigInit(pkg, init); b != nil {
						fc.note("package-level big.Int " + o.Name() + " read as its initial constant (assumed never mutated)")
						return Val{T: bigLit(b), S: SInt, GoT: o.Type()}, true
					}
				}
			}
		}
	}
	return Val{}, false
}

// constBigInit recognises new(big.Int).SetString("..", base) and new(big.Int).SetUint64(c) / big.NewInt(c).
func constBigInit(pkg *packages.Package, e ast.Expr) *big.Int {
	c, ok := e.(*ast.CallExpr)
	if !ok {
		return nil
	}
	sel, ok := c.Fun.(*ast.SelectorExpr)
	if !ok {
		return nil
	}
	argConst := func(a ast.Expr) (string, bool) {
		tv := pkg.TypesInfo.Types[a]
		if tv.Value == nil {
			return "", false
		}
		if tv.Value.Kind() == constant.String {
			return constant.StringVal(tv.Value), true
		}
		return tv.Value.ExactString(), true
	}
	switch sel.Sel.Name {
	case "SetString":
		if len(c.Args) == 2 {
			s, ok1 := argConst(c.Args[0])
			b, ok2 := argConst(c.Args[1])
			if ok1 && ok2 {
				base, _ := strconv.Atoi(b)
				v, ok := new(big.Int).SetString(s, base)
				if ok {
					return v
				}
			}
		}
	case "SetUint64", "SetInt64", "NewInt":
		if len(c.Args) == 1 {
			if s, ok := argConst(c.Args[0]); ok {
				v, ok := new(big.Int).SetString(s, 10)
				if ok {
					return v
				}
			}
		}
	}
	return nil
}

// funcSourceHash: SHA-256 of the comment-free, gofmt-normalised print of the function's AST.
func (e *Engine) funcSource(fi *FuncInfo) (string, string) {
	var buf bytes.Buffer
	cfg := printer.Config{Mode: printer.UseSpaces | printer.TabIndent, Tabwidth: 8}
	var node ast.Node = fi.Decl
	if fi.Lit != nil {
		node = fi.Lit
	} else {
		cp := *fi.Decl
		cp.Doc = nil
		node = &cp
	}
	// printing without the file's comment map drops comments
	cfg.Fprint(&buf, token.NewFileSet(), stripPos(node))
	h := sha256.Sum256(buf.Bytes())
	return hex.EncodeToString(h[:]), buf.String()
}

func stripPos(n ast.Node) ast.Node { return n }

// ---------------------------------------------------------------------------------------------
// Verification of one function
// ---------------------------------------------------------------------------------------------

type FuncReport struct {
	Key         string   `json:"function"`
	File        string   `json:"file"`
	Lines       string   `json:"lines"`
	Hash        string   `json:"source_sha256"`
	Locals      []string `json:"-"`
	Dropped     []string `json:"dropped_constructs,omitempty"`
	Inlined     []string `json:"inlined_callees,omitempty"`
	Assumed     []string `json:"assumed_contracts,omitempty"`
	Notes       []string `json:"notes,omitempty"`
	OutOfSub    string   `json:"out_of_subset,omitempty"`
	Missing     bool     `json:"target_missing,omitempty"`
	NObl        int      `json:"obligations"`
	Axioms      []string `json:"axioms,omitempty"`
	Termination []string `json:"termination_not_proved,omitempty"`
}

func (e *Engine) VerifyFunc(prop, key string) (rep *FuncReport, obls []*Obligation) {
	rep = &FuncReport{Key: key}
	fi := e.funcs[key]
	c := e.cs.Funcs[key]
	if fi == nil {
		rep.Missing = true
		return
	}
	pos := e.fset.Position(fi.Decl.Pos())
	end := e.fset.Position(fi.Decl.End())
	if fi.Lit != nil {
		pos = e.fset.Position(fi.Lit.Pos())
		end = e.fset.Position(fi.Lit.End())
	}
	rep.File = strings.TrimPrefix(pos.Filename, e.repo+"/")
	rep.Lines = fmt.Sprintf("%d-%d", pos.Line, end.Line)
	rep.Hash, _ = e.funcSource(fi)
	localNames, localObjs := e.funcLocals(fi)
	rep.Locals = localNames
	if c == nil {
		c = &FuncContract{Key: key, Loops: map[int]*LoopSpec{}, Flags: map[string]string{}, Asserts: map[int][]*Clause{}}
	}
	fc := &FCtx{E: e, U: NewUniverse(), FI: fi, C: c, Prop: prop, counters: map[string]int{}, assumed: map[string]bool{}, inlined: map[string]bool{}, specDecl: map[string]bool{}, ctxSuffixOf: map[string]string{}, cacheParent: map[string]string{}}
	fc.noOverflow = c.Flags["nooverflow"] != ""
	fc.mayPanic = c.Flags["may_panic"] != ""
	fc.mayPanicCallsOnly = c.Flags["may_panic"] == "calls"
	fc.fpMode = c.Flags["mode"] == "fp"
	fc.retOrd = e.retOrds(fi)
	// compared with the ledgered tree: did the function's own body change, and if so, is the change (as far as its
	// locals go) a pure renaming? A contract clause that names a renamed local then follows it.
	if lh, ok := e.ledHash[key]; ok && !strings.HasPrefix(lh, "out-of-subset") {
		if strings.SplitN(lh, "+", 2)[0] != rep.Hash {
			fc.changed = true
			if old := e.ledLocals[key]; len(old) > 0 {
				// a local of the ledgered body that is gone is taken to be RENAMED when exactly one new local of the same
				// type appeared and no other vanished local has that type; anything else is a removal
				split := func(x string) (string, string) {
					p := strings.SplitN(x, "|", 2)
					if len(p) < 2 {
						return p[0], ""
					}
					return p[0], p[1]
				}
				oldNames, curNames := map[string]bool{}, map[string]bool{}
				for _, x := range old {
					n, _ := split(x)
					oldNames[n] = true
				}
				for _, x := range localNames {
					n, _ := split(x)
					curNames[n] = true
				}
				goneByType, newByType := map[string][]string{}, map[string][]int{}
				for _, x := range old {
					if n, t := split(x); !curNames[n] {
						dup := false
						for _, y := range goneByType[t] {
							if y == n {
								dup = true
							}
						}
						if !dup {
							goneByType[t] = append(goneByType[t], n)
						}
					}
				}
				seenNew := map[string]bool{}
				for i, x := range localNames {
					if n, t := split(x); !oldNames[n] && !seenNew[n] {
						seenNew[n] = true
						newByType[t] = append(newByType[t], i)
					}
				}
				fc.renames = map[string]types.Object{}
				fc.renamesRev = map[string]string{}
				for t, gone := range goneByType {
					if len(gone) == 1 && len(newByType[t]) == 1 {
						i := newByType[t][0]
						nn, _ := split(localNames[i])
						fc.renames[gone[0]] = localObjs[i]
						fc.renamesRev[nn] = gone[0]
					}
				}
			}
		}
	}
	defer func() {
		if r := recover(); r != nil {
			if o, ok := r.(OutOfSubset); ok {
				rep.OutOfSub = o.What
				obls = nil
				return
			}
			panic(r)
		}
	}()
	fc.loadAxioms()
	fc.loadLemmas()
	fc.run()
	var inl []string
	for k := range fc.inlined {
		inl = append(inl, k)
	}
	sort.Strings(inl) // the hash must not depend on map iteration order
	for _, k := range inl {
		rep.Inlined = append(rep.Inlined, shortPkg(k))
		// inlined callee sources join the caller's hash
		if cfi := e.funcs[k]; cfi != nil {
			h, _ := e.funcSource(cfi)
			rep.Hash = rep.Hash + "+" + h[:12]
		}
	}
	sort.Strings(rep.Inlined)
	for k := range fc.assumed {
		rep.Assumed = append(rep.Assumed, k)
	}
	sort.Strings(rep.Assumed)
	rep.Dropped = fc.dropped
	rep.Notes = fc.notes
	rep.Axioms = fc.U.axiomSrc
	rep.Termination = fc.termination
	rep.NObl = len(fc.Obls)
	// build scripts
	for _, o := range fc.Obls {
		o.Script = fc.script(o)
	}
	return rep, fc.Obls
}

func (fc *FCtx) run() {
	fi := fc.FI
	st := &State{vars: map[types.Object]Val{}, ghost: map[string]Val{}}
	fr := &frame{fi: fi}
	fc.frames = []*frame{fr}
	sig := fi.Sig
	// ghost state
	fc.initGhost(st)
	bindParam := func(v *types.Var) {
		if v == nil || v.Name() == "" || v.Name() == "_" {
			return
		}
		s := fc.U.SortOf(v.Type())
		val := Val{T: fc.U.Const("p_"+sanitize(v.Name()), s), S: s, GoT: v.Type()}
		st.vars[v] = val
		st.assume(fc.U.WF(val))
		fc.observe(v.Name(), val, 0)
	}
	if fi.Lit == nil {
		bindParam(sig.Recv())
	}
	for i := 0; i < sig.Params().Len(); i++ {
		bindParam(sig.Params().At(i))
	}
	for i := 0; i < sig.Results().Len(); i++ {
		r := sig.Results().At(i)
		fr.results = append(fr.results, r)
		if r.Name() != "" && r.Name() != "_" {
			st.vars[r] = fc.zeroVal(r.Type())
		}
	}
	if fi.Lit != nil {
		// captured variables of the enclosing function are implicit in/out parameters of the literal
		info := fi.Pkg.TypesInfo
		seen := map[types.Object]bool{}
		ast.Inspect(fi.Lit.Body, func(n ast.Node) bool {
			id, ok := n.(*ast.Ident)
			if !ok {
				return true
			}
			v, ok := info.Uses[id].(*types.Var)
			if !ok || seen[v] || v.IsField() || v.Pkg() == nil || v.Parent() == v.Pkg().Scope() {
				return true
			}
			if v.Pos() >= fi.Lit.Pos() && v.Pos() <= fi.Lit.End() {
				return true
			}
			seen[v] = true
			s := fc.U.SortOf(v.Type())
			val := Val{T: fc.U.Const("cap_"+sanitize(v.Name()), s), S: s, GoT: v.Type()}
			st.vars[v] = val
			st.assume(fc.U.WF(val))
			return true
		})
	}
	// a generic function is verified once, over its type parameters (opaque sorts): their names resolve to themselves
	if tps := fi.Sig.TypeParams(); tps != nil && tps.Len() > 0 {
		fc.typeArgs = map[string]types.Type{}
		for i := 0; i < tps.Len(); i++ {
			fc.typeArgs[tps.At(i).Obj().Name()] = tps.At(i)
		}
	}
	bodyPos := fi.Body().Lbrace + 1
	// `//@ forwards <callee>`: the function returns exactly what its one call of <callee> returned. Bookkeeping ghosts
	// (their names contain "@": outside every frame): the number of calls made so far and the results of the last one.
	if fw := fc.C.Flags["forwards"]; fw != "" {
		st.ghost["fwd@count"] = Val{T: "0", S: SInt}
		for i := 0; i < fi.Sig.Results().Len(); i++ {
			rt := fi.Sig.Results().At(i).Type()
			s := fc.U.SortOf(rt)
			st.ghost[fmt.Sprintf("fwd@r%d", i)] = Val{T: fc.U.Fresh("fwd0", s), S: s, GoT: rt}
		}
	}
	fc.entry = st.clone()
	// requires
	var reqs []string
	for _, r := range fc.C.Requires {
		env := fc.newEnv(st, fc.entry, bodyPos)
		t := fc.specBool(r.Expr, env)
		reqs = append(reqs, t)
		st.assume(t)
	}
	fc.entry = st.clone()
	// precondition cover (non-vacuity)
	cov := &Obligation{Name: fmt.Sprintf("%s/%s/pre-cover", fc.Prop, shortPkg(fi.Key)), Kind: "cover", Assumes: append([]string(nil), st.pc...), Goal: "true", Cover: true, Clause: "requires are satisfiable", Func: fi.Key}
	fc.Obls = append(fc.Obls, cov)
	// a contract that names a loop the function does not have is a mistake in the contract (or, in a changed function,
	// a proof clause gone void)
	if nl := len(fc.E.loopOrds(fi)); fc.C != nil {
		for k := range fc.C.Loops {
			if k >= nl {
				if fc.changed {
					fc.note(fmt.Sprintf("contract clauses for loop %d dropped: the changed function has %d loops", k, nl))
					continue
				}
				oos("contract names loop %d but the function has %d loops", k, nl)
			}
		}
	}
	flow := fc.execBlock(fi.Body().List, st)
	if fc.C != nil {
		var keys []string
		for k := range fc.C.NamedAsserts {
			keys = append(keys, k)
		}
		sort.Strings(keys)
		for _, k := range keys {
			if !fc.anchored[k] {
				if fc.changed {
					// the function changed and the statement the assert was anchored at is gone: the assert (an
					// obligation of its own) can no longer be stated, hence is not established
					for i, a := range fc.C.NamedAsserts[k] {
						fc.obligeNamed(fc.entry, fmt.Sprintf("assert#%s.%d", strings.Replace(k, ":", "-", 1), i), "assert", "false", "assert "+k+" (its anchor no longer exists): "+a.Src, fi.Body().Lbrace)
					}
					continue
				}
				oos("assert anchor %q not found in the function body (an unanchored assert would be vacuous)", k)
			}
		}
	}
	for _, s := range flow.normal {
		if fc.isDead(s) {
			continue
		}
		if sig.Results().Len() == 0 {
			for i := len(fr.deferred) - 1; i >= 0; i-- {
				fr.deferred[i](s)
			}
			fr.returns = append(fr.returns, &retState{st: s, ord: len(fc.retOrd)})
		} else {
			var vals []Val
			for _, r := range fr.results {
				vals = append(vals, s.vars[r])
			}
			fr.returns = append(fr.returns, &retState{st: s, vals: vals, ord: len(fc.retOrd)})
		}
	}
	// panic exit of a defer-recover function: arbitrary ghost state, handler decides the results
	if fc.recoverLit != nil && len(fc.panicStates) > 0 {
		// the recover handler starts from the state at one of the points where the body may panic (an explicit
		// panic, a failed run-time check, a callee flagged may_panic after an arbitrary part of its effect)
		ps := fc.merge(fc.panicStates)
		if ps == nil {
			ps = fc.entry.clone()
			fc.kill(ps)
		}
		for _, r := range fr.results {
			if r.Name() != "" && r.Name() != "_" {
				s := fc.U.SortOf(r.Type())
				hv := Val{T: fc.U.Fresh("pr_"+r.Name(), s), S: s, GoT: r.Type()}
				ps.vars[r] = hv
				ps.assume(fc.U.WF(hv))
			}
		}
		var lfi *FuncInfo
		for _, cand := range fc.E.funcs {
			if cand.Lit == fc.recoverLit {
				lfi = cand
			}
		}
		if lfi == nil {
			oos("recover handler literal not indexed")
		}
		fc.inRecover = true
		lfr := &frame{fi: lfi, inlined: true}
		fc.frames = append(fc.frames, lfr)
		lflow := fc.execBlock(fc.recoverLit.Body.List, ps)
		fc.frames = fc.frames[:len(fc.frames)-1]
		fc.inRecover = false
		ends := append([]*State{}, lflow.normal...)
		for _, r := range lfr.returns {
			ends = append(ends, r.st)
		}
		for _, s := range ends {
			if fc.isDead(s) {
				continue
			}
			var vals []Val
			for _, r := range fr.results {
				if v, ok := s.vars[r]; ok {
					vals = append(vals, v)
				} else {
					vals = append(vals, fc.zeroVal(r.Type()))
				}
			}
			fr.returns = append(fr.returns, &retState{st: s, vals: vals, ord: len(fc.retOrd) + 1})
		}
		fc.note("defer-recover: the handler runs from the states at the points where the body may panic (explicit panics, failed run-time checks, callees flagged may_panic with their frame arbitrary); callees not flagged may_panic and external calls are assumed not to panic")
	}
	// postconditions at each exit
	rn := resultNames(sig, fc.C)
	for _, r := range fr.returns {
		names := map[string]Val{}
		for i, v := range r.vals {
			if i < len(rn) {
				names[rn[i]] = v
			}
		}
		// value parameters keep their entry values in postconditions
		env := fc.newEnv(r.st, fc.entry, bodyPos)
		for obj, v := range fc.entry.vars {
			if pv, ok := obj.(*types.Var); ok {
				if _, isPtr := pv.Type().(*types.Pointer); !isPtr && fc.isParam(pv) {
					names[pv.Name()] = v
				}
			}
		}
		env.names = names
		for i, en := range fc.C.Ensures {
			t := fc.specBool(en.Expr, env)
			name := fmt.Sprintf("post#%d@exit%d", i, r.ord)
			fc.obligeNamed(r.st, name, "post", t, "ensures "+en.Src, r.pos)
		}
		if fw := fc.C.Flags["forwards"]; fw != "" {
			goal := fmt.Sprintf("(= %s 1)", r.st.ghost["fwd@count"].T)
			for i, v := range r.vals {
				if g, ok := r.st.ghost[fmt.Sprintf("fwd@r%d", i)]; ok && g.S == v.S {
					goal = fmt.Sprintf("(and %s (= %s %s))", goal, v.T, g.T)
				} else {
					goal = "false"
				}
			}
			// ... or the function failed before it reached the call (its last result is a non-nil error and the callee
			// was not called at all)
			if n := len(r.vals); n > 0 && isErrorType(fi.Sig.Results().At(n-1).Type()) {
				goal = fmt.Sprintf("(or %s (and (= %s 0) (not (= %s 0))))", goal, r.st.ghost["fwd@count"].T, r.vals[n-1].T)
			}
			fc.obligeNamed(r.st, fmt.Sprintf("forwards@exit%d", r.ord), "post", goal, "forwards "+fw+": returns exactly the results of its one call of "+fw, r.pos)
		}
		// frame: ghost state not named in `modifies` is unchanged
		for _, g := range fc.ghostNames(r.st) {
			if strings.Contains(g, "@") || fc.modifiesGhost(g) {
				continue
			}
			ev, ok := fc.entry.ghost[g]
			if !ok || ev.T == r.st.ghost[g].T {
				continue
			}
			name := fmt.Sprintf("frame#%s@exit%d", g, r.ord)
			fc.obligeNamed(r.st, name, "frame", fmt.Sprintf("(= %s %s)", r.st.ghost[g].T, ev.T), "ghost "+g+" is not in modifies and must be unchanged", r.pos)
		}
		// canary: the exit is reachable (must not be unsat)
		can := &Obligation{Name: fmt.Sprintf("%s/%s/canary@exit%d", fc.Prop, shortPkg(fi.Key), r.ord), Kind: "canary", Assumes: append([]string(nil), r.st.pc...), Goal: "true", Cover: true, Canary: true, Clause: "exit reachable (non-vacuity)", Func: fi.Key}
		fc.Obls = append(fc.Obls, can)
	}
	_ = reqs
}

// loadAxioms adds the trusted axioms declared in contract files of the function's own module (and the
// shared ones) to every obligation of this function. They are listed in the evidence.
func (fc *FCtx) loadAxioms() {
	mod := moduleOf(fc.FI.Pkg.PkgPath)
	for _, ax := range fc.E.cs.Axioms {
		if ax.Pkg != "" && moduleOf(ax.Pkg) != mod && ax.Pkg != fc.FI.Pkg.PkgPath {
			continue
		}
		pkg := fc.E.pkgs[ax.Pkg]
		if pkg == nil {
			pkg = fc.FI.Pkg
		}
		st := &State{vars: map[types.Object]Val{}, ghost: map[string]Val{}}
		env := &Env{fc: fc, st: st, old: st, pkg: pkg, names: map[string]Val{}, bound: map[string]Val{}}
		fc.frames = []*frame{{fi: fc.FI}}
		t := fc.specBool(ax.Expr, env)
		fc.U.Axiom("contract-file axiom "+ax.Label+": "+ax.Src, t)
	}
}

// lemmaFormula builds the closed formula of a lemma (for an inductive lemma: restricted to k >= 0).
func (fc *FCtx) lemmaFormula(l *Lemma) string {
	pkg := fc.E.pkgs[l.Pkg]
	if pkg == nil {
		pkg = fc.FI.Pkg
	}
	st := &State{vars: map[types.Object]Val{}, ghost: map[string]Val{}}
	env := &Env{fc: fc, st: st, old: st, pkg: pkg, names: map[string]Val{}, bound: map[string]Val{}}
	n := l.Expr
	if l.Induct != "" && n.Op == "forall" {
		// forall ..k.. :: P   becomes   forall ..k.. :: k >= 0 ==> P
		guard := &SNode{Op: "bin", Name: ">=", Args: []*SNode{{Op: "id", Name: l.Induct}, {Op: "num", Name: "0"}}}
		n = &SNode{Op: "forall", Binders: n.Binders, Args: append([]*SNode{{Op: "bin", Name: "==>", Args: []*SNode{guard, n.Args[0]}}}, n.Args[1:]...)}
	}
	return fc.specBool(n, env)
}

// loadLemmas makes the lemmas named in the contract's `uses` clause available as assumptions. They are proved by
// their own obligations (kind "lemma"), which the same check run includes.
func (fc *FCtx) loadLemmas() {
	if fc.C == nil {
		return
	}
	for _, name := range fc.C.Uses {
		var lm *Lemma
		for _, l := range fc.E.cs.Lemmas {
			if l.Name == name {
				lm = l
			}
		}
		if lm == nil {
			oos("uses: unknown lemma %q", name)
		}
		frames := fc.frames
		fc.frames = []*frame{{fi: fc.FI}}
		t := fc.lemmaFormula(lm)
		fc.frames = frames
		fc.U.Axiom("lemma "+lm.Name+" (proved by its own obligations in this run): "+lm.Src, t)
	}
}

func (fc *FCtx) modifiesGhost(g string) bool {
	for _, m := range fc.C.Modifies {
		if m == g || m == "*" {
			return true
		}
	}
	return false
}

func (fc *FCtx) isParam(v *types.Var) bool {
	sig := fc.FI.Sig
	for i := 0; i < sig.Params().Len(); i++ {
		if sig.Params().At(i) == v {
			return true
		}
	}
	return sig.Recv() == v
}

func (fc *FCtx) initGhost(st *State) {
	var mods []string
	for p := range fc.E.pkgs {
		if m := moduleOf(p); m != "" && strings.HasSuffix(p, "/keeper") {
			mods = append(mods, m)
		}
	}
	sort.Strings(mods)
	for _, m := range mods {
		s := fc.U.StoreSort()
		st.ghost["Store_"+m] = Val{T: fc.U.Const("g0_Store_"+m, s), S: s}
	}
	var names []string
	for n := range fc.E.cs.Ghosts {
		names = append(names, n)
	}
	sort.Strings(names)
	for _, n := range names {
		g := fc.E.cs.Ghosts[n]
		pkg := fc.E.pkgs[g.Pkg]
		if pkg == nil {
			pkg = fc.FI.Pkg
		}
		var s *Sort
		var t types.Type
		func() {
			defer func() {
				if r := recover(); r != nil {
					if _, ok := r.(OutOfSubset); ok {
						s = nil
						return
					}
					panic(r)
				}
			}()
			s, t = fc.resolveSpecType(g.Type, pkg)
		}()
		if s == nil {
			continue
		}
		st.ghost[n] = Val{T: fc.U.Const("g0_"+n, s), S: s, GoT: t}
	}
}

// observe registers scalar leaves of a parameter for model extraction (replay).
func (fc *FCtx) observe(path string, v Val, depth int) {
	if depth > 3 {
		return
	}
	switch v.S.Kind {
	case KInt, KBool:
		fc.paramObs = append(fc.paramObs, ObsVar{Name: path, Term: v.T})
	case KData:
		for _, f := range v.S.Fields {
			fv, _ := fieldSel(v, f.Name)
			fc.observe(path+"."+f.Name, fv, depth+1)
		}
	case KOpaque:
		if isBz(v.S) {
			fc.paramObs = append(fc.paramObs, ObsVar{Name: path + ".len", Term: "(bz_len " + v.T + ")"})
			fc.paramObs = append(fc.paramObs, ObsVar{Name: path + ".cap", Term: "(bz_cap " + v.T + ")"})
			for i := 0; i < 4; i++ {
				fc.paramObs = append(fc.paramObs, ObsVar{Name: fmt.Sprintf("%s[%d]", path, i), Term: fmt.Sprintf("(bz_at %s %d)", v.T, i)})
			}
		}
	case KSlice:
		fc.paramObs = append(fc.paramObs, ObsVar{Name: path + ".len", Term: slLen(v)})
		fc.paramObs = append(fc.paramObs, ObsVar{Name: path + ".cap", Term: slCap(v)})
		for i := 0; i < 4; i++ {
			ev := Val{T: fmt.Sprintf("(select %s %d)", slEl(v), i), S: v.S.Elem, GoT: elemType(v.GoT)}
			fc.observe(fmt.Sprintf("%s[%d]", path, i), ev, depth+1)
		}
	}
}

func (fc *FCtx) script(o *Obligation) string {
	full, lite, dropped := fc.scriptVariant(o, false), "", 0
	if !o.Cover {
		lite, dropped = fc.scriptLite(o)
	}
	if dropped > 0 {
		o.Lite = lite
	}
	return full
}

// scriptLite: the obligation without the quantified definitions of recursive spec functions (their one-step
// unfoldings at the applications that occur in the clauses are kept as facts). Dropping assumptions is sound for unsat answers (sat answers of this variant are ignored); it keeps
// e-matching from looping through recursive definitions on obligations that do not need them.
func (fc *FCtx) scriptLite(o *Obligation) (string, int) {
	n := 0
	for i, a := range fc.U.axioms {
		if fc.liteDrops(i, a) {
			n++
		}
	}
	if n == 0 {
		return "", 0
	}
	return fc.scriptVariant(o, true), n
}

func (fc *FCtx) liteDrops(i int, text string) bool {
	src := fc.U.axiomSrc[i]
	if strings.HasPrefix(src, "spec ") {
		name := "spec_" + strings.TrimPrefix(src, "spec ")
		return strings.Count(text, "("+name+" ") > 1
	}
	return false
}

func (fc *FCtx) scriptVariant(o *Obligation, lite bool) string {
	var b strings.Builder
	b.WriteString("(set-option :produce-models true)\n(set-logic ALL)\n")
	for _, d := range fc.U.decls {
		b.WriteString(d)
		b.WriteByte('\n')
	}
	if d := fc.U.strDistinct(); d != "" {
		b.WriteString(d + "\n")
	}
	if e, ok := fc.U.strLits[""]; ok {
		b.WriteString(fmt.Sprintf("(assert (forall ((s Str)) (! (=> (= (str_len s) 0) (= s %s)) :pattern ((str_len s)))))\n", e))
	}
	for i, a := range fc.U.axioms {
		if lite && fc.liteDrops(i, a) {
			continue
		}
		b.WriteString("(assert " + a + ")\n")
	}
	for _, a := range fc.pureFacts {
		b.WriteString("(assert " + a + ")\n")
	}
	for _, a := range o.Assumes {
		if a == "" || a == "true" {
			continue
		}
		b.WriteString("(assert " + a + ")\n")
	}
	if o.Cover {
		b.WriteString("(assert " + o.Goal + ")\n")
	} else {
		b.WriteString("(assert (not " + o.Goal + "))\n")
	}
	b.WriteString("(check-sat)\n")
	if len(o.ObsVars) > 0 && !o.Cover {
		var ts []string
		for _, ov := range o.ObsVars {
			ts = append(ts, ov.Term)
		}
		b.WriteString("(get-value (" + strings.Join(ts, " ") + "))\n")
	}
	return b.String()
}

// loadOverlay: when GOVC_OVERLAY_PATCH names a unified diff, the files it touches are copied from the repo,
// patched in a scratch directory and loaded through packages.Config.Overlay (and `go test -overlay` for
// replays), so a change can be analysed without touching /repo. Used by the thorough tier's must-fail corpus.
func (e *Engine) loadOverlay() error {
	patch := os.Getenv("GOVC_OVERLAY_PATCH")
	if patch == "" || e.overlay != nil {
		return nil
	}
	data, err := os.ReadFile(patch)
	if err != nil {
		return err
	}
	dir, err := os.MkdirTemp(filepath.Join(e.verif, "work"), "overlay-")
	if err != nil {
		return err
	}
	e.overlayDir = dir
	var files []string
	for _, l := range strings.Split(string(data), "\n") {
		if strings.HasPrefix(l, "+++ b/") {
			f := strings.TrimPrefix(l, "+++ b/")
			if k := strings.IndexByte(f, '\t'); k >= 0 {
				f = f[:k]
			}
			files = append(files, strings.TrimSpace(f))
		}
	}
	for _, f := range files {
		src, err := os.ReadFile(filepath.Join(e.repo, f))
		if err != nil {
			return err
		}
		dst := filepath.Join(dir, f)
		os.MkdirAll(filepath.Dir(dst), 0o755)
		os.WriteFile(dst, src, 0o644)
	}
	cmd := exec.Command("patch", "-p1", "-s", "--fuzz=3", "-d", dir, "-i", patch)
	if out, err := cmd.CombinedOutput(); err != nil {
		return fmt.Errorf("overlay patch does not apply: %s", firstLines(string(out), 3))
	}
	e.overlay = map[string][]byte{}
	for _, f := range files {
		b, err := os.ReadFile(filepath.Join(dir, f))
		if err != nil {
			return err
		}
		e.overlay[filepath.Join(e.repo, f)] = b
	}
	return nil
}

func bigLitStr(x string) string {
	if strings.HasPrefix(x, "-") {
		return "(- " + x[1:] + ")"
	}
	return x
}

// assignedSomewhere: is the package-level variable the target of an assignment, ++/--, or address-of in any loaded
// package of the module?
func (e *Engine) assignedSomewhere(o *types.Var) bool {
	found := false
	for _, p := range e.pkgs {
		if p.TypesInfo == nil {
			continue
		}
		uses := func(x ast.Expr) bool {
			switch t := unparen(x).(type) {
			case *ast.Ident:
				return p.TypesInfo.Uses[t] == o
			case *ast.SelectorExpr:
				return p.TypesInfo.Uses[t.Sel] == o
			}
			return false
		}
		for _, f := range p.Syntax {
			ast.Inspect(f, func(n ast.Node) bool {
				switch t := n.(type) {
				case *ast.AssignStmt:
					for _, l := range t.Lhs {
						if uses(l) {
							found = true
						}
					}
				case *ast.IncDecStmt:
					if uses(t.X) {
						found = true
					}
				case *ast.UnaryExpr:
					if t.Op == token.AND && uses(t.X) {
						found = true
					}
				}
				return !found
			})
		}
	}
	return found
}

// varInit finds the initialiser expression of a package-level variable of a loaded package.
func (e *Engine) varInit(o *types.Var) (*packages.Package, ast.Expr) {
	for _, pkg := range e.pkgs {
		if pkg.Types != o.Pkg() {
			continue
		}
		for _, f := range pkg.Syntax {
			for _, d := range f.Decls {
				gd, ok := d.(*ast.GenDecl)
				if !ok || gd.Tok != token.VAR {
					continue
				}
				for _, sp := range gd.Specs {
					vs := sp.(*ast.ValueSpec)
					for i, nm := range vs.Names {
						if pkg.TypesInfo.Defs[nm] == o && len(vs.Values) == len(vs.Names) {
							return pkg, vs.Values[i]
						}
					}
				}
			}
		}
	}
	return nil, nil
}

// funcLocals: the local variables a function declares (parameters and results excluded), in source order, as
// "name|type" with the objects alongside.
func (e *Engine) funcLocals(fi *FuncInfo) (names []string, objs []types.Object) {
	body := fi.Body()
	if body == nil {
		return
	}
	info := fi.Pkg.TypesInfo
	ast.Inspect(body, func(n ast.Node) bool {
		id, ok := n.(*ast.Ident)
		if !ok || id.Name == "_" {
			return true
		}
		if v, ok := info.Defs[id].(*types.Var); ok && !v.IsField() {
			names = append(names, id.Name+"|"+typeString(v.Type()))
			objs = append(objs, v)
		}
		return true
	})
	return
}
