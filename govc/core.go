package main

import (
	"fmt"
	"go/types"
	"math/big"
	"os"
	"runtime/debug"
	"sort"
	"strings"
)

// ---------------------------------------------------------------------------------------------
// Sorts and values
// ---------------------------------------------------------------------------------------------

type SortKind int

const (
	KInt SortKind = iota
	KBool
	KStr
	KData   // struct
	KSlice  // slices and fixed arrays: (len, cap, elems)
	KMap    // (dom, val)
	KOpaque // uninterpreted
	KFloat  // float64 (only in fp mode)
	KTuple  // multi-value results (never emitted as a sort)
)

type Field struct {
	Name string
	S    *Sort
	GoT  types.Type
}

type Sort struct {
	Kind   SortKind
	Name   string // SMT sort name
	Elem   *Sort
	Key    *Sort
	Fields []Field
	Tuple  []*Sort
}

func (s *Sort) String() string { return s.Name }

var (
	SInt   = &Sort{Kind: KInt, Name: "Int"}
	SBool  = &Sort{Kind: KBool, Name: "Bool"}
	SStr   = &Sort{Kind: KStr, Name: "Str"}
	SFloat = &Sort{Kind: KFloat, Name: "Float64"}
)

// Val is a symbolic value: an SMT term of a sort, remembering the Go type it came from.
type Val struct {
	T   string
	S   *Sort
	GoT types.Type
}

func (v Val) IsZero() bool { return v.S == nil }

// OutOfSubset is panicked by the generator for constructs outside the stated subset.
type OutOfSubset struct{ What string }

func oos(format string, a ...interface{}) {
	if os.Getenv("GOVC_DEBUG") != "" {
		fmt.Fprintf(os.Stderr, "OOS: %s\n%s\n", fmt.Sprintf(format, a...), debug.Stack())
	}
	panic(OutOfSubset{fmt.Sprintf(format, a...)})
}

// ---------------------------------------------------------------------------------------------
// Declaration universe (one per function under contract)
// ---------------------------------------------------------------------------------------------

type Universe struct {
	shallow    bool // WFShallow in progress
	decls      []string
	declared   map[string]bool
	sorts      map[string]*Sort // by SMT name
	byType     map[string]*Sort // by Go type string
	fresh      int
	errCodes   map[string]int
	strLits    map[string]string
	axioms     []string // global axioms (assumed in every obligation), with provenance
	axiomSrc   []string
	wfDone     map[string]bool
	inProgress map[string]bool
}

func NewUniverse() *Universe {
	u := &Universe{declared: map[string]bool{}, sorts: map[string]*Sort{}, byType: map[string]*Sort{},
		errCodes: map[string]int{}, strLits: map[string]string{}, wfDone: map[string]bool{}}
	u.decl("Str", "(declare-sort Str 0)")
	u.decl("str_len", "(declare-fun str_len (Str) Int)")
	u.decl("str_len_ax", "(assert (forall ((s Str)) (! (and (>= (str_len s) 0) (<= (str_len s) 9223372036854775807)) :pattern ((str_len s)))))")
	u.decl("tdiv", "(define-fun tdiv ((a Int) (b Int)) Int (ite (>= a 0) (ite (> b 0) (div a b) (- (div a (- b)))) (ite (> b 0) (- (div (- a) b)) (div (- a) (- b)))))")
	u.decl("tmod", "(define-fun tmod ((a Int) (b Int)) Int (- a (* b (tdiv a b))))")
	u.decl("iabs", "(define-fun iabs ((a Int)) Int (ite (>= a 0) a (- a)))")
	u.decl("imax", "(define-fun imax ((a Int) (b Int)) Int (ite (>= a b) a b))")
	u.decl("imin", "(define-fun imin ((a Int) (b Int)) Int (ite (<= a b) a b))")
	{
		// pow2(k) for 0 <= k <= 64 (1 otherwise; uses are guarded by a range obligation)
		t := "1"
		for k := 64; k >= 1; k-- {
			t = fmt.Sprintf("(ite (= k %d) %s %s)", k, new(big.Int).Lsh(big.NewInt(1), uint(k)).String(), t)
		}
		u.decl("pow2", "(define-fun pow2 ((k Int)) Int "+t+")")
	}
	for _, w := range []struct {
		n      string
		lo, hi string
	}{{"int8", "-128", "127"}, {"int16", "-32768", "32767"}, {"int32", "-2147483648", "2147483647"},
		{"int64", "-9223372036854775808", "9223372036854775807"},
		{"uint8", "0", "255"}, {"uint16", "0", "65535"}, {"uint32", "0", "4294967295"}, {"uint64", "0", "18446744073709551615"}} {
		// wrap_T(e) = ((e - lo) mod 2^n) + lo
		u.decl("wrap_"+w.n, fmt.Sprintf("(define-fun wrap_%s ((e Int)) Int (+ (mod (- e %s) (+ (- %s %s) 1)) %s))", w.n, smtInt(w.lo), smtInt(w.hi), smtInt(w.lo), smtInt(w.lo)))
		u.decl("in_"+w.n, fmt.Sprintf("(define-fun in_%s ((e Int)) Bool (and (<= %s e) (<= e %s)))", w.n, smtInt(w.lo), smtInt(w.hi)))
	}
	return u
}

func smtInt(s string) string {
	if strings.HasPrefix(s, "-") {
		return "(- " + s[1:] + ")"
	}
	return s
}

func (u *Universe) decl(name, text string) {
	if u.declared[name] {
		return
	}
	u.declared[name] = true
	u.decls = append(u.decls, text)
}

func (u *Universe) Fresh(prefix string, s *Sort) string {
	u.fresh++
	n := fmt.Sprintf("%s!%d", sanitize(prefix), u.fresh)
	u.decls = append(u.decls, fmt.Sprintf("(declare-const %s %s)", n, s.Name))
	return n
}

// Const declares a named constant once.
func (u *Universe) Const(name string, s *Sort) string {
	u.decl("c:"+name, fmt.Sprintf("(declare-const %s %s)", name, s.Name))
	return name
}

func (u *Universe) Fun(name string, args []*Sort, res *Sort) {
	var as []string
	for _, a := range args {
		as = append(as, a.Name)
	}
	u.decl("f:"+name, fmt.Sprintf("(declare-fun %s (%s) %s)", name, strings.Join(as, " "), res.Name))
}

func (u *Universe) Axiom(src, text string) {
	for _, a := range u.axioms {
		if a == text {
			return
		}
	}
	u.axioms = append(u.axioms, text)
	u.axiomSrc = append(u.axiomSrc, src)
}

func sanitize(s string) string {
	var b strings.Builder
	for _, r := range s {
		switch {
		case r >= 'a' && r <= 'z', r >= 'A' && r <= 'Z', r >= '0' && r <= '9', r == '_':
			b.WriteRune(r)
		default:
			b.WriteByte('_')
		}
	}
	return b.String()
}

func (u *Universe) StrLit(s string) string {
	if n, ok := u.strLits[s]; ok {
		return n
	}
	n := fmt.Sprintf("strlit_%d", len(u.strLits))
	u.strLits[s] = n
	u.decls = append(u.decls, fmt.Sprintf("(declare-const %s Str)", n))
	u.decls = append(u.decls, fmt.Sprintf("(assert (= (str_len %s) %d))", n, len(s)))
	return n
}

// strLitContent: the Go string a literal constant stands for.
func (u *Universe) strLitContent(name string) (string, bool) {
	if !strings.HasPrefix(name, "strlit_") {
		return "", false
	}
	for s, n := range u.strLits {
		if n == name {
			return s, true
		}
	}
	return "", false
}

// strDistinct returns an assertion that all string literals are pairwise distinct.
func (u *Universe) strDistinct() string {
	if len(u.strLits) < 2 {
		return ""
	}
	var ns []string
	for _, n := range u.strLits {
		ns = append(ns, n)
	}
	sort.Strings(ns)
	return "(assert (distinct " + strings.Join(ns, " ") + "))"
}

func (u *Universe) ErrCode(name string) int {
	if c, ok := u.errCodes[name]; ok {
		return c
	}
	c := len(u.errCodes) + 1
	u.errCodes[name] = c
	return c
}

// ---------------------------------------------------------------------------------------------
// Go type -> sort
// ---------------------------------------------------------------------------------------------

func typeString(t types.Type) string {
	return types.TypeString(t, func(p *types.Package) string { return p.Path() })
}

func isBigIntLike(t types.Type) bool {
	s := typeString(t)
	switch s {
	case "cosmossdk.io/math.Int", "cosmossdk.io/math.LegacyDec", "cosmossdk.io/math.Uint", "*math/big.Int", "math/big.Int":
		return true
	}
	return false
}

func isTime(t types.Type) bool     { return typeString(t) == "time.Time" }
func isDuration(t types.Type) bool { return typeString(t) == "time.Duration" }

var opaqueNamed = map[string]string{
	"github.com/cosmos/cosmos-sdk/types.AccAddress": "Addr",
	"github.com/cosmos/cosmos-sdk/types.ValAddress": "Addr",
	"github.com/cosmos/cosmos-sdk/types.Context":    "Ctx",
}

func isErrorType(t types.Type) bool {
	if n, ok := t.(*types.Named); ok && n.Obj().Pkg() == nil && n.Obj().Name() == "error" {
		return true
	}
	return false
}

func (u *Universe) SortOf(t types.Type) *Sort {
	key := typeString(t)
	if s, ok := u.byType[key]; ok {
		return s
	}
	s := u.sortOf(t, key)
	u.byType[key] = s
	return s
}

func (u *Universe) opaque(name string) *Sort {
	if s, ok := u.sorts[name]; ok {
		return s
	}
	s := &Sort{Kind: KOpaque, Name: name}
	u.sorts[name] = s
	u.decl("sort:"+name, fmt.Sprintf("(declare-sort %s 0)", name))
	return s
}

func (u *Universe) sortOf(t types.Type, key string) *Sort {
	if isErrorType(t) {
		return SInt
	}
	if isBigIntLike(t) || isTime(t) {
		return SInt
	}
	if key == "*cosmossdk.io/errors.Error" || key == "cosmossdk.io/errors.Error" {
		return SInt
	}
	if n, ok := opaqueNamed[key]; ok {
		return u.opaque(n)
	}
	switch tt := t.(type) {
	case *types.Alias:
		return u.SortOf(types.Unalias(tt))
	case *types.Basic:
		switch {
		case tt.Info()&types.IsInteger != 0:
			return SInt
		case tt.Info()&types.IsBoolean != 0:
			return SBool
		case tt.Info()&types.IsString != 0:
			return SStr
		case tt.Info()&types.IsFloat != 0:
			return u.opaque("F64")
		case tt.Kind() == types.UntypedNil:
			return SInt
		}
	case *types.Pointer:
		return u.SortOf(tt.Elem())
	case *types.Named:
		under := tt.Underlying()
		switch ut := under.(type) {
		case *types.Struct:
			name := "S_" + sanitize(tt.Obj().Name())
			if tt.Obj().Pkg() != nil {
				name = "S_" + sanitize(shortPkg(tt.Obj().Pkg().Path())) + "_" + sanitize(tt.Obj().Name())
			}
			if tt.TypeArgs() != nil && tt.TypeArgs().Len() > 0 {
				name += "_" + sanitize(shortPkg(typeString(tt)))
				if len(name) > 120 {
					name = name[:120]
				}
			}
			return u.structSort(name, ut)
		case *types.Interface:
			return u.opaque("I_" + sanitize(tt.Obj().Name()))
		default:
			return u.SortOf(under)
		}
	case *types.Struct:
		return u.structSort(fmt.Sprintf("S_anon%d", len(u.sorts)), tt)
	case *types.Slice:
		if b, ok := tt.Elem().Underlying().(*types.Basic); ok && b.Kind() == types.Uint8 {
			return u.BzSort()
		}
		return u.sliceSort(u.SortOf(tt.Elem()))
	case *types.Array:
		return u.sliceSort(u.SortOf(tt.Elem()))
	case *types.Map:
		return u.mapSort(u.SortOf(tt.Key()), u.SortOf(tt.Elem()))
	case *types.Interface:
		return u.opaque("I_any")
	case *types.Signature:
		return u.opaque("Func")
	case *types.Chan:
		return u.opaque("Chan")
	case *types.Tuple:
		s := &Sort{Kind: KTuple, Name: "TUPLE"}
		for i := 0; i < tt.Len(); i++ {
			s.Tuple = append(s.Tuple, u.SortOf(tt.At(i).Type()))
		}
		return s
	case *types.TypeParam:
		return u.opaque("TP_" + sanitize(tt.Obj().Name()))
	}
	oos("unsupported type %s", key)
	return nil
}

func shortPkg(path string) string {
	path = strings.TrimPrefix(path, "github.com/bandprotocol/chain/v3/")
	return path
}

func (u *Universe) structSort(name string, st *types.Struct) *Sort {
	if u.inProgress[name] {
		oos("recursive type %s", name)
	}
	if s, ok := u.sorts[name]; ok {
		return s
	}
	s := &Sort{Kind: KData, Name: name}
	u.sorts[name] = s
	if u.inProgress == nil {
		u.inProgress = map[string]bool{}
	}
	u.inProgress[name] = true
	defer delete(u.inProgress, name)
	var fs []string
	for i := 0; i < st.NumFields(); i++ {
		f := st.Field(i)
		var fsort *Sort
		func() {
			defer func() {
				if r := recover(); r != nil {
					if _, ok := r.(OutOfSubset); ok {
						fsort = u.opaque("Opq_" + sanitize(typeString(f.Type())))
						return
					}
					panic(r)
				}
			}()
			fsort = u.SortOf(f.Type())
		}()
		if fsort.Kind == KFloat {
			fsort = u.opaque("Opq_float")
		}
		fname := f.Name()
		if fname == "_" {
			fname = fmt.Sprintf("blank%d", i)
		}
		s.Fields = append(s.Fields, Field{Name: fname, S: fsort, GoT: f.Type()})
		fs = append(fs, fmt.Sprintf("(%s_%s %s)", name, sanitize(fname), fsort.Name))
	}
	if len(fs) == 0 {
		u.decl("sort:"+name, fmt.Sprintf("(declare-datatypes ((%s 0)) (((mk_%s))))", name, name))
	} else {
		u.decl("sort:"+name, fmt.Sprintf("(declare-datatypes ((%s 0)) (((mk_%s %s))))", name, name, strings.Join(fs, " ")))
	}
	return s
}

func (u *Universe) sliceSort(elem *Sort) *Sort {
	if elem.Kind == KFloat {
		elem = u.opaque("Opq_float")
	}
	name := "Sl_" + sanitize(elem.Name)
	if s, ok := u.sorts[name]; ok {
		return s
	}
	s := &Sort{Kind: KSlice, Name: name, Elem: elem}
	u.sorts[name] = s
	u.decl("sort:"+name, fmt.Sprintf("(declare-datatypes ((%s 0)) (((mk_%s (len_%s Int) (cap_%s Int) (el_%s (Array Int %s))))))", name, name, name, name, name, elem.Name))
	return s
}

func (u *Universe) mapSort(k, v *Sort) *Sort {
	name := "Mp_" + sanitize(k.Name) + "_" + sanitize(v.Name)
	if s, ok := u.sorts[name]; ok {
		return s
	}
	s := &Sort{Kind: KMap, Name: name, Key: k, Elem: v}
	u.sorts[name] = s
	u.decl("sort:"+name, fmt.Sprintf("(declare-datatypes ((%s 0)) (((mk_%s (dom_%s (Array %s Bool)) (val_%s (Array %s %s))))))", name, name, name, k.Name, name, k.Name, v.Name))
	return s
}

// ---------------------------------------------------------------------------------------------
// Term helpers
// ---------------------------------------------------------------------------------------------

func and(ts ...string) string {
	var xs []string
	for _, t := range ts {
		if t == "" || t == "true" {
			continue
		}
		if t == "false" {
			return "false"
		}
		xs = append(xs, t)
	}
	switch len(xs) {
	case 0:
		return "true"
	case 1:
		return xs[0]
	}
	return "(and " + strings.Join(xs, " ") + ")"
}

func or(ts ...string) string {
	var xs []string
	for _, t := range ts {
		if t == "" || t == "false" {
			continue
		}
		if t == "true" {
			return "true"
		}
		xs = append(xs, t)
	}
	switch len(xs) {
	case 0:
		return "false"
	case 1:
		return xs[0]
	}
	return "(or " + strings.Join(xs, " ") + ")"
}

func not(t string) string {
	switch t {
	case "true":
		return "false"
	case "false":
		return "true"
	}
	if strings.HasPrefix(t, "(not ") && balancedTail(t[5:len(t)-1]) {
		return t[5 : len(t)-1]
	}
	return "(not " + t + ")"
}

func balancedTail(s string) bool {
	d := 0
	for i, c := range s {
		if c == '(' {
			d++
		} else if c == ')' {
			d--
			if d < 0 {
				return false
			}
			if d == 0 && i != len(s)-1 {
				return false
			}
		} else if d == 0 && c == ' ' {
			return false
		}
	}
	return d == 0
}

func implies(a, b string) string {
	if a == "true" {
		return b
	}
	if b == "true" {
		return "true"
	}
	return "(=> " + a + " " + b + ")"
}

func ite(c, a, b string) string {
	if c == "true" {
		return a
	}
	if c == "false" {
		return b
	}
	if a == b {
		return a
	}
	return "(ite " + c + " " + a + " " + b + ")"
}

func app(f string, args ...string) string {
	if len(args) == 0 {
		return f
	}
	return "(" + f + " " + strings.Join(args, " ") + ")"
}

func intLit(n int64) string {
	if n < 0 {
		return fmt.Sprintf("(- %d)", -n)
	}
	return fmt.Sprintf("%d", n)
}

// slice helpers
func slLen(v Val) string { return app("len_"+v.S.Name, v.T) }
func slCap(v Val) string { return app("cap_"+v.S.Name, v.T) }
func slEl(v Val) string  { return app("el_"+v.S.Name, v.T) }
func mkSlice(s *Sort, ln, cp, el string) string {
	return app("mk_"+s.Name, ln, cp, el)
}
func mpDom(v Val) string { return app("dom_"+v.S.Name, v.T) }
func mpVal(v Val) string { return app("val_"+v.S.Name, v.T) }

func fieldSel(v Val, name string) (Val, bool) {
	for _, f := range v.S.Fields {
		if f.Name == name {
			return Val{T: app(v.S.Name+"_"+sanitize(name), v.T), S: f.S, GoT: f.GoT}, true
		}
	}
	return Val{}, false
}

func fieldUpdate(v Val, name string, nv string) string {
	var args []string
	for _, f := range v.S.Fields {
		if f.Name == name {
			args = append(args, nv)
		} else {
			args = append(args, app(v.S.Name+"_"+sanitize(f.Name), v.T))
		}
	}
	return app("mk_"+v.S.Name, args...)
}

// intRange returns the in-range predicate for a Go integer type applied to term, or "".
func intRange(t types.Type, term string) string {
	if t == nil {
		return ""
	}
	if isBigIntLike(t) || isTime(t) || isErrorType(t) {
		return ""
	}
	b, ok := t.Underlying().(*types.Basic)
	if !ok {
		return ""
	}
	n := basicIntName(b)
	if n == "" {
		return ""
	}
	return app("in_"+n, term)
}

func basicIntName(b *types.Basic) string {
	switch b.Kind() {
	case types.Int, types.Int64:
		return "int64"
	case types.Int32:
		return "int32"
	case types.Int16:
		return "int16"
	case types.Int8:
		return "int8"
	case types.Uint, types.Uint64, types.Uintptr:
		return "uint64"
	case types.Uint32:
		return "uint32"
	case types.Uint16:
		return "uint16"
	case types.Uint8:
		return "uint8"
	}
	return ""
}

// WF returns the well-typedness predicate (ranges, 0<=len<=cap, nested) for a value of Go type t.
func (u *Universe) WF(v Val) string {
	return u.wf(v, 0)
}

// WFShallow: the type invariant without nested quantifiers (for a slice: length/capacity bounds only, not the
// ranges of its elements). Used as the guard of spec-level binders, so that a quantified lemma can be instantiated
// without first having to prove a universally quantified hypothesis about the instance. Dropping part of a guard
// only makes the quantified statement stronger - and it is proved in that stronger form. (The ranges of scalar
// elements are kept: lemmas about sums of unsigned weights need them.)
func (u *Universe) WFShallow(v Val) string {
	u.shallow = true
	defer func() { u.shallow = false }()
	return u.wf(v, 0)
}

func (u *Universe) wf(v Val, depth int) string {
	if v.S == nil || depth > 6 {
		return "true"
	}
	switch v.S.Kind {
	case KInt:
		if r := intRange(v.GoT, v.T); r != "" {
			return r
		}
		if v.GoT != nil && isErrorType(v.GoT) {
			return "(>= " + v.T + " 0)"
		}
		return "true"
	case KData:
		var cs []string
		var st *types.Struct
		if v.GoT != nil {
			t := v.GoT
			if p, ok := t.Underlying().(*types.Pointer); ok {
				t = p.Elem()
			}
			st, _ = t.Underlying().(*types.Struct)
		}
		for i, f := range v.S.Fields {
			ft := f.GoT
			if st != nil && i < st.NumFields() {
				ft = st.Field(i).Type()
			}
			fv := Val{T: app(v.S.Name+"_"+sanitize(f.Name), v.T), S: f.S, GoT: ft}
			cs = append(cs, u.wf(fv, depth+1))
		}
		return and(cs...)
	case KSlice:
		var et types.Type
		fixed := int64(-1)
		if v.GoT != nil {
			t := v.GoT
			if p, ok := t.Underlying().(*types.Pointer); ok {
				t = p.Elem()
			}
			switch tt := t.Underlying().(type) {
			case *types.Slice:
				et = tt.Elem()
			case *types.Array:
				et = tt.Elem()
				fixed = tt.Len()
			}
		}
		cs := []string{fmt.Sprintf("(<= 0 %s)", slLen(v)), fmt.Sprintf("(<= %s %s)", slLen(v), slCap(v)), fmt.Sprintf("(<= %s 9223372036854775807)", slCap(v))}
		if fixed >= 0 {
			cs = append(cs, fmt.Sprintf("(= %s %d)", slLen(v), fixed))
		}
		u.fresh++
		iv := fmt.Sprintf("wi%d", u.fresh)
		ev := Val{T: fmt.Sprintf("(select %s %s)", slEl(v), iv), S: v.S.Elem, GoT: et}
		ew := u.wf(ev, depth+1)
		if ew != "true" && (!u.shallow || (v.S.Elem != nil && v.S.Elem.Kind == KInt)) {
			cs = append(cs, fmt.Sprintf("(forall ((%s Int)) (! (=> (and (<= 0 %s) (< %s %s)) %s) :pattern ((select %s %s))))", iv, iv, iv, slLen(v), ew, slEl(v), iv))
		}
		return and(cs...)
	}
	return "true"
}
