package main

import (
	"go/ast"
	"go/types"
	"strings"
)

// groundStakingHooks (C16 / C07): the restake lock is enforced against delegation changes only through the staking
// module's hooks; the application must register the restake keeper's hooks with the staking keeper
// (app/keepers: StakingKeeper.SetHooks(NewMultiStakingHooks(..., RestakeKeeper.Hooks(), ...))).
func groundStakingHooks(e *Engine, prop string) []*Obligation {
	clause := "the staking keeper's hooks include the restake keeper's hooks (app/keepers)"
	kp := e.pkgs[modPath+"/app/keepers"]
	if kp == nil {
		return []*Obligation{groundObl(prop, "staking-hooks", clause, false, "package app/keepers must be loaded")}
	}
	found, has := false, false
	for _, f := range kp.Syntax {
		ast.Inspect(f, func(n ast.Node) bool {
			c, ok := n.(*ast.CallExpr)
			if !ok {
				return true
			}
			sel, ok := c.Fun.(*ast.SelectorExpr)
			if !ok || sel.Sel.Name != "NewMultiStakingHooks" {
				return true
			}
			found = true
			for _, a := range c.Args {
				if t := kp.TypesInfo.TypeOf(a); t != nil {
					if named, ok := t.(*types.Named); ok && named.Obj().Pkg() != nil && strings.HasSuffix(named.Obj().Pkg().Path(), "/x/restake/keeper") && named.Obj().Name() == "Hooks" {
						has = true
					}
				}
			}
			return true
		})
	}
	detail := "no restake Hooks value among the arguments of NewMultiStakingHooks"
	if !found {
		detail = "NewMultiStakingHooks(...) call not found in app/keepers"
	}
	return []*Obligation{groundObl(prop, "staking-hooks", clause, found && has, detail)}
}

func init() { groundChecks["staking-hooks"] = groundStakingHooks }
