package main

import (
	"bytes"
	"encoding/json"
	"fmt"
	"go/types"
	"math/big"
	"math/rand"
	"os"
	"os/exec"
	"path/filepath"
	"regexp"
	"sort"
	"strconv"
	"strings"
	"time"
)

type replayCase struct {
	ID      int
	Inputs  []*CV // receiver first (if any), then params
	Source  string
	Panic   string
	Outputs []*CV
	Post    []*CV // post-state of pointer inputs (parallel to Inputs; nil if not pointer)
	Ran     bool
}

type replayOutcome struct {
	Available  bool
	Reason     string
	Cases      []*replayCase
	Failing    *replayCase
	FailWhat   string
	Ran        int
	Transcript string
	TestSrc    string
}

var replayCache = map[string]*replayOutcome{}

const replayPrelude = `
func gvBig(s string) *big.Int { b, _ := new(big.Int).SetString(s, 10); return b }
func gvBigInt(s string) sdkmath.Int { return sdkmath.NewIntFromBigInt(gvBig(s)) }
func gvBigUint(s string) sdkmath.Uint { return sdkmath.NewUintFromBigInt(gvBig(s)) }
func gvTime(s string) time.Time {
	b := gvBig(s)
	sec, ns := new(big.Int).DivMod(b, big.NewInt(1000000000), new(big.Int))
	return time.Unix(sec.Int64(), ns.Int64()).UTC()
}
func gvPtr[T any](v T) *T { return &v }
func gvDump(v reflect.Value) interface{} {
	if !v.IsValid() { return nil }
	if v.CanInterface() {
		switch x := v.Interface().(type) {
		case sdkmath.Int:
			if x.IsNil() { return "0" }
			return x.String()
		case sdkmath.Uint:
			return x.String()
		case *big.Int:
			if x == nil { return "0" }
			return x.String()
		case time.Time:
			b := new(big.Int).Mul(big.NewInt(x.Unix()), big.NewInt(1000000000))
			b.Add(b, big.NewInt(int64(x.Nanosecond())))
			return b.String()
		case error:
			if x == nil { return nil }
			return x.Error()
		}
	}
	switch v.Kind() {
	case reflect.Int, reflect.Int8, reflect.Int16, reflect.Int32, reflect.Int64:
		return fmt.Sprint(v.Int())
	case reflect.Uint, reflect.Uint8, reflect.Uint16, reflect.Uint32, reflect.Uint64, reflect.Uintptr:
		return fmt.Sprint(v.Uint())
	case reflect.Bool:
		return v.Bool()
	case reflect.String:
		return v.String()
	case reflect.Ptr, reflect.Interface:
		if v.IsNil() { return nil }
		return gvDump(v.Elem())
	case reflect.Struct:
		m := map[string]interface{}{}
		for i := 0; i < v.NumField(); i++ {
			m[v.Type().Field(i).Name] = gvDump(v.Field(i))
		}
		return m
	case reflect.Slice, reflect.Array:
		el := []interface{}{}
		for i := 0; i < v.Len(); i++ { el = append(el, gvDump(v.Index(i))) }
		c := v.Len()
		if v.Kind() == reflect.Slice { c = v.Cap() }
		return map[string]interface{}{"cap": c, "el": el}
	}
	return nil
}
func gvD(x interface{}) interface{} { return gvDump(reflect.ValueOf(x)) }
func gvRun(id int, f func() []interface{}) {
	defer func() {
		if r := recover(); r != nil {
			fmt.Printf("GOVC-CASE %d PANIC %q\n", id, fmt.Sprint(r))
		}
	}()
	outs := f()
	b, err := json.Marshal(outs)
	if err != nil { fmt.Printf("GOVC-CASE %d ERR %q\n", id, err.Error()); return }
	fmt.Printf("GOVC-CASE %d OK %s\n", id, b)
}
`

// inputVars: receiver (if any) then params.
func inputVars(fi *FuncInfo) []*types.Var {
	var vs []*types.Var
	if fi.Lit == nil && fi.Sig.Recv() != nil {
		vs = append(vs, fi.Sig.Recv())
	}
	for i := 0; i < fi.Sig.Params().Len(); i++ {
		vs = append(vs, fi.Sig.Params().At(i))
	}
	return vs
}

func (e *Engine) runReplay(fi *FuncInfo, c *FuncContract, modelCases [][]*CV, seed int64, nRandom int) *replayOutcome {
	out := &replayOutcome{}
	if fi.Lit != nil {
		out.Reason = "function literal"
		return out
	}
	if fi.Sig.Variadic() {
		out.Reason = "variadic"
		return out
	}
	ins := inputVars(fi)
	r := rand.New(rand.NewSource(seed))
	gen := func() (cs []*CV, err string) {
		defer func() {
			if x := recover(); x != nil {
				if g, ok := x.(genError); ok {
					err = g.what
					return
				}
				panic(x)
			}
		}()
		for i, v := range ins {
			if i == 0 && fi.Sig.Recv() != nil && c != nil && zeroReceiver(c) {
				cs = append(cs, &CV{K: "zero"})
				continue
			}
			cs = append(cs, genValue(v.Type(), r, 0))
		}
		return cs, ""
	}
	if _, err := gen(); err != "" {
		out.Reason = "inputs not constructible: " + err
		return out
	}
	var cases []*replayCase
	for _, mc := range modelCases {
		cases = append(cases, &replayCase{Inputs: mc, Source: "solver-model"})
	}
	for i := 0; i < nRandom; i++ {
		cs, _ := gen()
		cases = append(cases, &replayCase{Inputs: cs, Source: "finitised-search"})
	}
	// filter by requires
	var kept []*replayCase
	for _, rc := range cases {
		if e.requiresHold(fi, c, rc) {
			rc.ID = len(kept)
			kept = append(kept, rc)
		}
	}
	if len(kept) == 0 {
		out.Reason = "no candidate input satisfies the preconditions"
		return out
	}
	// generate the test
	lc := &litCtx{pkg: fi.Pkg.Types, imports: map[string]string{}}
	var body strings.Builder
	rn := fi.Sig.Results().Len()
	for _, rc := range kept {
		var lits []string
		ok := true
		func() {
			defer func() {
				if x := recover(); x != nil {
					if _, is := x.(genError); is {
						ok = false
						return
					}
					panic(x)
				}
			}()
			for i, v := range ins {
				lits = append(lits, lc.goLit(rc.Inputs[i], v.Type()))
			}
		}()
		if !ok {
			out.Reason = "cannot print inputs as Go literals"
			return out
		}
		fmt.Fprintf(&body, "\tgvRun(%d, func() []interface{} {\n", rc.ID)
		var argNames []string
		for i := range ins {
			fmt.Fprintf(&body, "\t\ta%d := %s\n", i, lits[i])
			argNames = append(argNames, fmt.Sprintf("a%d", i))
		}
		call := ""
		if fi.Sig.Recv() != nil {
			call = fmt.Sprintf("a0.%s(%s)", fi.Decl.Name.Name, strings.Join(argNames[1:], ", "))
		} else {
			call = fmt.Sprintf("%s(%s)", fi.Decl.Name.Name, strings.Join(argNames, ", "))
		}
		var rs []string
		for i := 0; i < rn; i++ {
			rs = append(rs, fmt.Sprintf("r%d", i))
		}
		if rn > 0 {
			fmt.Fprintf(&body, "\t\t%s := %s\n", strings.Join(rs, ", "), call)
		} else {
			fmt.Fprintf(&body, "\t\t%s\n", call)
		}
		var dumps []string
		for _, x := range rs {
			dumps = append(dumps, "gvD("+x+")")
		}
		for _, a := range argNames {
			dumps = append(dumps, "gvD("+a+")")
		}
		fmt.Fprintf(&body, "\t\treturn []interface{}{%s}\n\t})\n", strings.Join(dumps, ", "))
	}
	var src strings.Builder
	fmt.Fprintf(&src, "package %s\n\nimport (\n\t\"encoding/json\"\n\t\"fmt\"\n\t\"math/big\"\n\t\"reflect\"\n\t\"testing\"\n\t\"time\"\n\tsdkmath \"cosmossdk.io/math\"\n", fi.Pkg.Types.Name())
	var ips []string
	for p := range lc.imports {
		ips = append(ips, p)
	}
	sort.Strings(ips)
	for _, p := range ips {
		fmt.Fprintf(&src, "\t%s %q\n", lc.imports[p], p)
	}
	src.WriteString(")\n")
	src.WriteString(replayPrelude)
	src.WriteString("\nfunc TestGovcReplayZZ(t *testing.T) {\n")
	src.WriteString(body.String())
	src.WriteString("}\n")
	out.TestSrc = src.String()

	dir, err := os.MkdirTemp(filepath.Join(e.verif, "work"), "replay-")
	if err != nil {
		out.Reason = err.Error()
		return out
	}
	defer os.RemoveAll(dir)
	testFile := filepath.Join(dir, "zz_govc_replay_test.go")
	os.WriteFile(testFile, []byte(out.TestSrc), 0o644)
	pkgDir := filepath.Dir(e.fset.Position(fi.Decl.Pos()).Filename)
	ov := map[string]map[string]string{"Replace": {filepath.Join(pkgDir, "zz_govc_replay_test.go"): testFile}}
	for abs := range e.overlay {
		ov["Replace"][abs] = filepath.Join(e.overlayDir, strings.TrimPrefix(abs, e.repo+"/"))
	}
	ovb, _ := json.Marshal(ov)
	ovFile := filepath.Join(dir, "overlay.json")
	os.WriteFile(ovFile, ovb, 0o644)
	cmd := exec.Command("go", "test", "-overlay", ovFile, "-vet=off", "-count=1", "-timeout", "120s", "-run", "^TestGovcReplayZZ$", "-v", ".")
	cmd.Dir = pkgDir
	cmd.Env = append(os.Environ(), "GOFLAGS=-mod=mod", "GOPROXY=off", "GOSUMDB=off", "GOTOOLCHAIN=local")
	var buf bytes.Buffer
	cmd.Stdout = &buf
	cmd.Stderr = &buf
	done := make(chan error, 1)
	go func() { done <- cmd.Run() }()
	select {
	case <-done:
	case <-time.After(300 * time.Second):
		cmd.Process.Kill()
		out.Reason = "replay timed out"
		return out
	}
	out.Transcript = buf.String()
	if len(out.Transcript) > 20000 {
		out.Transcript = out.Transcript[:20000]
	}
	re := regexp.MustCompile(`(?m)^GOVC-CASE (\d+) (OK|PANIC|ERR) (.*)$`)
	byID := map[int]*replayCase{}
	for _, rc := range kept {
		byID[rc.ID] = rc
	}
	ms := re.FindAllStringSubmatch(buf.String(), -1)
	if len(ms) == 0 {
		out.Reason = "replay test did not run: " + firstLines(buf.String(), 6)
		return out
	}
	for _, m := range ms {
		id, _ := strconv.Atoi(m[1])
		rc := byID[id]
		if rc == nil {
			continue
		}
		rc.Ran = true
		out.Ran++
		switch m[2] {
		case "PANIC":
			rc.Panic, _ = strconv.Unquote(m[3])
			if rc.Panic == "" {
				rc.Panic = m[3]
			}
		case "OK":
			var raws []json.RawMessage
			json.Unmarshal([]byte(m[3]), &raws)
			for i := 0; i < rn && i < len(raws); i++ {
				rc.Outputs = append(rc.Outputs, fromJSON(raws[i], fi.Sig.Results().At(i).Type()))
			}
			for i, v := range ins {
				if rn+i < len(raws) {
					rc.Post = append(rc.Post, fromJSON(raws[rn+i], v.Type()))
				}
			}
		}
	}
	out.Available = true
	out.Cases = kept
	// judge
	for _, rc := range kept {
		if !rc.Ran {
			continue
		}
		if what := e.judge(fi, c, rc); what != "" {
			out.Failing = rc
			out.FailWhat = what
			break
		}
	}
	return out
}

func maxLenOf(cs []*CV) int {
	m := 0
	var walk func(c *CV)
	walk = func(c *CV) {
		if c == nil {
			return
		}
		if c.K == "slice" {
			if len(c.L) > m {
				m = len(c.L)
			}
			for _, e := range c.L {
				walk(e)
			}
		}
		for _, f := range c.F {
			walk(f)
		}
	}
	for _, c := range cs {
		walk(c)
	}
	return m
}

func (e *Engine) cenvFor(fi *FuncInfo, c *FuncContract, rc *replayCase, post bool) *CEnv {
	env := &CEnv{e: e, pkg: fi.Pkg, names: map[string]*CV{}, oldNames: map[string]*CV{}, bound: map[string]*CV{}}
	ins := inputVars(fi)
	for i, v := range ins {
		env.names[v.Name()] = rc.Inputs[i]
		env.oldNames[v.Name()] = rc.Inputs[i]
		if post {
			if _, isPtr := v.Type().(*types.Pointer); isPtr && i < len(rc.Post) && rc.Post[i] != nil {
				env.names[v.Name()] = rc.Post[i]
			}
		}
	}
	all := append([]*CV{}, rc.Inputs...)
	if post {
		rn := resultNames(fi.Sig, c)
		for i, o := range rc.Outputs {
			if i < len(rn) {
				env.names[rn[i]] = o
			}
		}
		all = append(all, rc.Outputs...)
	}
	env.maxLen = maxLenOf(all)
	return env
}

func (e *Engine) requiresHold(fi *FuncInfo, c *FuncContract, rc *replayCase) bool {
	if c == nil {
		return true
	}
	for _, r := range c.Requires {
		ok, evaluable := e.evalClause(r.Expr, e.cenvFor(fi, c, rc, false))
		if !evaluable {
			return false // cannot establish the precondition concretely: do not use this input
		}
		if !ok {
			return false
		}
	}
	return true
}

func (e *Engine) evalClause(n *SNode, env *CEnv) (val bool, evaluable bool) {
	defer func() {
		if r := recover(); r != nil {
			if _, is := r.(cvErr); is {
				val, evaluable = false, false
				return
			}
			panic(r)
		}
	}()
	v := cvEval(n, env)
	if v.K != "bool" {
		return false, false
	}
	return v.B, true
}

// judge returns a description of the contract violation exhibited by the case, or "".
// zeroReceiver: `//@ replay zero-receiver` replays a method on the zero value of its receiver (for methods that do not
// touch the keeper before the interesting point). `//@ replay zero-receiver:<substring>` additionally counts a panic
// only if its message contains the substring: a zero keeper panics with a nil dereference as soon as the store is
// touched, and that is an artefact of the harness, not a finding.
func zeroReceiver(c *FuncContract) bool {
	return c != nil && (c.Flags["replay"] == "zero-receiver" || strings.HasPrefix(c.Flags["replay"], "zero-receiver:"))
}

func (e *Engine) judge(fi *FuncInfo, c *FuncContract, rc *replayCase) string {
	if rc.Panic != "" {
		if c != nil && strings.HasPrefix(c.Flags["replay"], "zero-receiver:") {
			if strings.Contains(rc.Panic, strings.TrimPrefix(c.Flags["replay"], "zero-receiver:")) {
				return "panic: " + rc.Panic
			}
			return ""
		}
		if c != nil && c.Flags["may_panic"] != "" {
			return ""
		}
		return "panic: " + rc.Panic
	}
	if c == nil {
		return ""
	}
	for i, en := range c.Ensures {
		ok, evaluable := e.evalClause(en.Expr, e.cenvFor(fi, c, rc, true))
		if evaluable && !ok {
			if os.Getenv("GOVC_CVDEBUG") != "" {
				for k, o := range rc.Outputs {
					fmt.Fprintf(os.Stderr, "CVDEBUG out[%d] = %s\n", k, o.String())
				}
			}
			return fmt.Sprintf("ensures[%d] is false: %s", i, en.Src)
		}
	}
	return ""
}

// modelCase builds an input tuple from a solver model (get-value output) by overlaying the
// observed leaves onto a default value.
func (e *Engine) modelCase(fi *FuncInfo, o *Obligation) []*CV {
	vals := parseGetValue(o.Model, len(o.ObsVars))
	if vals == nil {
		return nil
	}
	ins := inputVars(fi)
	r := rand.New(rand.NewSource(1))
	var cs []*CV
	ok := true
	func() {
		defer func() {
			if x := recover(); x != nil {
				if _, is := x.(genError); is {
					ok = false
					return
				}
				panic(x)
			}
		}()
		c := e.cs.Funcs[fi.Key]
		for i, v := range ins {
			if i == 0 && fi.Sig.Recv() != nil && c != nil && zeroReceiver(c) {
				cs = append(cs, &CV{K: "zero"})
				continue
			}
			cs = append(cs, genValue(v.Type(), r, 0))
		}
	}()
	if !ok {
		return nil
	}
	byName := map[string]int{}
	for i, v := range ins {
		byName[v.Name()] = i
	}
	// first pass: lengths; second: leaves
	for pass := 0; pass < 2; pass++ {
		for i, ov := range o.ObsVars {
			if i >= len(vals) || vals[i] == nil {
				continue
			}
			isLen := strings.HasSuffix(ov.Name, ".len") || strings.HasSuffix(ov.Name, ".cap")
			if (pass == 0) != isLen {
				continue
			}
			root, path := splitPath(ov.Name)
			idx, found := byName[root]
			if !found {
				continue
			}
			applyModel(cs[idx], ins[idx].Type(), path, vals[i])
		}
	}
	return cs
}

func splitPath(s string) (string, []string) {
	var parts []string
	cur := ""
	for i := 0; i < len(s); i++ {
		switch s[i] {
		case '.':
			if cur != "" {
				parts = append(parts, cur)
			}
			cur = ""
		case '[':
			if cur != "" {
				parts = append(parts, cur)
			}
			cur = "["
		case ']':
			parts = append(parts, cur)
			cur = ""
		default:
			cur += string(s[i])
		}
	}
	if cur != "" {
		parts = append(parts, cur)
	}
	return parts[0], parts[1:]
}

func applyModel(c *CV, t types.Type, path []string, v *CV) {
	if c == nil {
		return
	}
	if p, ok := t.Underlying().(*types.Pointer); ok {
		t = p.Elem()
	}
	if len(path) == 0 {
		if c.K == v.K {
			switch c.K {
			case "int":
				c.I = clampToType(v.I, t)
			case "bool":
				c.B = v.B
			}
		}
		return
	}
	p := path[0]
	switch {
	case p == "len" && c.K == "slice":
		if !v.I.IsInt64() {
			return
		}
		n := int(v.I.Int64())
		if n < 0 || n > 4 {
			return
		}
		et := elemType(t)
		r := rand.New(rand.NewSource(7))
		for len(c.L) < n {
			c.L = append(c.L, genValue(et, r, 1))
		}
		c.L = c.L[:n]
		if c.N < n {
			c.N = n
		}
	case p == "cap" && c.K == "slice":
		if v.I.IsInt64() && v.I.Int64() >= int64(len(c.L)) && v.I.Int64() <= 1<<16 {
			c.N = int(v.I.Int64())
		} else {
			c.N = len(c.L)
		}
	case strings.HasPrefix(p, "[") && c.K == "slice":
		i, _ := strconv.Atoi(p[1:])
		if i < len(c.L) {
			applyModel(c.L[i], elemType(t), path[1:], v)
		}
	case c.K == "struct":
		if f, ok := c.F[p]; ok {
			var ft types.Type
			if st, ok := t.Underlying().(*types.Struct); ok {
				for i := 0; i < st.NumFields(); i++ {
					if st.Field(i).Name() == p {
						ft = st.Field(i).Type()
					}
				}
			}
			if ft != nil {
				applyModel(f, ft, path[1:], v)
			}
		}
	}
}

// parseGetValue parses "((term value) (term value) ...)" following the sat line.
func parseGetValue(out string, n int) []*CV {
	k := strings.Index(out, "((")
	if k < 0 {
		return nil
	}
	s := out[k:]
	// tokenise s-expressions at depth 1
	var items []string
	depth := 0
	start := -1
	for i := 0; i < len(s); i++ {
		switch s[i] {
		case '(':
			depth++
			if depth == 2 {
				start = i
			}
		case ')':
			if depth == 2 && start >= 0 {
				items = append(items, s[start:i+1])
				start = -1
			}
			depth--
			if depth == 0 {
				i = len(s)
			}
		}
	}
	var vals []*CV
	for _, it := range items {
		// value is the last top-level element of the pair
		inner := strings.TrimSpace(it[1 : len(it)-1])
		v := lastSexp(inner)
		vals = append(vals, parseSmtValue(v))
	}
	_ = n
	return vals
}

func lastSexp(s string) string {
	s = strings.TrimSpace(s)
	if strings.HasSuffix(s, ")") {
		depth := 0
		for i := len(s) - 1; i >= 0; i-- {
			if s[i] == ')' {
				depth++
			} else if s[i] == '(' {
				depth--
				if depth == 0 {
					return s[i:]
				}
			}
		}
	}
	k := strings.LastIndexAny(s, " \t\n")
	return s[k+1:]
}

func parseSmtValue(v string) *CV {
	v = strings.TrimSpace(v)
	switch v {
	case "true":
		return cvBool(true)
	case "false":
		return cvBool(false)
	}
	neg := false
	if strings.HasPrefix(v, "(-") {
		neg = true
		v = strings.TrimSpace(strings.TrimSuffix(strings.TrimPrefix(v, "(-"), ")"))
	}
	b, ok := new(big.Int).SetString(v, 10)
	if !ok {
		return nil
	}
	if neg {
		b.Neg(b)
	}
	return cvBig(b)
}

// Replay tries to reproduce a refuted (or undecided) obligation on the real code.
func (e *Engine) Replay(o *Obligation, path string) (string, string) {
	fi := e.funcs[o.Func]
	if fi == nil {
		return "unavailable", "no function"
	}
	c := e.cs.Funcs[o.Func]
	oc, cached := replayCache[o.Func]
	if !cached {
		var mcs [][]*CV
		if mc := e.modelCase(fi, o); mc != nil {
			mcs = append(mcs, mc)
		}
		seed := int64(1)
		if s := os.Getenv("VERIF_SEED"); s != "" {
			if v, err := strconv.ParseInt(s, 10, 64); err == nil {
				seed = v
			}
		}
		oc = e.runReplay(fi, c, mcs, seed, 400)
		replayCache[o.Func] = oc
	}
	if !oc.Available {
		return "unavailable", oc.Reason
	}
	if oc.Failing == nil {
		return "spurious", fmt.Sprintf("%d candidate inputs ran on the real code without violating the contract", oc.Ran)
	}
	var ins []string
	for _, c := range oc.Failing.Inputs {
		ins = append(ins, c.String())
	}
	var outs []string
	for _, c := range oc.Failing.Outputs {
		outs = append(outs, c.String())
	}
	os.MkdirAll(filepath.Dir(path), 0o755)
	b, _ := json.MarshalIndent(map[string]interface{}{
		"obligation": o.Name, "kind": o.Kind, "clause": o.Clause, "function": o.Func, "pos": o.Pos,
		"solver": o.Solver, "result": o.Result, "solver_output": firstLines(o.Model, 12),
		"replay": map[string]interface{}{
			"source": oc.Failing.Source, "inputs": ins, "outputs": outs, "panic": oc.Failing.Panic,
			"verdict": "REPLAY-CONFIRMED", "what": oc.FailWhat, "case_id": oc.Failing.ID,
		},
		"test_source": oc.TestSrc,
		"smt":         o.Script,
	}, "", " ")
	os.WriteFile(path, b, 0o644)
	return "confirmed", fmt.Sprintf("input=(%s) %s", strings.Join(ins, ", "), oc.FailWhat)
}

func runReplayFile(repo, verif, path string) int {
	data, err := os.ReadFile(path)
	if err != nil {
		fmt.Fprintln(os.Stderr, err)
		return 2
	}
	var m map[string]interface{}
	json.Unmarshal(data, &m)
	fmt.Printf("obligation: %v\nclause: %v\n", m["obligation"], m["clause"])
	src, _ := m["test_source"].(string)
	fn, _ := m["function"].(string)
	if src == "" {
		fmt.Println("no replayable input recorded (no-failing-input-found); solver output:")
		fmt.Println(m["solver_output"])
		return 0
	}
	// re-run the recorded test against the current tree
	k := strings.LastIndex(fn, ".")
	pkgRel := strings.TrimPrefix(fn[:k], modPath+"/")
	if strings.Count(fn[strings.LastIndex(fn, "/")+1:], ".") == 2 {
		k2 := strings.LastIndex(fn[:k], ".")
		pkgRel = strings.TrimPrefix(fn[:k2], modPath+"/")
	}
	dir, _ := os.MkdirTemp(filepath.Join(verif, "work"), "replay-")
	defer os.RemoveAll(dir)
	tf := filepath.Join(dir, "t_test.go")
	os.WriteFile(tf, []byte(src), 0o644)
	pkgDir := filepath.Join(repo, pkgRel)
	ov, _ := json.Marshal(map[string]map[string]string{"Replace": {filepath.Join(pkgDir, "zz_govc_replay_test.go"): tf}})
	of := filepath.Join(dir, "ov.json")
	os.WriteFile(of, ov, 0o644)
	cmd := exec.Command("go", "test", "-overlay", of, "-vet=off", "-count=1", "-timeout", "120s", "-run", "^TestGovcReplayZZ$", "-v", ".")
	cmd.Dir = pkgDir
	cmd.Env = append(os.Environ(), "GOFLAGS=-mod=mod", "GOPROXY=off", "GOSUMDB=off", "GOTOOLCHAIN=local")
	outb, _ := cmd.CombinedOutput()
	rp, _ := m["replay"].(map[string]interface{})
	fmt.Printf("recorded failing case id: %v (%v)\n", rp["case_id"], rp["what"])
	for _, l := range strings.Split(string(outb), "\n") {
		if strings.HasPrefix(l, fmt.Sprintf("GOVC-CASE %v ", rp["case_id"])) {
			fmt.Println(l)
		}
	}
	return 0
}
