package main

import (
	"encoding/json"
	"fmt"
	"os"
	"os/exec"
	"path/filepath"
	"sort"
	"strings"
	"sync"
)

// Thorough-tier extras.
//
// mustFailCorpus re-runs this property's quick check against every confirmed seeded change (a unified diff kept
// under /verif/seeded) WITHOUT touching /repo: the child govc process loads /repo's current files through a
// packages overlay in which the diff's target files are replaced by their patched copies. A seeded change that
// the registered check caught before and no longer catches means the check lost strength.

type mustFailResult struct {
	ID     string `json:"id"`
	Caught bool   `json:"caught"`
	Line   string `json:"line,omitempty"`
	Note   string `json:"note,omitempty"`
}

func mustFailCorpus(verif, id string) (tried int, caught int, results []mustFailResult, regress []string) {
	expected := map[string]bool{}
	var resFile map[string]struct {
		Property string   `json:"property"`
		CaughtBy []string `json:"caught_by"`
	}
	if data, err := os.ReadFile(filepath.Join(verif, "seeded", "RESULTS.json")); err == nil {
		json.Unmarshal(data, &resFile)
	}
	dirs, _ := filepath.Glob(filepath.Join(verif, "seeded", "C*-m*"))
	sort.Strings(dirs)
	var ids []string
	for _, d := range dirs {
		sid := filepath.Base(d)
		var meta struct {
			Property string `json:"property"`
		}
		if data, err := os.ReadFile(filepath.Join(d, "meta.json")); err == nil {
			json.Unmarshal(data, &meta)
		}
		r, ok := resFile[sid]
		inCaught := false
		if ok {
			for _, p := range r.CaughtBy {
				if p == id {
					inCaught = true
				}
			}
		}
		if meta.Property != id && !inCaught {
			continue
		}
		if inCaught {
			expected[sid] = true
		}
		ids = append(ids, sid)
	}
	self, _ := os.Executable()
	results = make([]mustFailResult, len(ids))
	sem := make(chan struct{}, 3)
	var wg sync.WaitGroup
	for i, sid := range ids {
		wg.Add(1)
		go func(i int, sid string) {
			defer wg.Done()
			sem <- struct{}{}
			defer func() { <-sem }()
			cmd := exec.Command(self, "check", id, "quick")
			cmd.Env = append(os.Environ(), "GOVC_CHILD=1", "GOVC_OVERLAY_PATCH="+filepath.Join(verif, "seeded", sid, "patch.diff"))
			out, _ := cmd.Output()
			r := mustFailResult{ID: sid}
			code := cmd.ProcessState.ExitCode()
			for _, l := range strings.Split(string(out), "\n") {
				if strings.HasPrefix(l, "VIOLATION") && code == 1 {
					r.Caught = true
					if len(l) > 260 {
						l = l[:260]
					}
					r.Line = l
					break
				}
				if strings.HasPrefix(l, "ERROR") {
					r.Note = l
				}
			}
			results[i] = r
		}(i, sid)
	}
	wg.Wait()
	os.RemoveAll(filepath.Join(verif, "work", "child", "replay-"+id))
	if old, _ := filepath.Glob(filepath.Join(verif, "work", "child", id+"-*.json")); old != nil {
		for _, f := range old {
			os.Remove(f)
		}
	}
	for _, r := range results {
		if strings.Contains(r.Note, "does not apply") {
			continue // the tree moved under the diff: not counted
		}
		tried++
		if r.Caught {
			caught++
		} else if expected[r.ID] {
			regress = append(regress, r.ID)
		}
	}
	return
}

// crossSolver re-runs every discharged (unsat) obligation on each of the other solvers to completion and
// reports any solver that answers sat: the proof claim then rests on a disputed answer.
func crossSolver(work string, all []*Obligation, timeout int) (checked int, disputes []string) {
	type job struct {
		o *Obligation
	}
	var mu sync.Mutex
	sem := make(chan struct{}, 16)
	var wg sync.WaitGroup
	for _, o := range all {
		if o.Result != "unsat" || o.Solver == "trivial" || o.Kind == "ground" || o.Cover {
			continue
		}
		wg.Add(1)
		go func(o *Obligation) {
			defer wg.Done()
			sem <- struct{}{}
			defer func() { <-sem }()
			res := runAllSolvers(work, o, timeout)
			mu.Lock()
			checked++
			for s, r := range res {
				if r == "sat" {
					disputes = append(disputes, fmt.Sprintf("%s: %s answered unsat, %s answers sat", o.Name, o.Solver, s))
				}
			}
			mu.Unlock()
		}(o)
	}
	wg.Wait()
	sort.Strings(disputes)
	return
}

// conformance runs each replayable function under contract on generated inputs that satisfy its preconditions,
// on the real code (go test -overlay), and judges the outputs against the ensures clauses with the concrete
// spec interpreter. On a tree where the proofs pass every sampled execution must agree with the contract; a
// disagreement means the VC generator or the contract misdescribes the code (reported as undecided, never as a
// property violation).
func (e *Engine) conformance(keys []string, seed int64, n int) (validated int, perFunc map[string]interface{}, mismatches []string) {
	perFunc = map[string]interface{}{}
	type res struct {
		key string
		oc  *replayOutcome
	}
	ch := make(chan res, len(keys))
	sem := make(chan struct{}, 4)
	cnt := 0
	for _, k := range keys {
		fi := e.funcs[k]
		c := e.cs.Funcs[k]
		if fi == nil || c == nil || c.Flags["trusted"] != "" {
			continue
		}
		cnt++
		go func(k string, fi *FuncInfo, c *FuncContract) {
			sem <- struct{}{}
			defer func() { <-sem }()
			var oc *replayOutcome
			func() {
				defer func() {
					if x := recover(); x != nil {
						oc = &replayOutcome{Reason: fmt.Sprint("generator panic: ", x)}
					}
				}()
				oc = e.runReplay(fi, c, nil, seed, n)
			}()
			ch <- res{k, oc}
		}(k, fi, c)
	}
	for i := 0; i < cnt; i++ {
		r := <-ch
		if !r.oc.Available {
			reason := r.oc.Reason
			if len(reason) > 140 {
				reason = reason[:140] + "…"
			}
			perFunc[r.key] = "not replayable: " + reason
			continue
		}
		if r.oc.Failing != nil {
			var ins []string
			for _, c := range r.oc.Failing.Inputs {
				ins = append(ins, c.String())
			}
			mismatches = append(mismatches, fmt.Sprintf("%s input=(%s) %s", r.key, strings.Join(ins, ", "), r.oc.FailWhat))
			perFunc[r.key] = "MISMATCH"
			continue
		}
		validated += r.oc.Ran
		perFunc[r.key] = r.oc.Ran
	}
	sort.Strings(mismatches)
	return
}
