//go:build verif

package signaller

// Contracts for govc (see /verif/DESIGN.md). Comment-only file; compiled only under -tags verif.

// C20: the send slot of a validator lies between start% and (start+offset-1)% of the interval after the
// last accepted price, hence strictly inside the interval when start+offset <= 100 (shipped: 50+30).
//@ func calculateAssignedTime
//@ pure
//@ nooverflow
//@ requires dpOffset > 0 && dpStart + dpOffset <= 100 && 0 < interval && interval <= T61 / 100 && 0 <= timestamp && timestamp <= T61
//@ ensures  result.Unix() >= timestamp + (interval * dpStart) / 100
//@ ensures  result.Unix() <= timestamp + (interval * (dpStart + dpOffset - 1)) / 100
//@ ensures  result.Unix() <  timestamp + interval

// float64 deviation test: body not verified here (floating point); named by an abstract predicate.
//@ spec deviated(bp Int, old Int, new Int) Bool uninterpreted
//@ func isDeviated
//@ trusted
//@ pure
//@ ensures result == deviated(deviationBasisPoint, oldPrice, newPrice)

// C20: grogu decides to submit only after the chain's cooldown (plus the time buffer) has passed since the
// last accepted price, and then it does submit when the assigned slot is reached, the status changed or
// the price deviated.
//@ func (s *Signaller) shouldUpdatePrice
//@ requires s.distributionOffsetPercentage > 0 && s.distributionStartPercentage + s.distributionOffsetPercentage <= 100
//@ requires 0 < feed.Interval && feed.Interval <= T61 / 100 && 0 <= oldPrice.Timestamp && oldPrice.Timestamp <= T61
//@ requires 0 <= s.params.CooldownTime && s.params.CooldownTime <= T61
//@ ensures  result ==> now.Unix() >= oldPrice.Timestamp + s.params.CooldownTime + TimeBuffer
//@ ensures  now.Unix() >= oldPrice.Timestamp + s.params.CooldownTime + TimeBuffer && oldPrice.SignalPriceStatus != newPrice.Status ==> result
//@ ensures  now.Unix() >= oldPrice.Timestamp + s.params.CooldownTime + TimeBuffer && deviated(feed.DeviationBasisPoint, oldPrice.Price, newPrice.Price) ==> result
//@ ensures  now.Unix() >= oldPrice.Timestamp + s.params.CooldownTime + TimeBuffer && now.Unix() >= oldPrice.Timestamp + feed.Interval ==> result

// ---- C20: a round only acts on state refreshed in that round ----------------------------------------------
// ghost: the cached chain view (params, current feeds, this validator's last prices) was refreshed successfully
// since the last sleep. Sleeping makes whatever was cached stale.
//@ ghost Refreshed Bool
//@ extern time.Sleep(d) ()
//@ modifies Refreshed
//@ ensures !Refreshed

// chain queries (gRPC): assumed
//@ func (q FeedQuerier) QueryValidValidator
//@ trusted

// the three refresh queries run concurrently (goroutines + WaitGroup: body not verified); success means all three
// succeeded
//@ func (s *Signaller) updateInternalVariables
//@ trusted
//@ modifies Refreshed, s
//@ ensures result ==> Refreshed
//@ ensures !result ==> Refreshed == old(Refreshed)

// deciding and submitting prices uses the cached view: it must be fresh
//@ func (s *Signaller) execute
//@ trusted
//@ requires Refreshed
//@ modifies PendingIDs, s

// C20: every round sleeps, then re-queries the chain; prices are decided and submitted only in a round whose
// refresh succeeded (a failed query skips the round instead of acting on the previous round's view, in which an
// already accepted price would look due again).
//@ func (s *Signaller) Start
//@ modifies Refreshed, PendingIDs, s
//@ loop 0: invariant true

// C20: a submission is handed to the submitter only AFTER every one of its signals has been marked in flight. Under the
// schedule in which the submitter takes the submission and finishes it (releasing its signals) at the very moment of
// the hand-over, nothing of the submission may be left marked afterwards - a mark placed after the hand-over would stay
// forever and the signal would never be submitted again.
//@ func (s *Signaller) submitPrices
//@ on_send grogu/submitter.Submitter.submitPrice
//@ modifies PendingIDs
//@ ensures forall j :: 0 <= j && j < len(prices) ==> !has(PendingIDs, prices[j].SignalID)
//@ loop 0: invariant forall j :: 0 <= j && j < #i ==> has(PendingIDs, prices[j].SignalID)
