//go:build verif

package signaller

// Contracts for govc (see /verif/DESIGN.md). Comment-only file; compiled only under -tags verif.

// C20: the send slot of a validator lies between start% and (start+offset-1)% of the interval after the
// last accepted price, hence strictly inside the interval when start+offset <= 100 (shipped: 50+30).
//@ func calculateAssignedTime
//@ pure
//@ nooverflow
//@ requires dpOffset > 0 && dpStart + dpOffset <= 100 && 0 < interval && interval <= T61 / 100 && 0 <= timestamp && timestamp <= T61
//@ ensures  result.Unix() >= timestamp + (interval * dpStart) / 100
//@ ensures  result.Unix() <= timestamp + (interval * (dpStart + dpOffset - 1)) / 100
//@ ensures  result.Unix() <  timestamp + interval

// C20: "promptly when the price moves by at least the feed's deviation": the deviation test is exact over the integers,
// floor(|new - old| * 10000 / old) >= deviation, for every uint64 price (F4: the float64 version misjudged moves of
// exactly the threshold for prices above 2^53).
//@ spec deviated(bp Int, o Int, n Int) Bool = o == 0 ? n != 0 : bp <= (abs(n - o) * 10000) / o
//@ func isDeviated
//@ pure
//@ ensures result == deviated(deviationBasisPoint, oldPrice, newPrice)

// C20: grogu decides to submit only after the chain's cooldown (plus the time buffer) has passed since the
// last accepted price, and then it does submit when the assigned slot is reached, the status changed or
// the price deviated.
//@ func (s *Signaller) shouldUpdatePrice
//@ requires s.distributionOffsetPercentage > 0 && s.distributionStartPercentage + s.distributionOffsetPercentage <= 100
//@ requires 0 < feed.Interval && feed.Interval <= T61 / 100 && 0 <= oldPrice.Timestamp && oldPrice.Timestamp <= T61
//@ requires 0 <= s.params.CooldownTime && s.params.CooldownTime <= T61
//@ ensures  result ==> now.Unix() >= oldPrice.Timestamp + s.params.CooldownTime + TimeBuffer
//@ ensures  now.Unix() >= oldPrice.Timestamp + s.params.CooldownTime + TimeBuffer && oldPrice.SignalPriceStatus != newPrice.Status ==> result
//@ ensures  now.Unix() >= oldPrice.Timestamp + s.params.CooldownTime + TimeBuffer && deviated(feed.DeviationBasisPoint, oldPrice.Price, newPrice.Price) ==> result
//@ ensures  now.Unix() >= oldPrice.Timestamp + s.params.CooldownTime + TimeBuffer && now.Unix() >= oldPrice.Timestamp + feed.Interval ==> result

// ---- C20: a round only acts on state refreshed in that round ----------------------------------------------
// ghost: the cached chain view (params, current feeds, this validator's last prices) was refreshed successfully
// since the last sleep. Sleeping makes whatever was cached stale.
//@ ghost Refreshed Bool
//@ extern time.Sleep(d) ()
//@ modifies Refreshed
//@ ensures !Refreshed

// C20: the feed table is REPLACED by what the chain answered, not merged into: after a successful refresh every tracked
// signal is one of the chain's current feeds (a signal the chain dropped must disappear here too - submitting it makes
// the chain reject the whole message, the signals batched with it included). ChainFeeds: what the chain answered last.
//@ ghost ChainFeeds []types.FeedWithDeviation
//@ func (q FeedQuerier) QueryCurrentFeeds
//@ trusted
//@ modifies ChainFeeds
//@ ensures err == nil ==> result.CurrentFeeds.Feeds == ChainFeeds
// the map built from a slice holds only elements of the slice
//@ func sliceToMap
//@ pure_funcvalues
//@ ensures forall k K :: has(result, k) ==> (exists i :: 0 <= i && i < len(slice) && result[k] == slice[i])
//@ loop 0: invariant forall k K :: has(resultMap, k) ==> (exists i :: 0 <= i && i < #i && resultMap[k] == slice[i])
//@ func (s *Signaller) updateFeedMap
//@ modifies s, ChainFeeds
//@ ensures result ==> (forall k Str :: has(s.signalIDToFeed, k) ==> (exists i :: 0 <= i && i < len(ChainFeeds) && s.signalIDToFeed[k] == ChainFeeds[i]))

// chain queries (gRPC): assumed
//@ func (q FeedQuerier) QueryValidValidator
//@ trusted

// the three refresh queries run concurrently (goroutines + WaitGroup: body not verified); success means all three
// succeeded
//@ func (s *Signaller) updateInternalVariables
//@ trusted
//@ modifies Refreshed, s
//@ ensures result ==> Refreshed
//@ ensures !result ==> Refreshed == old(Refreshed)

// deciding and submitting prices uses the cached view: it must be fresh
//@ func (s *Signaller) execute
//@ trusted
//@ requires Refreshed
//@ modifies PendingIDs, s

// C20: every round sleeps, then re-queries the chain; prices are decided and submitted only in a round whose
// refresh succeeded (a failed query skips the round instead of acting on the previous round's view, in which an
// already accepted price would look due again).
//@ func (s *Signaller) Start
//@ modifies Refreshed, PendingIDs, s
//@ loop 0: invariant true

// C20: a submission is handed to the submitter only AFTER every one of its signals has been marked in flight. Under the
// schedule in which the submitter takes the submission and finishes it (releasing its signals) at the very moment of
// the hand-over, nothing of the submission may be left marked afterwards - a mark placed after the hand-over would stay
// forever and the signal would never be submitted again.
//@ func (s *Signaller) submitPrices
//@ on_send grogu/submitter.Submitter.submitPrice
//@ modifies PendingIDs
//@ ensures forall j :: 0 <= j && j < len(prices) ==> !has(PendingIDs, prices[j].SignalID)
//@ loop 0: invariant forall j :: 0 <= j && j < #i ==> has(PendingIDs, prices[j].SignalID)

// ---- C20: a signal that is in flight is not considered again until it is released -----------------------------------------
// the candidate ids of a round: the current feeds MINUS the signals marked in flight (each candidate is a current feed and
// is not pending)
//@ func (s *Signaller) getAllSignalIDs
//@ ensures forall j :: 0 <= j && j < len(result) ==> has(s.signalIDToFeed, result[j])
//@ loop 0: invariant forall j :: 0 <= j && j < len(signalIDs) ==> has(s.signalIDToFeed, signalIDs[j])
//@ func (s *Signaller) getNonPendingSignalIDs
//@ ensures forall j :: 0 <= j && j < len(result) ==> has(s.signalIDToFeed, result[j]) && !has(PendingIDs, result[j])
//@ loop 0: invariant forall j :: 0 <= j && j < len(signalIDs) ==> has(s.signalIDToFeed, signalIDs[j])
//@ loop 0: invariant forall j :: 0 <= j && j < len(filtered) ==> has(s.signalIDToFeed, filtered[j]) && !has(PendingIDs, filtered[j])

// C20 "re-submits every current-feed signal ... (missing signals)": a signal the price service has no price for, or whose
// price cannot be used this round, is skipped ALONE - the signals after it in the list are still considered
// (the bounds shouldUpdatePrice needs - shipped send-slot configuration, chain-validated intervals and cooldown, block
// timestamps - are those of the refreshed chain view; they are required here and carried through the loop)
//@ spec viewOK(s Signaller) Bool = s.distributionOffsetPercentage > 0 && s.distributionStartPercentage + s.distributionOffsetPercentage <= 100 && 0 <= s.params.CooldownTime && s.params.CooldownTime <= T61
//@      && (forall k Str :: has(s.signalIDToFeed, k) ==> 0 < s.signalIDToFeed[k].Interval && s.signalIDToFeed[k].Interval <= T61 / 100)
//@      && (forall k Str :: has(s.signalIDToValidatorPrice, k) ==> 0 <= s.signalIDToValidatorPrice[k].Timestamp && s.signalIDToValidatorPrice[k].Timestamp <= T61)
//@ func (s *Signaller) filterAndPrepareSignalPrices
//@ requires viewOK(s)
//@ loop 0: invariant viewOK(s)
//@ loop 0: exhaustive
