//go:build verif

package submitter

// Contracts for govc (see /verif/DESIGN.md). Comment-only file; compiled only under -tags verif.
// Sequential contracts only: goroutine interleavings of signaller and submitter are not decided.

// the set of signal ids currently marked "in flight" (the shared sync.Map)
//@ ghost PendingIDs map[string]bool

//@ func (s *Submitter) removePending
//@ modifies PendingIDs
//@ ensures forall j :: 0 <= j && j < len(prices) ==> !has(PendingIDs, prices[j].SignalID)
//@ ensures forall id Str :: !old(has(PendingIDs, id)) ==> !has(PendingIDs, id)
//@ loop 0: invariant forall j :: 0 <= j && j < #i ==> !has(PendingIDs, prices[j].SignalID)
//@ loop 0: invariant forall id Str :: !old(has(PendingIDs, id)) ==> !has(PendingIDs, id)

// network I/O: assumed
//@ func (s *Submitter) broadcastMsg
//@ trusted
//@ func (s *Submitter) getTxResponse
//@ trusted
//@ func (s *Submitter) pushMonitoringRecords
//@ trusted

// C20: whatever happens to a submission (key lookup failure, broadcast errors, out of gas, non-zero code,
// tx query timeout, success) every signal of the batch is released from the in-flight set on return.
//@ func (s *Submitter) submitPrice
//@ modifies PendingIDs
//@ ensures forall j :: 0 <= j && j < len(pricesSubmission.SignalPrices) ==> !has(PendingIDs, pricesSubmission.SignalPrices[j].SignalID)
