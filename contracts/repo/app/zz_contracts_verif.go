//go:build verif

package band

// Contracts for govc (see /verif/DESIGN.md). Comment-only file; compiled only under -tags verif.

// C14 / C02: the begin-block order is a constant list without repetitions in which the inflation is minted
// before the oracle module takes its share, the oracle share is taken before the bandtss share, and both
// before the distribution module allocates what is left of the fee pool.
//@ func orderBeginBlockers
//@ ensures forall i Int, j Int :: 0 <= i && i < j && j < len(result) ==> result[i] != result[j]
//@ ensures exists a Int, b Int, c Int, d Int :: 0 <= a && a < b && b < c && c < d && d < len(result) && result[a] == "mint" && result[b] == "oracle" && result[c] == "bandtss" && result[d] == "distribution"
//@ ensures exists a Int, b Int :: 0 <= a && a < b && b < len(result) && result[a] == "rollingseed" && result[b] == "oracle"

// C02: the end-block order is a constant list without repetitions; the modules whose end-blockers feed one
// another run in data-flow order: oracle (creates signing requests) before tss (handles signings) before
// bandtss (transition execution), feeds (publishes prices) before tunnel (sends them).
//@ func orderEndBlockers
//@ ensures forall i Int, j Int :: 0 <= i && i < j && j < len(result) ==> result[i] != result[j]
//@ ensures exists a Int, b Int, c Int :: 0 <= a && a < b && b < c && c < len(result) && result[a] == "oracle" && result[b] == "tss" && result[c] == "bandtss"
//@ ensures exists a Int, b Int :: 0 <= a && a < b && b < len(result) && result[a] == "feeds" && result[b] == "tunnel"
// C06 / C09: the staking end-blocker (this block's bonding, unbonding and jailing) runs before the modules that weigh
// validators by the bonded set: the feeds quorum and the oracle's validator sampling see the set as of this block
//@ ensures exists a Int, b Int, c Int :: 0 <= a && a < b && a < c && b < len(result) && c < len(result) && result[a] == "staking" && result[b] == "oracle" && result[c] == "feeds"

// C16 / C17 / C13: the module accounts that hold users' coins (restake stakes, tunnel deposits and fees, bandtss fees) are
// fully backed by the modules' own records only because nobody can pay into them from outside: every module account
// except gov's stays on the bank keeper's blocked-recipient list.
//@ func (app *BandApp) BlockedModuleAccountAddrs
//@ ensures forall q Str :: q != addrstr(ext("NewModuleAddress", "gov")) ==> (has(result, q) <==> has(old(modAccAddrs), q))
