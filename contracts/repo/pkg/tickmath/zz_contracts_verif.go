//go:build verif

package tickmath

// Contracts for govc (see /verif/DESIGN.md). Comment-only file; compiled only under -tags verif.

// price of a tick in x96 fixed point (18 big-integer multiplications): assumed, body not verified
//@ func tickToPriceX96
//@ trusted

// C11: the first phase of PriceToTick is a binary search for the most significant bit: after it,
// 2^msb <= price < 2^(msb+1), msb <= 63 and p == price >> msb == 1. The thresholds of the search are
// 2^32-1, 2^16-1, 2^8-1, 2^4-1, 2^2-1, 2^1-1. (The 16-step log2 refinement that follows uses bit tricks that
// are modelled abstractly; optimality of the final tick is not decided deductively, see DESIGN.md C11.)
// The mantissa handed to the log refinement is the price scaled so that its leading bit sits at 2^31, whichever
// side of 2^31 the price is on: r == floor(price * 2^31 / 2^msb), hence 2^31 <= r < 2^32.
//@ func PriceToTick
//@ pure
//@ assert before r: 0 <= msb && msb <= 63 && p == 1 && pow2(msb) <= price && price < 2 * pow2(msb)
//@ assert before log2: pow2(31) <= r && r < pow2(32) && (msb >= 31 ==> r == price / pow2(msb - 31)) && (msb < 31 ==> r == price * pow2(31 - msb))
//@ loop 0: invariant 0 <= #i && #i <= 6 && 1 <= p && msb >= 0 && msb + pow2(6 - #i) <= 64
//@ loop 0: invariant p == price / pow2(msb) && p < pow2(pow2(6 - #i))
//@ loop 1: invariant 0 <= i && i <= 16
