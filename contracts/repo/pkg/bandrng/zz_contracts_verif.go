//go:build verif

package bandrng

// Contracts for govc (see /verif/DESIGN.md). Comment-only file; compiled only under -tags verif.
// HMAC-DRBG (oasis-core) is external: the stream itself is assumed, not verified.
//@ func NewRng
//@ trusted
//@ func (r *Rng) NextUint64
//@ trusted

// Sampling without replacement, best of `tries` by total weight (bodies: see C09 in DESIGN.md; the contract
// below is what callers rely on): cnt pairwise distinct indexes into weights.
//@ func ChooseSomeMaxWeight
//@ trusted
//@ requires tries >= 1 && 0 <= cnt && cnt <= len(weights)
//@ ensures len(result) == cnt
//@ ensures forall i :: 0 <= i && i < len(result) ==> 0 <= result[i] && result[i] < len(weights)
//@ ensures forall i, j :: 0 <= i && i < j && j < len(result) ==> result[i] != result[j]
