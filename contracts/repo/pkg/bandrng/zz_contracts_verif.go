//go:build verif

package bandrng

// Contracts for govc (see /verif/DESIGN.md). Comment-only file; compiled only under -tags verif.
// HMAC-DRBG (oasis-core) is external: the stream itself is assumed, not verified. The ghost RngLast is the last
// value drawn from it.
//@ ghost RngLast Int
// what the generator was seeded with (entropy, nonce, personalization string)
//@ ghost RngEntropy Bz
//@ ghost RngNonce Bz
//@ ghost RngPers Bz
//@ func NewRng
//@ trusted
//@ modifies RngEntropy, RngNonce, RngPers
//@ ensures RngEntropy == entropyInput && RngNonce == nonce && RngPers == personalizationString
//@ func (r *Rng) NextUint64
//@ trusted
//@ modifies RngLast
//@ ensures result == RngLast && 0 <= RngLast && RngLast <= MaxUint64

// cumulative weight of the first n entries
//@ spec wsum(w []uint64, n Int) Int = n <= 0 ? 0 : wsum(w, n - 1) + w[n-1]
// cumulative weights grow with the prefix (weights are unsigned)
//@ lemma wsumMono induction n: forall w []uint64, m Int, n Int :: 0 <= m && m <= n && n <= len(w) ==> wsum(w, m) <= wsum(w, n)
// ... and strictly contain the next entry
//@ lemma wsumStep induction n: forall w []uint64, m Int, n Int :: 0 <= m && m < n && n <= len(w) ==> wsum(w, m) + w[m] <= wsum(w, n)
// with positive weights the first n entries weigh at least n
//@ lemma wsumPos induction n: forall w []uint64, n Int :: (n <= len(w) && (forall j :: 0 <= j && j < n ==> w[j] >= 1)) ==> wsum(w, n) >= n

// C09: the weighted pick. With a non-empty list whose total weight is positive and fits a uint64, the lucky number
// is (next random value) mod (total weight) and the index returned is THE one whose cumulative-weight interval
// contains it: wsum(idx) <= lucky < wsum(idx+1). In particular the index is in range and has positive weight.
//@ func ChooseOne
//@ uses wsumMono, wsumStep
//@ modifies RngLast
//@ requires len(weights) >= 1 && wsum(weights, len(weights)) <= MaxUint64 && wsum(weights, len(weights)) > 0
//@ ensures 0 <= result && result < len(weights)
//@ ensures wsum(weights, result) <= RngLast % wsum(weights, len(weights)) && RngLast % wsum(weights, len(weights)) < wsum(weights, result + 1)
//@ loop 0: invariant sum == wsum(weights, #i)
//@ loop 1: invariant currentSum == wsum(weights, #i) && currentSum <= luckyNumber && luckyNumber == RngLast % wsum(weights, len(weights)) && sum == wsum(weights, len(weights))

// range assumption on weights (validator tokens / powers): each between 1 and 2^50, at most 8192 of them - so that
// no sum of weights leaves the uint64 range
//@ spec okWeights(w []uint64) Bool = len(w) <= 8192 && (forall i :: 0 <= i && i < len(w) ==> 1 <= w[i] && w[i] <= 1125899906842624)
//@ lemma wsumBound induction n: forall w []uint64, n Int :: (n <= len(w) && (forall j :: 0 <= j && j < n ==> w[j] <= 1125899906842624)) ==> wsum(w, n) <= n * 1125899906842624

// C09: sampling without replacement: exactly cnt indexes, each in range, pairwise different (a chosen entry leaves
// the pool).
//@ func ChooseSome
//@ uses wsumPos, wsumBound
//@ modifies RngLast
//@ requires 0 <= cnt && cnt <= len(weights) && okWeights(weights)
//@ ensures len(result) == cnt
//@ ensures forall i :: 0 <= i && i < len(result) ==> 0 <= result[i] && result[i] < len(weights)
//@ ensures forall i, j :: 0 <= i && i < j && j < len(result) ==> result[i] != result[j]
//@ loop 0: invariant len(availableWeights) == len(weights) && len(availableIndexes) == len(weights) && len(chosenIndexes) == cnt
//@ loop 0: invariant forall j :: 0 <= j && j < #i ==> availableWeights[j] == weights[j] && availableIndexes[j] == j
//@ loop 1: invariant 0 <= round && round <= cnt && len(chosenIndexes) == cnt
//@ loop 1: invariant len(availableWeights) == len(weights) - round && len(availableIndexes) == len(weights) - round
//@ loop 1: invariant forall j :: 0 <= j && j < len(availableIndexes) ==> 0 <= availableIndexes[j] && availableIndexes[j] < len(weights) && availableWeights[j] == weights[availableIndexes[j]]
//@ loop 1: invariant forall i, j :: 0 <= i && i < j && j < len(availableIndexes) ==> availableIndexes[i] != availableIndexes[j]
//@ loop 1: invariant forall i :: 0 <= i && i < round ==> 0 <= chosenIndexes[i] && chosenIndexes[i] < len(weights) && (forall j :: 0 <= j && j < len(availableIndexes) ==> availableIndexes[j] != chosenIndexes[i])
//@ loop 1: invariant forall i, j :: 0 <= i && i < j && j < round ==> chosenIndexes[i] != chosenIndexes[j]

// C09: best of `tries` samplings by total weight: the result is one of the samplings, hence cnt pairwise different
// in-range indexes (with positive weights and cnt >= 1 the first sampling already has a positive total, so a result
// is always selected).
//@ func ChooseSomeMaxWeight
//@ modifies RngLast
//@ requires tries >= 1 && 1 <= cnt && cnt <= len(weights) && okWeights(weights)
//@ ensures len(result) == cnt
//@ ensures forall i :: 0 <= i && i < len(result) ==> 0 <= result[i] && result[i] < len(weights)
//@ ensures forall i, j :: 0 <= i && i < j && j < len(result) ==> result[i] != result[j]
//@ loop 0: invariant 0 <= each && each <= tries && (each >= 1 ==> len(maxWeightResult) == cnt)
//@ loop 0: invariant each >= 1 ==> (forall i :: 0 <= i && i < len(maxWeightResult) ==> 0 <= maxWeightResult[i] && maxWeightResult[i] < len(weights))
//@ loop 0: invariant each >= 1 ==> (forall i, j :: 0 <= i && i < j && j < len(maxWeightResult) ==> maxWeightResult[i] != maxWeightResult[j])
//@ loop 0: invariant each == 0 ==> maxWeightSum == 0
//@ loop 1: invariant #i <= candidateWeightSum && candidateWeightSum <= #i * 1125899906842624
