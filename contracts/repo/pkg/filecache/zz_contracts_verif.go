//go:build verif

package filecache

// Contracts for govc (see /verif/DESIGN.md). Comment-only file; compiled only under -tags verif.
// The file cache is disk I/O (diskv): assumed, not verified. GetFile returns any bytes or an error.
//@ func (c Cache) GetFile
//@ trusted
//@ func (c Cache) AddFile
//@ trusted
