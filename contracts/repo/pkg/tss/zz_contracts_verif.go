//go:build verif

package tss

// Contracts for govc (see /verif/DESIGN.md). Comment-only file; compiled only under -tags verif.

// Cryptographic verification functions are abstracted by uninterpreted predicates (their bodies are
// not verified here; soundness of Schnorr/DLEQ is a cryptographic assumption, DESIGN §1).
//@ spec validOwnPubKeySig(mid Int, dkg []byte, sig Signature, pub Point) Bool uninterpreted
//@ func VerifyOwnPubKeySignature
//@ trusted
//@ ensures err == nil <==> validOwnPubKeySig(mid, dkgContext, signature, ownPub)

// Complaint verification (DLEQ proof + decrypt-and-compare against the dealer's commitments): abstracted.
//@ spec validComplaint(pubI Point, pubJ Point, keySym Point, sig ComplaintSignature, enc EncSecretShare, midI Int, commits Points) Bool uninterpreted
//@ func VerifyComplaint
//@ trusted
//@ ensures err == nil <==> validComplaint(oneTimePubI, oneTimePubJ, keySym, complaintSignature, encSecretShare, midI, commits)

// keccak256 of the concatenation of its arguments: abstract (uninterpreted hash)
//@ func Hash
//@ abstract
//@ ensures len(result) == 32

// curve / encoding helpers: abstract (uninterpreted functions of their arguments)
// left-padding with zero bytes up to the given length (longer inputs are returned unchanged)
//@ func PaddingBytes
//@ pure
//@ ensures len(data) >= length ==> result == data
//@ ensures len(data) < length ==> len(result) == length
//@ ensures len(data) < length ==> (forall j :: 0 <= j && j < length - len(data) ==> result[j] == 0)
//@ ensures len(data) < length ==> (forall j :: 0 <= j && j < len(data) ==> result[length - len(data) + j] == data[j])
//@ func NewScalar
//@ abstract
// Ethereum-style address of a point: the last 20 bytes of keccak(X left-padded to 32 bytes || Y left-padded to 32 bytes)
//@ spec hashXY(p Point) Bz = absfn("Hash", PaddingBytes(ext("big.Int.Bytes", ext("PublicKey.X", absfn("Point.publicKey", p))), 32), PaddingBytes(ext("big.Int.Bytes", ext("PublicKey.Y", absfn("Point.publicKey", p))), 32))
//@ spec ethAddr(p Point) Bz = bzslice(hashXY(p), 12, len(hashXY(p)))
//@ axiom hashLen: forall a Bz, b Bz :: len(absfn("Hash", a, b)) == 32
//@ func (p Point) Address
//@ ensures err == nil ==> result == ethAddr(p)
//@ func (p Point) publicKey
//@ abstract
//@ func NewError
//@ abstract
// own public key = the accumulated commitment polynomial evaluated at the member id (curve arithmetic: abstract)
//@ func ComputeOwnPublicKey
//@ abstract
// combination of partial signatures (sum of the R points, sum of the s scalars): curve arithmetic, abstract
//@ func CombineSignatures
//@ abstract
// R / s halves of a 65-byte signature (byte slicing): opaque functions of the signature
//@ func (s Signature) R
//@ abstract
//@ func (s Signature) S
//@ abstract
// the Schnorr equation  s*Gen == R + (c*lagrange)*PubKey  over parsed points/scalars (parsing + the internal/schnorr
// check, which is verified on its own): named by a predicate over the raw encodings
//@ spec schnorrOK(r Point, s Scalar, c Scalar, pk Point, gen Point, lag Scalar) Bool uninterpreted
//@ func Verify
//@ trusted
//@ ensures err == nil <==> schnorrOK(rawSignatureR, rawSignatureS, rawChallenge, rawPubKey, rawGenerator, rawLagrange)
// C03: a member's share is accepted iff  z_i*G == R_i + c*lambda_i*Y_i  where c is the challenge of the GROUP public
// nonce, the group key and the message, R_i / z_i are the two halves of the submitted signature, Y_i the member's key
//@ spec validShare(gpn Point, gpk Point, msg Bz, lag Scalar, sig Signature, own Point) Bool =
//@      absfn("HashChallenge#1", gpn, gpk, msg) == nil && schnorrOK(absfn("Signature.R", sig), absfn("Signature.S", sig), absfn("HashChallenge#0", gpn, gpk, msg), own, nil, lag)
//@ func VerifySigningSignature
//@ ensures err == nil <==> validShare(groupPubNonce, groupPubKey, data, rawLagrange, signature, ownPubKey)
// C03: a group signature (R, z) is valid iff  z*G == R + c*Y  with c the challenge of ITS OWN R, the group key and the message
//@ spec validGroupSig(pk Point, msg Bz, sig Signature) Bool =
//@      absfn("HashChallenge#1", absfn("Signature.R", sig), pk, msg) == nil && schnorrOK(absfn("Signature.R", sig), absfn("Signature.S", sig), absfn("HashChallenge#0", absfn("Signature.R", sig), pk, msg), pk, nil, nil)
//@ func VerifyGroupSigningSignature
//@ ensures err == nil <==> validGroupSig(groupPubKey, data, signature)
// C03: the table-based Lagrange routine (precomputed prime factorisations) only covers member ids up to 20. The input
// check accepts only duplicate-free committees that contain the member, and routes to the table routine only when
// EVERY id of the committee is within the table (a committee mixing ids below and above 20 must take the general
// routine: the table one indexes out of range and panics, so such a member's share could never be accepted).
//@ func checkLagrangeInput
//@ ensures err == nil ==> (exists j :: 0 <= j && j < len(memberList) && memberList[j] == mid)
//@ ensures err == nil ==> (forall a, b :: 0 <= a && a < b && b < len(memberList) ==> memberList[a] != memberList[b])
//@ ensures err == nil ==> (result <==> (forall j :: 0 <= j && j < len(memberList) ==> memberList[j] <= 20))
//@ loop 0: invariant forall j :: 0 <= j && j < #i ==> has(seen, memberList[j])
//@ loop 0: invariant forall x MemberID :: has(seen, x) ==> (exists j :: 0 <= j && j < #i && memberList[j] == x)
//@ loop 0: invariant forall a, b :: 0 <= a && a < b && b < #i ==> memberList[a] != memberList[b]
//@ loop 0: invariant optimizedable <==> (forall j :: 0 <= j && j < #i ==> memberList[j] <= 20)
//@ loop 0: invariant isInList <==> (exists j :: 0 <= j && j < #i && memberList[j] == mid)
// Lagrange coefficient of a member id within a set of ids. Its value is abstract (named for the callers); what is verified
// is the DISPATCH: the table routine is entered only with every id within the table (its precondition, below), every other
// accepted committee - any id above 20 - goes through the general routine.
//@ func computeLagrangeCoefficientOp
//@ requires mid <= 20 && (forall j :: 0 <= j && j < len(memberList) ==> memberList[j] <= 20)
//@ loop 0: invariant len(mids) == #i && (forall j :: 0 <= j && j < #i ==> mids[j] == memberList[j])
//@ func ComputeLagrangeCoefficient
//@ names result == absfn("ComputeLagrangeCoefficient#0", mid, memberList) && err == absfn("ComputeLagrangeCoefficient#1", mid, memberList)
//@ ensures err == nil ==> (exists j :: 0 <= j && j < len(memberList) && memberList[j] == mid)
//@ loop 0: invariant len(mids) == #i && (forall j :: 0 <= j && j < #i ==> mids[j] == wrap64(memberList[j]))
// group public nonce = sum of the assigned members' public nonces (curve arithmetic: abstract)
//@ func ComputeGroupPublicNonce
//@ abstract

// C03: the challenge is keccak over the fixed BAND-TSS preimage
//   context || 0x00 || "challenge" || 0x00 || address(R) || (parity byte of P + 25) || X(P) left-padded to 32 bytes || keccak(message)
// converted to a scalar. (keccak, address derivation, padding and scalar conversion are abstract functions; the
// clause pins which bytes are hashed, in which order, and that X(P) is padded to 32 bytes.)
//@ func HashChallenge
//@ pure
//@ ensures err == nil ==> result == absfn("NewScalar", absfn("Hash", bytes(ContextString), bzmk(0), bytes("challenge"), bzmk(0),
//@        ethAddr(rawGroupPubNonce), bzmk(wrapu8(rawGroupPubKey[0] + 25)),
//@        PaddingBytes(ext("big.Int.Bytes", ext("PublicKey.X", absfn("Point.publicKey", rawGroupPubKey))), 32),
//@        absfn("Hash", data)))
// a byte string that parses as a public key is a compressed (33-byte) or uncompressed (65-byte) encoding
//@ axiom pubKeyLen: forall p Point :: absfn("Point.publicKey#1", p) == nil ==> len(p) >= 33

// round-1 proofs of possession (Schnorr signatures over member id || DKG context || key): abstracted by predicates
//@ spec validOneTimeSig(mid Int, dkg Bz, sig Signature, pub Point) Bool uninterpreted
//@ func VerifyOneTimeSignature
//@ trusted
//@ ensures err == nil <==> validOneTimeSig(mid, dkgContext, signature, oneTimePub)
//@ spec validA0Sig(mid Int, dkg Bz, sig Signature, a0 Point) Bool uninterpreted
//@ func VerifyA0Signature
//@ trusted
//@ ensures err == nil <==> validA0Sig(mid, dkgContext, signature, a0Pub)

// ---- C03/C04: well-formedness of encoded values (parsing is curve code: abstract) ---------------------------------
// a well-formed signature is exactly 65 bytes: 33-byte compressed R followed by 32-byte S (schnorr.ParseSignature)
//@ spec sigParses(s Signature) Bool uninterpreted
//@ spec sigWellFormed(s Signature) Bool = len(s) == 65 && sigParses(s)
//@ func (s Signature) Validate
//@ trusted
//@ ensures err == nil <==> sigWellFormed(s)
//@ func (p Point) Validate
//@ trusted
//@ func (cs ComplaintSignature) Validate
//@ trusted

// C04: a list of encrypted shares is valid only if EVERY element is (48 bytes each)
//@ func (es EncSecretShares) Validate
//@ ensures err == nil ==> (forall j :: 0 <= j && j < len(es) ==> len(es[j]) == 48)
//@ loop 0: invariant err == nil && (forall j :: 0 <= j && j < #i ==> len(es[j]) == 48)
