//go:build verif

package tss

// Contracts for govc (see /verif/DESIGN.md). Comment-only file; compiled only under -tags verif.

// Cryptographic verification functions are abstracted by uninterpreted predicates (their bodies are
// not verified here; soundness of Schnorr/DLEQ is a cryptographic assumption, DESIGN §1).
//@ spec validOwnPubKeySig(mid Int, dkg []byte, sig Signature, pub Point) Bool uninterpreted
//@ func VerifyOwnPubKeySignature
//@ trusted
//@ ensures err == nil <==> validOwnPubKeySig(mid, dkgContext, signature, ownPub)

// Complaint verification (DLEQ proof + decrypt-and-compare against the dealer's commitments): abstracted.
//@ spec validComplaint(pubI Point, pubJ Point, keySym Point, sig ComplaintSignature, enc EncSecretShare, midI Int, commits Points) Bool uninterpreted
//@ func VerifyComplaint
//@ trusted
//@ ensures err == nil <==> validComplaint(oneTimePubI, oneTimePubJ, keySym, complaintSignature, encSecretShare, midI, commits)

// keccak256 of the concatenation of its arguments: abstract (uninterpreted hash)
//@ func Hash
//@ abstract
