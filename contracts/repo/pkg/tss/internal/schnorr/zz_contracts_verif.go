//go:build verif

package schnorr

// Contracts for govc (see /verif/DESIGN.md). Comment-only file; compiled only under -tags verif.

// C03: a (partial or group) signature verifies only if the point R = s*Gen - c*Q, brought to affine
// coordinates, has the SAME X, the SAME Y and the same Z as the expected nonce point (Gen = base point when
// no generator is given). Over the abstract group of contracts/assumed/secp256k1.spec.
//@ func Verify
//@ ensures err == nil && isnilptr(generator) ==>
//@     (let r = jAffine(jAdd(jBaseMul(signatureS), jMul(sNeg(challenge), jacOf(pubKey)))) in
//@        ext("FieldVal.Equals", expectR.X, r.X) && ext("FieldVal.Equals", expectR.Y, r.Y) && ext("FieldVal.Equals", expectR.Z, r.Z))
//@ ensures err == nil && !isnilptr(generator) ==>
//@     (let r = jAffine(jAdd(jMul(signatureS, generator), jMul(sNeg(challenge), jacOf(pubKey)))) in
//@        ext("FieldVal.Equals", expectR.X, r.X) && ext("FieldVal.Equals", expectR.Y, r.Y) && ext("FieldVal.Equals", expectR.Z, r.Z))
//@ ensures err == nil ==> expectR == jAffine(old(expectR))
