//go:build verif

package lagrange

// Contracts for govc (see /verif/DESIGN.md). Comment-only file; compiled only under -tags verif.

// C03: the general (table-free) Lagrange coefficient: the two products run over the integers - whatever their size, so
// committees with member ids above the table's range (20) and products beyond 2^63 are covered - and only the final
// quotient is reduced modulo the group order. (Modular inversion itself: abstract.)
//@ spec prodJ(s []int64, i Int, n Int) Int = n <= 0 ? 1 : (s[n-1] == i ? prodJ(s, i, n - 1) : prodJ(s, i, n - 1) * s[n-1])
//@ spec prodD(s []int64, i Int, n Int) Int = n <= 0 ? 1 : (s[n-1] == i ? prodD(s, i, n - 1) : prodD(s, i, n - 1) * wrap64(s[n-1] - i))
//@ func ComputeCoefficient
//@ loop 0: invariant numerator == prodJ(s, i, #i) && denominator == prodD(s, i, #i)
//@ assert before result: numerator == prodJ(s, i, len(s)) && denominator == prodD(s, i, len(s))

// the table routine: PRIME_FACTORS / PRECOMPUTED_POWERS are indexed by the ids and by |j - i|: every id must be within
// the table (1..20), otherwise it indexes out of range
//@ func ComputeCoefficientPreCompute
//@ trusted
//@ requires i <= 20 && (forall j :: 0 <= j && j < len(s) ==> s[j] <= 20)
