//go:build verif

package proof

// Contracts for govc (see /verif/DESIGN.md). Comment-only file; compiled only under -tags verif.

// amino-style field encoding: abstract (body is reflection/amino; the bridge contract uses the same bytes)
//@ func cdcEncode
//@ abstract

// C12: the five sub-tree hashes and the three raw fields returned for relaying are exactly the ones the
// bridge recombines into the block hash: (version, chain id) | height | time | (last block id, last commit
// hash, data hash, validators hash) | (NEXT validators hash, consensus hash) | app hash (separate) |
// (last results hash) | (evidence hash, proposer address), each group hashed as an RFC-6962 sub-tree of the
// amino-encoded header fields in this order.
//@ func GetBlockHeaderMerkleParts
//@ may_panic
//@ ensures result.Height == wrapu64(block.Height) && result.TimeSecond == wrapu64(block.Time.Unix()) && result.TimeNanoSecond == wrapu32(block.Time.Nanosecond())
//@ ensures result.VersionAndChainIdHash == ext("merkle.HashFromByteSlices", list(ext("Consensus.Marshal", block.Version), absfn("cdcEncode", block.ChainID)))
//@ ensures result.LastBlockIdAndOther == ext("merkle.HashFromByteSlices", list(ext("PBBlockID.Marshal", ext("BlockID.ToProto", block.LastBlockID)),
//@        absfn("cdcEncode", block.LastCommitHash), absfn("cdcEncode", block.DataHash), absfn("cdcEncode", block.ValidatorsHash)))
//@ ensures result.NextValidatorHashAndConsensusHash == ext("merkle.HashFromByteSlices", list(absfn("cdcEncode", block.NextValidatorsHash), absfn("cdcEncode", block.ConsensusHash)))
//@ ensures result.LastResultsHash == ext("merkle.HashFromByteSlices", list(absfn("cdcEncode", block.LastResultsHash)))
//@ ensures result.EvidenceAndProposerHash == ext("merkle.HashFromByteSlices", list(absfn("cdcEncode", block.EvidenceHash), absfn("cdcEncode", block.ProposerAddress)))

// C12: each inner step of the IAVL existence proof is decoded positionally: prefix = varint(height) ||
// varint(size) || varint(version) || [0x20 || left hash]; the three numbers are read one after the other
// (the third at offset n1+n2). Well-formedness of proofs produced by the node's own IAVL store is assumed
// (may_panic: a malformed prefix would panic in the slicing).
//@ spec vn(b Bz) Int = ext("binary.Varint#1", b)
//@ spec vv(b Bz) Int = ext("binary.Varint", b)
//@ spec off2(p Bz) Int = vn(p) + vn(bzslice(p, vn(p), len(p)))
//@ spec off3(p Bz) Int = off2(p) + vn(bzslice(p, off2(p), len(p)))
//@ func GetMerklePaths
//@ may_panic
//@ ensures len(result) == len(iavlEp.Path)
//@ ensures forall j :: 0 <= j && j < len(result) ==> result[j].SubtreeHeight == wrapu32(vv(iavlEp.Path[j].Prefix))
//@ ensures forall j :: 0 <= j && j < len(result) ==> result[j].SubtreeSize == wrapu64(vv(bzslice(iavlEp.Path[j].Prefix, vn(iavlEp.Path[j].Prefix), len(iavlEp.Path[j].Prefix))))
//@ ensures forall j :: 0 <= j && j < len(result) ==> result[j].SubtreeVersion == wrapu64(vv(bzslice(iavlEp.Path[j].Prefix, off2(iavlEp.Path[j].Prefix), len(iavlEp.Path[j].Prefix))))
// ... and on which side the proven subtree sits: the sibling hash is in the PREFIX (data on the right) exactly when the prefix
// is longer than the three varints plus the length byte; otherwise the sibling is in the suffix (data on the left)
//@ ensures forall j :: 0 <= j && j < len(result) ==> (result[j].IsDataOnRight <==> off3(iavlEp.Path[j].Prefix) + 1 != len(iavlEp.Path[j].Prefix))
//@ loop 0: invariant forall j :: 0 <= j && j < #i ==> (paths[j].IsDataOnRight <==> off3(iavlEp.Path[j].Prefix) + 1 != len(iavlEp.Path[j].Prefix))
//@ loop 0: invariant len(paths) == #i
//@ loop 0: invariant forall j :: 0 <= j && j < #i ==> paths[j].SubtreeHeight == wrapu32(vv(iavlEp.Path[j].Prefix))
//@ loop 0: invariant forall j :: 0 <= j && j < #i ==> paths[j].SubtreeSize == wrapu64(vv(bzslice(iavlEp.Path[j].Prefix, vn(iavlEp.Path[j].Prefix), len(iavlEp.Path[j].Prefix))))
//@ loop 0: invariant forall j :: 0 <= j && j < #i ==> paths[j].SubtreeVersion == wrapu64(vv(bzslice(iavlEp.Path[j].Prefix, off2(iavlEp.Path[j].Prefix), len(iavlEp.Path[j].Prefix))))

// secp256k1 public-key recovery (go-ethereum crypto): assumed
//@ func recoverETHAddress
//@ trusted
// varint and field-key encodings: abstract functions of their arguments
//@ func encodeUvarint
//@ pure
//@ trusted
//@ func encodeFieldNumberAndTyp3
//@ pure
//@ trusted
// C12: the canonical protobuf encoding of a timestamp that the validator signed: field 1 (seconds) only when the seconds
// are non-zero, field 2 (nanos) only when the NANOS are non-zero - each guard on its own field (a whole-second timestamp
// has no nanos field; encoding "nanos: 0" explicitly gives bytes the validator never signed)
//@ func encodeTime
//@ ensures (let b1 = (t.Unix() != 0 ? bzcat(bzcat(bzmk(), encodeFieldNumberAndTyp3(1, 0)), encodeUvarint(wrapu64(t.Unix()))) : bzmk()) in
//@         result == (t.Nanosecond() != 0 ? bzcat(bzcat(b1, encodeFieldNumberAndTyp3(2, 0)), encodeUvarint(t.Nanosecond())) : b1))
// C12: the result relayed to the bridge is the stored result, field by field (the bridge re-encodes it and hashes it as
// the IAVL leaf value: any swapped field changes the leaf hash)
//@ func transformResult
//@ ensures result.ClientID == r.ClientID && result.OracleScriptID == r.OracleScriptID && result.Params == r.Calldata && result.AskCount == r.AskCount
//@ ensures result.MinCount == r.MinCount && result.RequestID == r.RequestID && result.AnsCount == r.AnsCount
//@ ensures result.RequestTime == wrapu64(r.RequestTime) && result.ResolveTime == wrapu64(r.ResolveTime) && result.ResolveStatus == wrapu8(r.ResolveStatus) && result.Result == r.Result

// C12: the common prefix of what every validator signed. Assumed about gogoproto's delimited encoding of a canonical vote
// that has only type, height and round set: one length byte (the body is at most 33 bytes), the encoded type/height/round
// fields (voteBody, abstract: fields with value 0 are omitted), then the 13 bytes of the zero-time timestamp field.
// GetPrefix must return exactly voteBody - for every height and round, whatever bytes they contain.
//@ spec voteBody(t Int, h Int, r Int) Bz uninterpreted
//@ spec ts13() Bz = bzmk(42, 11, 8, 128, 146, 184, 195, 152, 254, 255, 255, 255, 1)
//@ extern github.com/cometbft/cometbft/libs/protoio.MarshalDelimited(msg) (result, err)
//@ ensures err == nil && typeis(msg, "*cmtproto.CanonicalVote") ==> (let v = unbox(msg, "*cmtproto.CanonicalVote") in
//@        len(voteBody(v.Type, v.Height, v.Round)) <= 20 && result == bzcat(bzcat(bzmk(len(voteBody(v.Type, v.Height, v.Round)) + 13), voteBody(v.Type, v.Height, v.Round)), ts13()))
//@ func GetPrefix
//@ ensures err == nil ==> len(result) == len(voteBody(t, height, round))
//@ ensures err == nil ==> (forall j :: 0 <= j && j < len(result) ==> result[j] == voteBody(t, height, round)[j])

// C12: signatures are taken from, and canonical vote bytes rebuilt for, exactly the precommits FOR THE BLOCK
// (BlockIDFlagCommit): absent and nil votes are skipped, they are neither relayed nor allowed to fail the proof;
// each relayed signature is the vote's own (r = first 32 bytes, s = the rest) with its own encoded timestamp.
// The relayed signatures are ordered by the address recovered from them, ascending (the bridge walks them in that order
// and rejects a proof whose signers do not ascend): the i-th relayed signature is the one recorded under the i-th
// address of the sorted address list.
//@ func GetSignaturesAndPrefix
//@ may_panic
//@ assert before encodedTimestamp: vote.BlockIDFlag == cmttypes.BlockIDFlagCommit
//@ assert at lastreturn: len(signatures) == len(addrs) && (forall i :: 0 <= i && i < len(signatures) ==> signatures[i] == (has(mapAddrs, addrs[i]) ? mapAddrs[addrs[i]] : zero(TMSignature)))
//@ assert at lastreturn: (forall i Int, j Int :: 0 <= i && i < j && j < len(addrs) ==> !(addrs[j] < addrs[i]))
//@ loop 1: invariant len(signatures) == len(addrs) && (forall j :: 0 <= j && j < #i ==> signatures[j] == (has(mapAddrs, addrs[j]) ? mapAddrs[addrs[j]] : zero(TMSignature)))
//@ loop 1: invariant forall i Int, j Int :: 0 <= i && i < j && j < len(addrs) ==> !(addrs[j] < addrs[i])
//@ loop 0: invariant true
//@ loop 1: invariant true
// (an element that is skipped is skipped alone: no break ends the visit of the rest)
//@ loop 0: exhaustive

// ---- C12: the service functions put the pieces together -----------------------------------------------------------------
// The header of block H carries the app hash that results from block H-1: a value proven against block H's header must be
// read - with its IAVL and multistore proofs - at height H-1, the height just below the commit that signs the header.
// CommitHeight: height of the commit the node returned last (RPC: assumed).
//@ ghost CommitHeight Int
//@ extern (c github.com/cosmos/cosmos-sdk/client.CometRPC) Commit(ctx, height) (result, err)
//@ modifies CommitHeight
//@ ensures err == nil ==> result.SignedHeader.Header.Height == CommitHeight && CommitHeight >= 1
// ProofKey: the store key the last value-with-proofs query was made for
//@ ghost ProofKey []byte
//@ func getProofsByKey
//@ trusted
//@ modifies ProofKey
//@ requires queryOptions.Height == CommitHeight - 1 && queryOptions.Prove
//@ ensures ProofKey == key
//@ func GetMultiStoreProof
//@ trusted
//@ func decodeIAVLLeafPrefix
//@ trusted
//@ func (blockRelay *BlockRelayProof) encodeToEthData
//@ trusted
//@ func (o *OracleDataProof) encodeToEthData
//@ trusted
//@ func (o *RequestsCountProof) encodeToEthData
//@ trusted
// the request count is stored by the oracle keeper as 8 big-endian bytes (sdk.Uint64ToBigEndian); the proof reports that
// number, read the same way
//@ func (s proofServer) RequestCountProof
//@ modifies CommitHeight, ProofKey
//@ may_panic
//@ assert after rs: rs == u64of(value)
//@ assert after requestsCountProof: requestsCountProof.Count == u64of(value)
// the value proven is the oracle module's request counter, and the proof is labelled with the height of the block whose
// header (and signatures) it carries
//@ ensures err == nil ==> ProofKey == oracletypes.RequestCountStoreKey && result.Result.Proof.BlockHeight == CommitHeight
// one result proof: the value proven is the stored result of the request asked for, decoded as a Result
//@ func (s proofServer) Proof
//@ modifies CommitHeight, ProofKey
//@ may_panic
//@ assert after oracleData: oracleData.Result == dec(oracletypes.Result, value)
//@ ensures err == nil ==> ProofKey == oracletypes.ResultStoreKey(req.RequestId) && result.Result.Proof.BlockHeight == CommitHeight
//@ extern encoding/json.Unmarshal(data, v) (err)
//@ modifies v
// several result proofs under one header: every value is read at the same height, the one below the commit
//@ func (s proofServer) MultiProof
//@ modifies CommitHeight, ProofKey
//@ may_panic
//@ ensures err == nil ==> result.Result.Proof.BlockHeight == CommitHeight
//@ loop 0: invariant commit.SignedHeader.Header.Height == CommitHeight && CommitHeight >= 1
