//go:build verif

package executor

// Contracts for govc (see /verif/DESIGN.md). Comment-only file; compiled only under -tags verif.
// Executing a data source is external (subprocess / REST call): assumed to return any result or an error.
//@ func (e Executor) Exec
//@ trusted
