//go:build verif

package yoda

// Contracts for govc (see /verif/DESIGN.md). Comment-only file; compiled only under -tags verif.

// RPC query with retries: assumed to return a non-nil result or an error (network I/O is external).
//@ func abciQuery
//@ trusted

// C19: fetching a data source executable never panics, whatever bytes the cache or the chain returns
// (executables of a few bytes are legal on chain).
//@ func GetExecutable
//@ ensures true
