//go:build verif

package yoda

// Contracts for govc (see /verif/DESIGN.md). Comment-only file; compiled only under -tags verif.

// C19: the query is retried up to max-try times; it fails only if every attempt failed, and it succeeds
// exactly when the last attempt it made succeeded (a successful retry is not reported as an error).
//@ func abciQuery
//@ modifies RPCok, RPCValue
// the answer handed to the caller is the node's answer to the attempt that succeeded
//@ ensures 0 < c.maxTry && c.maxTry <= MaxInt64 && err == nil ==> result.Response.Value == RPCValue
//@ ensures (c.maxTry > 0 && RPCok) ==> err == nil
//@ ensures (0 < c.maxTry && c.maxTry <= MaxInt64 && err == nil) ==> RPCok
//@ loop 0: invariant try >= 0 && (try > 0 ==> !RPCok && lastErr != nil) && (try == 0 ==> lastErr == nil)

// C19: fetching a data source executable never panics, whatever bytes the cache or the chain returns
// (executables of a few bytes are legal on chain).
//@ func GetExecutable
//@ modifies RPCok, RPCValue
//@ ensures true

// ghost: number of values sent on channels by the function under contract, and the last value sent
//@ ghost ChanSent Int
//@ ghost ChanLast processingResult
//@ ghost ChanRecv Int
//@ ghost ChanLastMsg ReportMsgWithKey

// C19: one raw request yields exactly one result on the channel, carrying the raw request's external id;
// exit code 255 when the executable cannot be loaded, the verification message cannot be signed or the
// executor fails, otherwise the executor's exit code and output.
//@ func handleRawRequest
//@ modifies ChanSent, ChanLast, RPCok, RPCValue
//@ ensures ChanSent == old(ChanSent) + 1
//@ ensures ChanLast.rawReport.ExternalID == req.externalID
//@ ensures ChanLast.err != nil ==> ChanLast.rawReport.ExitCode == 255

// C19: one worker is spawned per raw request and exactly one result is collected per raw request: the report
// carries as many raw reports as the request has raw requests - failed ones included (with exit code 255) - and
// the collector never waits for a result that no worker sends.
//@ func handleRawRequests
//@ modifies ChanSent, ChanLast, ChanRecv, RPCok, RPCValue
//@ requires ChanRecv <= ChanSent
//@ ensures len(reports) == len(reqs)
//@ ensures ChanSent - ChanRecv == old(ChanSent) - old(ChanRecv)
//@ loop 0: invariant ChanSent == old(ChanSent) + #i && ChanRecv == old(ChanRecv)
//@ loop 1: invariant len(reports) == #i && ChanRecv == old(ChanRecv) + #i && ChanSent == old(ChanSent) + len(reqs)
//@ loop 2: invariant len(reports) == len(reqs) && ChanSent - ChanRecv == old(ChanSent) - old(ChanRecv)

// what the chain returns for a request id / a data source id (RPC: assumed)
//@ spec chainRequest(id Int) types.Request uninterpreted
//@ func GetRequest
//@ trusted
//@ modifies RPCok, RPCValue
//@ ensures err == nil ==> result == chainRequest(id)
// the executable of a data source is looked up (cache, then chain) by the FILE NAME stored in the data source record -
// the hash of the executable - not by any other string field of the record (name, description are free text)
//@ func GetDataSourceHash
//@ modifies RPCok, RPCValue
// (max-try is a positive flag value; with 0 tries there is no answer at all)
//@ ensures 0 < c.maxTry && c.maxTry <= MaxInt64 && err == nil ==> result == dec(types.DataSource, RPCValue).Filename
// C19 "never crashes on a request": the key a handler signs with is always one of the configured keys, whatever other
// handlers do to the shared round-robin counter at the same time (thread-modular: between any two of this goroutine's
// steps the counter may have been advanced by others; it starts at -1 and only grows)
//@ func (c *Context) nextKeyIndex
//@ modifies c
//@ requires len(c.keys) > 0 && c.keyRoundRobinIndex >= -1
//@ ensures 0 <= result && result < len(c.keys)
//@ ensures c == with(old(c), "keyRoundRobinIndex", c.keyRoundRobinIndex) && c.keyRoundRobinIndex >= old(c.keyRoundRobinIndex)

// C19: a request that does not list this validator is skipped without queuing anything; otherwise AT MOST one
// report is queued, and the queued report is for this request id, from this validator, with exactly one raw
// report per raw request of the request.
// call history: how many handlers were started for which request id (bookkeeping at the call sites, see `counts`)
//@ ghost Count_handleRequest map[uint64]int
//@ func handleRequest
//@ counts id
//@ modifies ChanSent, ChanLast, ChanRecv, ChanLastMsg, RPCok, RPCValue
//@ requires ChanRecv <= ChanSent && len(c.keys) > 0 && c.keyRoundRobinIndex >= -1
//@ ensures (ChanSent - ChanRecv) - (old(ChanSent) - old(ChanRecv)) == 0 || (ChanSent - ChanRecv) - (old(ChanSent) - old(ChanRecv)) == 1
//@ ensures !(exists j :: 0 <= j && j < len(chainRequest(id).RequestedValidators) && chainRequest(id).RequestedValidators[j] == addrstr(c.validator)) ==> ChanSent == old(ChanSent)
//@ ensures (ChanSent - ChanRecv) - (old(ChanSent) - old(ChanRecv)) == 1 ==> ChanLastMsg.msg.RequestID == id && ChanLastMsg.msg.Validator == addrstr(c.validator) && len(ChanLastMsg.msg.RawReports) == len(chainRequest(id).RawRequests)
//@ loop 0: invariant !hasMe && (forall j :: 0 <= j && j < #i ==> chainRequest(id).RequestedValidators[j] != addrstr(c.validator))
//@ loop 1: invariant len(rawRequests) == #i && ChanSent == old(ChanSent) && ChanRecv == old(ChanRecv)

// C19: the request ids yoda acts on are ALL the values of the wanted attribute in ALL events of the wanted type (a
// transaction may carry several oracle requests: each of them must reach its handler), and nothing else
//@ func GetEventValues
//@ ensures forall i, j :: 0 <= i && i < len(events) && events[i].Type == evType && 0 <= j && j < len(events[i].Attributes) && events[i].Attributes[j].Key == evKey
//@        ==> (exists k :: 0 <= k && k < len(res) && res[k] == events[i].Attributes[j].Value)
//@ ensures forall k :: 0 <= k && k < len(res) ==> (exists i, j :: 0 <= i && i < len(events) && events[i].Type == evType && 0 <= j && j < len(events[i].Attributes) && events[i].Attributes[j].Key == evKey && res[k] == events[i].Attributes[j].Value)
//@ loop 0: invariant forall i, j :: 0 <= i && i < #i && events[i].Type == evType && 0 <= j && j < len(events[i].Attributes) && events[i].Attributes[j].Key == evKey
//@        ==> (exists k :: 0 <= k && k < len(res) && res[k] == events[i].Attributes[j].Value)
//@ loop 0: invariant forall k :: 0 <= k && k < len(res) ==> (exists i, j :: 0 <= i && i < #i && events[i].Type == evType && 0 <= j && j < len(events[i].Attributes) && events[i].Attributes[j].Key == evKey && res[k] == events[i].Attributes[j].Value)
//@ loop 1: invariant forall i, j :: 0 <= i && i < #i_out && events[i].Type == evType && 0 <= j && j < len(events[i].Attributes) && events[i].Attributes[j].Key == evKey
//@        ==> (exists k :: 0 <= k && k < len(res) && res[k] == events[i].Attributes[j].Value)
//@ loop 1: invariant forall j :: 0 <= j && j < #i && events[#i_out].Attributes[j].Key == evKey ==> (exists k :: 0 <= k && k < len(res) && res[k] == events[#i_out].Attributes[j].Value)
//@ loop 1: invariant forall k :: 0 <= k && k < len(res) ==> (exists i, j :: 0 <= i && i <= #i_out && events[i].Type == evType && 0 <= j && j < len(events[i].Attributes) && (i < #i_out || j < #i) && events[i].Attributes[j].Key == evKey && res[k] == events[i].Attributes[j].Value)
//@ loop 1: invariant events[#i_out].Type == evType
// (an element that is skipped is skipped alone: no break ends the visit of the rest)
//@ loop 0: exhaustive

// C19: a transaction's request events start one handler per request id - but never for a request that is already in the
// pending set (at start-up yoda subscribes to new transactions BEFORE it sweeps the requests already pending on chain: a
// request seen by both must be reported once, by the sweep)
//@ func handleTransaction
//@ modifies ChanSent, ChanLast, ChanRecv, ChanLastMsg, RPCok, RPCValue, Count_handleRequest
//@ requires ChanRecv <= ChanSent && len(c.keys) > 0 && c.keyRoundRobinIndex >= -1
//@ ensures forall r Int :: has(c.pendingRequests, r) && c.pendingRequests[r] ==> Count_handleRequest[r] == old(Count_handleRequest)[r]
//@ loop 0: invariant ChanRecv <= ChanSent && c.keyRoundRobinIndex >= -1 && len(c.keys) > 0
//@ loop 0: invariant forall r Int :: has(c.pendingRequests, r) && c.pendingRequests[r] ==> Count_handleRequest[r] == old(Count_handleRequest)[r]
