//go:build verif

package yoda

// Contracts for govc (see /verif/DESIGN.md). Comment-only file; compiled only under -tags verif.

// C19: the query is retried up to max-try times; it fails only if every attempt failed, and it succeeds
// exactly when the last attempt it made succeeded (a successful retry is not reported as an error).
//@ func abciQuery
//@ modifies RPCok
//@ ensures (c.maxTry > 0 && RPCok) ==> err == nil
//@ ensures (0 < c.maxTry && c.maxTry <= MaxInt64 && err == nil) ==> RPCok
//@ loop 0: invariant try >= 0 && (try > 0 ==> !RPCok && lastErr != nil) && (try == 0 ==> lastErr == nil)

// C19: fetching a data source executable never panics, whatever bytes the cache or the chain returns
// (executables of a few bytes are legal on chain).
//@ func GetExecutable
//@ modifies RPCok
//@ ensures true

// ghost: number of values sent on channels by the function under contract, and the last value sent
//@ ghost ChanSent Int
//@ ghost ChanLast processingResult

// C19: one raw request yields exactly one result on the channel, carrying the raw request's external id;
// exit code 255 when the executable cannot be loaded, the verification message cannot be signed or the
// executor fails, otherwise the executor's exit code and output.
//@ func handleRawRequest
//@ modifies ChanSent, ChanLast, RPCok
//@ ensures ChanSent == old(ChanSent) + 1
//@ ensures ChanLast.rawReport.ExternalID == req.externalID
//@ ensures ChanLast.err != nil ==> ChanLast.rawReport.ExitCode == 255
