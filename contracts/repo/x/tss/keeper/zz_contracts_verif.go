//go:build verif

package keeper

// Contracts for govc (see /verif/DESIGN.md). Comment-only file; compiled only under -tags verif.

// ---- views of the tss store ------------------------------------------------------------------
//@ spec DEQ(s Store, a Addr) types.DEQueue = has(s, types.DEQueueStoreKey(a)) ? dec(types.DEQueue, s[types.DEQueueStoreKey(a)]) : types.DEQueue{0, 0}
//@ spec hasDE(s Store, a Addr, i Int) Bool = has(s, types.DEStoreKey(a, i))
//@ spec DEat(s Store, a Addr, i Int) types.DE = dec(types.DE, s[types.DEStoreKey(a, i)])
// queue well-formedness for one address: entries present exactly in [Head, Tail)
//@ spec wfDE(s Store, a Addr) Bool = DEQ(s, a).Head <= DEQ(s, a).Tail
//@      && (forall i :: { hasDE(s, a, i) | types.DEStoreKey(a, i) } inUint64(i) ==> (hasDE(s, a, i) <==> (DEQ(s, a).Head <= i && i < DEQ(s, a).Tail)))

// C05: DequeueDE returns the head of the queue, removes exactly that entry and advances Head;
// everything else in the store is untouched (the postcondition gives the whole new store).
//@ func (k Keeper) DequeueDE
//@ modifies Store_tss
//@ requires wfDE(Store_tss, address)
//@ ensures  err == nil <==> old(DEQ(Store_tss, address).Head < DEQ(Store_tss, address).Tail)
//@ ensures  err == nil ==> result == old(DEat(Store_tss, address, DEQ(Store_tss, address).Head))
//@ ensures  err == nil ==> Store_tss == store(remove(old(Store_tss), types.DEStoreKey(address, old(DEQ(Store_tss, address).Head))),
//@                                        types.DEQueueStoreKey(address),
//@                                        enc(types.DEQueue{old(DEQ(Store_tss, address).Head) + 1, old(DEQ(Store_tss, address).Tail)}))
//@ ensures  err != nil ==> Store_tss == old(Store_tss)
//@ ensures  err == nil ==> wfDE(Store_tss, address)

// ---- C04: round-3 confirmation ------------------------------------------------------------------
//@ spec groupAt(s Store, g Int) types.Group = dec(types.Group, s[types.GroupStoreKey(g)])
//@ spec memberAt(s Store, g Int, m Int) types.Member = dec(types.Member, s[types.MemberStoreKey(g, m)])
//@ spec ccCount(s Store, g Int) Int = u64of(s[types.ConfirmComplainCountStoreKey(g)])

// A confirmation is accepted only in round 3, only from the registered address of that member id, only
// once per member (neither a confirm nor a complaint already recorded) and only with a valid own-key
// signature; it records the confirm and bumps the counter by exactly one; a rejection changes nothing.
//@ func (k msgServer) Confirm
//@ modifies Store_tss
//@ ensures err == nil ==> old(has(Store_tss, types.GroupStoreKey(req.GroupID))) && old(groupAt(Store_tss, req.GroupID)).Status == types.GROUP_STATUS_ROUND_3
//@ ensures err == nil ==> old(has(Store_tss, types.MemberStoreKey(req.GroupID, req.MemberID))) && old(memberAt(Store_tss, req.GroupID, req.MemberID)).Address == req.Sender
//@ ensures err == nil ==> !old(has(Store_tss, types.ConfirmStoreKey(req.GroupID, req.MemberID)))
//@ ensures err == nil ==> !old(has(Store_tss, types.ComplainsWithStatusStoreKey(req.GroupID, req.MemberID)))
//@ ensures err == nil ==> has(Store_tss, types.ConfirmStoreKey(req.GroupID, req.MemberID))
//@ ensures err == nil && old(ccCount(Store_tss, req.GroupID)) < MaxUint64 ==> ccCount(Store_tss, req.GroupID) == old(ccCount(Store_tss, req.GroupID)) + 1
//@ ensures err != nil ==> Store_tss == old(Store_tss)
// C18 / C04: the group is queued for the end of round 3 only when EVERY member has answered (confirm/complain count ==
// group size, not threshold): until then the queue is left alone
//@ ensures err == nil && ccCount(Store_tss, req.GroupID) != old(groupAt(Store_tss, req.GroupID)).Size_ ==> Store_tss[types.PendingProcessGroupsStoreKey] == old(Store_tss)[types.PendingProcessGroupsStoreKey]

// ---- C04: round-2 submission ----------------------------------------------------------------------
//@ spec r2Count(s Store, g Int) Int = u64of(s[types.Round2InfoCountStoreKey(g)])

// accumulated commits of a group (iterator loop over the store; what it returns is not modelled)
//@ spec accCommitsOf(s Store, g Int) tss.Points uninterpreted
//@ func (k Keeper) GetAllAccumulatedCommits
//@ trusted
//@ ensures result == accCommitsOf(Store_tss, groupID)

// the member's public key is replaced, nothing else in the record and nothing else in the store; a failure
// (key computation or unknown member) happens before any write
// store invariant: the member record filed under (group, id) carries that group and id (SetMember files a record
// under its own GroupID/ID)
//@ spec wfMember(s Store, g Int, m Int) Bool = has(s, types.MemberStoreKey(g, m)) ==> (memberAt(s, g, m).GroupID == g && memberAt(s, g, m).ID == m)
//@ func (k Keeper) UpdateMemberPubKey
//@ modifies Store_tss
//@ requires wfMember(Store_tss, groupID, memberID)
//@ ensures err != nil ==> Store_tss == old(Store_tss)
//@ ensures err == nil ==> old(has(Store_tss, types.MemberStoreKey(groupID, memberID)))
//@ ensures err == nil ==> Store_tss == store(old(Store_tss), types.MemberStoreKey(groupID, memberID), enc(with(old(memberAt(Store_tss, groupID, memberID)), "PubKey", memberAt(Store_tss, groupID, memberID).PubKey)))
//@ ensures err == nil ==> memberAt(Store_tss, groupID, memberID).PubKey == absfn("tss.ComputeOwnPublicKey#0", old(accCommitsOf(Store_tss, groupID)), memberID)

// A round-2 submission is accepted only in round 2, only from the registered address of that member id, only
// once per member, and only when it carries exactly one encrypted share for every OTHER member (size - 1:
// a dealer that withholds a share must be rejected here, otherwise its victim cannot complain successfully);
// it records exactly the submitted info and bumps the counter by one; a rejection changes nothing.
//@ func (k msgServer) SubmitDKGRound2
//@ modifies Store_tss
//@ requires wfMember(Store_tss, req.GroupID, req.Round2Info.MemberID)
//@ ensures err == nil ==> old(has(Store_tss, types.GroupStoreKey(req.GroupID))) && old(groupAt(Store_tss, req.GroupID)).Status == types.GROUP_STATUS_ROUND_2
//@ ensures err == nil ==> old(has(Store_tss, types.MemberStoreKey(req.GroupID, req.Round2Info.MemberID))) && old(memberAt(Store_tss, req.GroupID, req.Round2Info.MemberID)).Address == req.Sender
//@ ensures err == nil ==> !old(has(Store_tss, types.Round2InfoStoreKey(req.GroupID, req.Round2Info.MemberID)))
//@ ensures err == nil ==> len(req.Round2Info.EncryptedSecretShares) + 1 == old(groupAt(Store_tss, req.GroupID)).Size_
//@ ensures err == nil ==> has(Store_tss, types.Round2InfoStoreKey(req.GroupID, req.Round2Info.MemberID)) && dec(types.Round2Info, Store_tss[types.Round2InfoStoreKey(req.GroupID, req.Round2Info.MemberID)]) == req.Round2Info
//@ ensures err == nil && old(r2Count(Store_tss, req.GroupID)) < MaxUint64 ==> r2Count(Store_tss, req.GroupID) == old(r2Count(Store_tss, req.GroupID)) + 1
//@ ensures err != nil ==> Store_tss == old(Store_tss)

//@ spec tssParams(s Store) types.Params = has(s, types.ParamsKey) ? dec(types.Params, s[types.ParamsKey]) : zero(types.Params)

// C05: a submission that would raise the queued count above MaxDESize is rejected without effect;
// an accepted one appends exactly the submitted DEs, in order, after the current tail, and touches no
// other key of the store.
//@ func (k Keeper) EnqueueDEs
//@ modifies Store_tss
//@ requires wfDE(Store_tss, address)
//@ requires DEQ(Store_tss, address).Tail + len(des) <= MaxUint64
//@ ensures  err == nil <==> old(DEQ(Store_tss, address).Tail - DEQ(Store_tss, address).Head) + len(des) <= old(tssParams(Store_tss)).MaxDESize
//@ ensures  err != nil ==> Store_tss == old(Store_tss)
//@ ensures  err == nil ==> DEQ(Store_tss, address) == types.DEQueue{old(DEQ(Store_tss, address).Head), old(DEQ(Store_tss, address).Tail) + len(des)}
//@ ensures  err == nil ==> (forall j :: 0 <= j && j < len(des) ==> DEat(Store_tss, address, old(DEQ(Store_tss, address).Tail) + j) == des[j])
//@ ensures  err == nil ==> wfDE(Store_tss, address)
//@ ensures  err == nil ==> (forall q Bz :: q != types.DEQueueStoreKey(address)
//@               && !(iskey(types.DEStoreKey, q) && keyarg(types.DEStoreKey, q, 0) == address
//@                    && old(DEQ(Store_tss, address).Tail) <= keyarg(types.DEStoreKey, q, 1)
//@                    && keyarg(types.DEStoreKey, q, 1) < old(DEQ(Store_tss, address).Tail) + len(des))
//@               ==> Store_tss[q] == old(Store_tss)[q])
//@ loop 0: invariant forall q Bz :: { Store_tss[q] } Store_tss[q] ==
//@               ((iskey(types.DEStoreKey, q) && keyarg(types.DEStoreKey, q, 0) == address
//@                 && deQueue.Tail <= keyarg(types.DEStoreKey, q, 1) && keyarg(types.DEStoreKey, q, 1) < deQueue.Tail + #i)
//@                ? enc(des[keyarg(types.DEStoreKey, q, 1) - deQueue.Tail]) : old(Store_tss)[q])

// ---- C10 / C03 / C05: end-block handling of signings ---------------------------------------------------
//@ spec signingAt(s Store, id Int) types.Signing = dec(types.Signing, s[types.SigningStoreKey(id)])
//@ spec attemptAt(s Store, id Int, n Int) types.SigningAttempt = dec(types.SigningAttempt, s[types.SigningAttemptStoreKey(id, n)])
//@ spec psigCount(s Store, id Int, n Int) Int = u64of(s[types.PartialSignatureCountStoreKey(id, n)])
//@ spec pendingSids(s Store) []tss.SigningID = len(s[types.PendingSigningsStoreKey]) == 0 ? zero("[]tss.SigningID") : dec(types.PendingProcessSignings, s[types.PendingSigningsStoreKey]).SigningIDs
// a signing is ready for aggregation: it exists and every member assigned in its current attempt has
// submitted (interim data of that attempt is still in the store)
//@ spec readySigning(s Store, id Int) Bool = has(s, types.SigningStoreKey(id)) && signingAt(s, id).ID == id
//@      && has(s, types.SigningAttemptStoreKey(id, signingAt(s, id).CurrentAttempt))
//@      && psigCount(s, id, signingAt(s, id).CurrentAttempt) == len(attemptAt(s, id, signingAt(s, id).CurrentAttempt).AssignedMembers)
// store invariant of the pending list: duplicate-free, every entry ready
//@ spec wfPending(s Store) Bool = (forall i :: 0 <= i && i < len(pendingSids(s)) ==> readySigning(s, pendingSids(s)[i]))
//@      && (forall i, j :: 0 <= i && i < j && j < len(pendingSids(s)) ==> pendingSids(s)[i] != pendingSids(s)[j])

// Aggregation is to be run on a signing whose current attempt is complete and still has its interim
// data; it touches only that signing's record (plus the owner's callback) and nothing on failure.
// store invariant: a signing is filed under its own id and its group exists
//@ spec wfSignings(s Store) Bool = tssParams(s).MaxSigningAttempt <= MaxInt64 && tssParams(s).SigningPeriod <= MaxInt64 && (forall id Int :: has(s, types.SigningStoreKey(id)) ==> (signingAt(s, id).ID == id && has(s, types.GroupStoreKey(signingAt(s, id).GroupID)) && signingAt(s, id).CurrentAttempt < MaxUint64))
//@ spec partialSigsOf(s Store, id Int, n Int) tss.Signatures uninterpreted
//@ func (k Keeper) GetPartialSignatures
//@ trusted
//@ ensures result == partialSigsOf(Store_tss, signingID, attempt)
// the accounts assigned to the current attempt of a signing (decode loop: abstract)
//@ spec assignedAddrs(s Store, id Int) []sdk.AccAddress uninterpreted
//@ func (k Keeper) MustGetCurrentAssignedMembers
//@ trusted
//@ ensures result == assignedAddrs(Store_tss, signingID)
//@ requires has(Store_tss, types.SigningStoreKey(signingID)) && has(Store_tss, types.SigningAttemptStoreKey(signingID, signingAt(Store_tss, signingID).CurrentAttempt))
// C03: the stored group signature is the COMBINATION of the partial signatures of the current attempt, and it is
// stored - with status SUCCESS - only if it verifies under the signing's group public key for the signing's message;
// otherwise nothing changes at all. Only this signing's record is written.
//@ func (k Keeper) AggregatePartialSignatures
//@ modifies Store_tss, Other, Bank, Count_OnSigningCompleted, CompletedWith
// C13: when the owner module is told the signing is complete, it is told THIS signing and handed the members ASSIGNED to its
// current attempt (the ones to be paid) - not, say, the members that have not submitted, of which there are none by now
//@ ensures forall id Int :: Count_OnSigningCompleted[id] != old(Count_OnSigningCompleted)[id] ==> id == signingID && err == nil && CompletedWith == assignedAddrs(Store_tss, signingID)
//@ requires readySigning(Store_tss, signingID) && wfSignings(Store_tss)
//@ ensures  wfSignings(Store_tss)
//@ ensures  forall q Bz :: q != types.SigningStoreKey(signingID) ==> Store_tss[q] == old(Store_tss)[q]
//@ ensures  err != nil ==> Store_tss == old(Store_tss) && Other == old(Other) && Bank == old(Bank)
//@ ensures  err == nil ==> (let sg = old(signingAt(Store_tss, signingID)) in let sig = absfn("tss.CombineSignatures#0", old(partialSigsOf(Store_tss, signingID, signingAt(Store_tss, signingID).CurrentAttempt))) in
//@        tss.validGroupSig(sg.GroupPubKey, sg.Message, sig)
//@        && Store_tss[types.SigningStoreKey(signingID)] == enc(with(with(sg, "Signature", sig), "Status", types.SIGNING_STATUS_SUCCESS)))
//@ ensures  err == nil ==> signingAt(Store_tss, signingID).Status == types.SIGNING_STATUS_SUCCESS

// protobuf: a message whose only field is a repeated one encodes to zero bytes exactly when the list is empty
//@ axiom expEnc: forall x types.SigningExpirations :: (len(enc(x)) == 0) <==> (len(x.SigningExpirations) == 0)
// the queue of signing expirations, in the order the attempts were started
//@ spec expirations(s Store) []types.SigningExpiration = len(s[types.SigningExpirationsStoreKey]) == 0 ? zero("[]types.SigningExpiration") : dec(types.SigningExpirations, s[types.SigningExpirationsStoreKey]).SigningExpirations

// C10: the members of an attempt that have not submitted their share: exactly the assigned members without a stored
// partial signature for (signing, attempt), by address
//@ func (k Keeper) GetMembersNotSubmitSignature
//@ may_panic calls
//@ unfold
//@ ensures forall j :: 0 <= j && j < len(result) ==> (exists i :: 0 <= i && i < len(attemptAt(Store_tss, signingID, attempt).AssignedMembers)
//@        && result[j] == bech32addr(attemptAt(Store_tss, signingID, attempt).AssignedMembers[i].Address)
//@        && !has(Store_tss, types.PartialSignatureStoreKey(signingID, attempt, attemptAt(Store_tss, signingID, attempt).AssignedMembers[i].MemberID)))
//@ ensures forall i :: 0 <= i && i < len(attemptAt(Store_tss, signingID, attempt).AssignedMembers)
//@        && !has(Store_tss, types.PartialSignatureStoreKey(signingID, attempt, attemptAt(Store_tss, signingID, attempt).AssignedMembers[i].MemberID))
//@        ==> (exists j :: 0 <= j && j < len(result) && result[j] == bech32addr(attemptAt(Store_tss, signingID, attempt).AssignedMembers[i].Address))
//@ loop 0: invariant forall j :: 0 <= j && j < len(memberAddrs) ==> (exists i :: 0 <= i && i < #i
//@        && memberAddrs[j] == bech32addr(signingAttempt.AssignedMembers[i].Address)
//@        && !has(Store_tss, types.PartialSignatureStoreKey(signingID, attempt, signingAttempt.AssignedMembers[i].MemberID)))
//@ loop 0: invariant forall i :: 0 <= i && i < #i
//@        && !has(Store_tss, types.PartialSignatureStoreKey(signingID, attempt, signingAttempt.AssignedMembers[i].MemberID))
//@        ==> (exists j :: 0 <= j && j < len(memberAddrs) && memberAddrs[j] == bech32addr(signingAttempt.AssignedMembers[i].Address))

// interim data of one attempt: its partial signatures (iterator deletions), their count and the attempt record
// (verified body: the prefix-iterator loop deletes every record below the attempt's prefix and nothing else)
//@ func (k Keeper) DeletePartialSignatures
//@ modifies Store_tss
//@ ensures forall q Bz :: !iskey(types.PartialSignatureStoreKey, q) ==> Store_tss[q] == old(Store_tss)[q]
//@ ensures forall q Bz :: !hasprefix(q, types.PartialSignaturesStoreKey(signingID, attempt)) ==> Store_tss[q] == old(Store_tss)[q]
//@ ensures forall q Bz :: hasprefix(q, types.PartialSignaturesStoreKey(signingID, attempt)) ==> !has(Store_tss, q)
//@ loop 0: invariant 0 <= itpos(iterator) && itpos(iterator) <= itlen(iterator)
//@ loop 0: invariant forall q Bz :: !hasprefix(q, prefixKey) ==> Store_tss[q] == old(Store_tss)[q]
//@ loop 0: invariant forall q Bz :: Store_tss[q] == old(Store_tss)[q] || !has(Store_tss, q)
//@ loop 0: invariant forall j :: 0 <= j && j < itpos(iterator) ==> !has(Store_tss, itkey(iterator, j))

// C10: expiry processing. The queue of expirations is consumed strictly from the front: what remains is exactly the old
// queue without a processed prefix; processing stops at the first attempt that has not reached its expiry height; the
// interim data of every processed attempt is gone; every signing handed back for a retry is one of the processed
// entries, and it is handed back only because shares were missing (then its owner's time-out callback has been run
// with the members that did not submit). Signing and group records, parameters and the pending list are not touched.
//@ func (k Keeper) HandleExpiredSignings
//@ may_panic calls
//@ modifies Store_tss, Other, Bank
//@ ensures  Store_tss[types.PendingSigningsStoreKey] == old(Store_tss)[types.PendingSigningsStoreKey]
//@ ensures  forall id Int :: Store_tss[types.SigningStoreKey(id)] == old(Store_tss)[types.SigningStoreKey(id)]
//@ ensures  forall g Int :: Store_tss[types.GroupStoreKey(g)] == old(Store_tss)[types.GroupStoreKey(g)]
//@ ensures  Store_tss[types.ParamsKey] == old(Store_tss)[types.ParamsKey]
//@ ensures  forall j :: 0 <= j && j < len(result) ==> has(Store_tss, types.SigningStoreKey(result[j]))
//@ ensures  (let n = len(old(expirations(Store_tss))) - len(expirations(Store_tss)) in 0 <= n && n <= len(old(expirations(Store_tss)))
//@        && (forall j :: 0 <= j && j < len(expirations(Store_tss)) ==> expirations(Store_tss)[j] == old(expirations(Store_tss))[n + j]))
//@ ensures  (let n = len(old(expirations(Store_tss))) - len(expirations(Store_tss)) in
//@        (forall j :: 0 <= j && j < n ==> !has(Store_tss, types.SigningAttemptStoreKey(old(expirations(Store_tss))[j].SigningID, old(expirations(Store_tss))[j].SigningAttempt))
//@                                          && !has(Store_tss, types.PartialSignatureCountStoreKey(old(expirations(Store_tss))[j].SigningID, old(expirations(Store_tss))[j].SigningAttempt))))
//@ ensures  (let n = len(old(expirations(Store_tss))) - len(expirations(Store_tss)) in
//@        (n < len(old(expirations(Store_tss))) ==> attemptAt(Store_tss, old(expirations(Store_tss))[n].SigningID, old(expirations(Store_tss))[n].SigningAttempt).ExpiredHeight > ctx.BlockHeight()))
//@ ensures  (let n = len(old(expirations(Store_tss))) - len(expirations(Store_tss)) in
//@        (forall j :: 0 <= j && j < len(result) ==> (exists i :: 0 <= i && i < n && result[j] == old(expirations(Store_tss))[i].SigningID)))
// a signing joins the retry list only when shares are missing
//@ assert after signingIDs#2: partialSigCount != len(sa.AssignedMembers)
//@ loop 0: invariant idx == #i && signingExpirations == old(expirations(Store_tss))
//@ loop 0: invariant Store_tss[types.PendingSigningsStoreKey] == old(Store_tss)[types.PendingSigningsStoreKey] && Store_tss[types.ParamsKey] == old(Store_tss)[types.ParamsKey] && Store_tss[types.SigningExpirationsStoreKey] == old(Store_tss)[types.SigningExpirationsStoreKey]
//@ loop 0: invariant forall id Int :: Store_tss[types.SigningStoreKey(id)] == old(Store_tss)[types.SigningStoreKey(id)]
//@ loop 0: invariant forall g Int :: Store_tss[types.GroupStoreKey(g)] == old(Store_tss)[types.GroupStoreKey(g)]
//@ loop 0: invariant forall j :: 0 <= j && j < len(signingIDs) ==> has(Store_tss, types.SigningStoreKey(signingIDs[j])) && (exists i :: 0 <= i && i < #i && signingIDs[j] == signingExpirations[i].SigningID)
//@ loop 0: invariant forall j :: 0 <= j && j < #i ==> !has(Store_tss, types.SigningAttemptStoreKey(signingExpirations[j].SigningID, signingExpirations[j].SigningAttempt)) && !has(Store_tss, types.PartialSignatureCountStoreKey(signingExpirations[j].SigningID, signingExpirations[j].SigningAttempt))

// A new signing round may leave partial writes in its context when it fails, so it must be run in an
// isolated cache context (one with no other uncommitted writes) that the caller discards on error.
// member selection + nonce consumption + commitment arithmetic for one attempt (GetRandomMembers and DequeueDE are
// verified on their own; the curve arithmetic in between is not): only DE queues / DE entries change
// (what it was asked to do is recorded: the committee of an attempt is drawn for THAT signing and attempt - the DRBG nonce
// is signing id || attempt number - and bound to THAT message)
//@ ghost AssignNonce Bz
//@ ghost AssignMsg Bz
//@ ghost AssignGroup Int
//@ func (k Keeper) AssignMembersForSigning
//@ trusted
//@ modifies Store_tss, AssignNonce, AssignMsg, AssignGroup
//@ ensures AssignNonce == nonce && AssignMsg == msg && AssignGroup == groupID
// (it fails for its own reasons - too few members, a missing nonce - never with the retry-limit error)
//@ ensures err != types.ErrMaxSigningAttemptExceeded
//@ ensures forall q Bz :: !iskey(types.DEStoreKey, q) && !iskey(types.DEQueueStoreKey, q) ==> Store_tss[q] == old(Store_tss)[q]
//@ spec expirationsOf(s Store) []types.SigningExpiration = len(s[types.SigningExpirationsStoreKey]) == 0 ? zero("[]types.SigningExpiration") : dec(types.SigningExpirations, s[types.SigningExpirationsStoreKey]).SigningExpirations

// C10: a new attempt bumps the attempt counter by exactly one and is refused beyond MaxSigningAttempt (so a
// signing cannot be retried forever); the attempt expires SigningPeriod blocks from now; the signing is (re)set to
// WAITING and queued for expiry under (id, that attempt); the pending-aggregation list is not touched.
//@ func (k Keeper) InitiateNewSigningRound
//@ modifies Store_tss, AssignNonce, AssignMsg, AssignGroup
// C09: the committee of attempt a of signing s is the sample for (s, a): seeded with s || a (both 8 bytes big-endian),
// drawn from the signing's own group, bound to the signing's own message
//@ ensures err == nil ==> AssignNonce == bzcat(u64be(signingID), u64be(signingAt(Store_tss, signingID).CurrentAttempt)) && AssignMsg == old(signingAt(Store_tss, signingID)).Message && AssignGroup == old(signingAt(Store_tss, signingID)).GroupID
//@ requires isolated(ctx)
//@ requires wfSignings(Store_tss)
//@ ensures  Store_tss[types.PendingSigningsStoreKey] == old(Store_tss)[types.PendingSigningsStoreKey]
//@ ensures  wfSignings(Store_tss)
//@ ensures  forall id Int :: old(has(Store_tss, types.SigningStoreKey(id))) ==> has(Store_tss, types.SigningStoreKey(id))
//@ ensures  err == nil ==> old(has(Store_tss, types.SigningStoreKey(signingID)))
// the configured number of attempts is fully available: "max attempt exceeded" is returned ONLY when the new attempt
// number really is beyond MaxSigningAttempt (attempt MaxSigningAttempt itself is still allowed)
//@ ensures  err == types.ErrMaxSigningAttemptExceeded ==> old(signingAt(Store_tss, signingID)).CurrentAttempt + 1 > old(tssParams(Store_tss)).MaxSigningAttempt
// (no other signing record is touched)
//@ ensures  forall id Int :: id != signingID ==> Store_tss[types.SigningStoreKey(id)] == old(Store_tss)[types.SigningStoreKey(id)]
//@ ensures  err == nil ==> (let a = old(signingAt(Store_tss, signingID)).CurrentAttempt + 1 in a <= old(tssParams(Store_tss)).MaxSigningAttempt && signingAt(Store_tss, signingID).CurrentAttempt == a && signingAt(Store_tss, signingID).Status == types.SIGNING_STATUS_WAITING)
//@ ensures  err == nil ==> (let a = old(signingAt(Store_tss, signingID)).CurrentAttempt + 1 in signingAt(Store_tss, signingID).ID == signingID && signingAt(Store_tss, signingID).GroupID == old(signingAt(Store_tss, signingID)).GroupID && signingAt(Store_tss, signingID).Message == old(signingAt(Store_tss, signingID)).Message)
//@ ensures  err == nil ==> (let a = old(signingAt(Store_tss, signingID)).CurrentAttempt + 1 in has(Store_tss, types.SigningAttemptStoreKey(signingID, a)) && attemptAt(Store_tss, signingID, a).ExpiredHeight == ctx.BlockHeight() + old(tssParams(Store_tss)).SigningPeriod && attemptAt(Store_tss, signingID, a).Attempt == a && attemptAt(Store_tss, signingID, a).SigningID == signingID)
//@ ensures  err == nil ==> (let a = old(signingAt(Store_tss, signingID)).CurrentAttempt + 1 in (let ne = dec(types.SigningExpirations, Store_tss[types.SigningExpirationsStoreKey]).SigningExpirations in len(ne) == len(old(expirationsOf(Store_tss))) + 1 && ne[len(ne) - 1] == types.SigningExpiration{signingID, a}))
//@ loop 0: invariant Store_tss == Store_tss

// C10: a signing that cannot be retried ends FALLEN (terminal), its owner module is told once; the
// pending-aggregation list is not touched
//@ func (k Keeper) HandleFailedSigning
//@ modifies Store_tss, Other, Bank
//@ requires wfSignings(Store_tss) && has(Store_tss, types.SigningStoreKey(signingID))
//@ ensures  wfSignings(Store_tss) && has(Store_tss, types.SigningStoreKey(signingID))
//@ ensures  Store_tss[types.PendingSigningsStoreKey] == old(Store_tss)[types.PendingSigningsStoreKey]
//@ ensures  signingAt(Store_tss, signingID).Status == types.SIGNING_STATUS_FALLEN
//@ ensures  forall q Bz :: q != types.SigningStoreKey(signingID) ==> Store_tss[q] == old(Store_tss)[q]

// End block: every signing in the pending list is aggregated while its interim data is still present
// (i.e. before expiry handling), the list is emptied, and each retry runs in its own isolated cache context.
//@ func (k Keeper) HandleSigningEndBlock
//@ may_panic calls
//@ modifies Store_tss, Other, Bank, AssignNonce, AssignMsg, AssignGroup, Count_OnSigningCompleted, CompletedWith
//@ requires wfPending(Store_tss)
//@ requires wfSignings(Store_tss)
//@ ensures  len(pendingSids(Store_tss)) == 0
//@ loop 0: invariant forall j :: #i <= j && j < len(sids) ==> readySigning(Store_tss, sids[j])
//@ loop 0: invariant forall a, b :: 0 <= a && a < b && b < len(sids) ==> sids[a] != sids[b]
//@ loop 0: invariant wfSignings(Store_tss) && (forall j :: 0 <= j && j < len(retrySigningIDs) ==> has(Store_tss, types.SigningStoreKey(retrySigningIDs[j])))
// every retry has an outcome that PERSISTS in the block's own state: the signing is FALLEN (could not be retried), or it is
// waiting on an attempt whose record exists. (Failure bookkeeping written only to the attempt's isolated
// context would be discarded with it and the signing would stay waiting on an expired attempt for ever.)
//@ loop 1: each signingAt(Store_tss, sid).Status == types.SIGNING_STATUS_FALLEN || signingAt(Store_tss, sid).Status == types.SIGNING_STATUS_WAITING
//@ loop 1: each signingAt(Store_tss, sid).Status == types.SIGNING_STATUS_WAITING ==> has(Store_tss, types.SigningAttemptStoreKey(sid, signingAt(Store_tss, sid).CurrentAttempt)) && attemptAt(Store_tss, sid, signingAt(Store_tss, sid).CurrentAttempt).SigningID == sid
//@ loop 1: invariant len(pendingSids(Store_tss)) == 0
//@ loop 1: invariant wfSignings(Store_tss) && (forall j :: 0 <= j && j < len(retrySigningIDs) ==> has(Store_tss, types.SigningStoreKey(retrySigningIDs[j])))

// ---- C09: signers chosen for a signing attempt (partial Fisher-Yates over the available members) ----------
// available members: active with a queued nonce, pairwise different (body: iterator loop, see C05)
// C05/C09: exactly the members of the group that are active AND have a queued nonce pair, each taken from its
// own record, in key (= member id) order. Store invariant used for distinctness: different member records of a
// group differ (they carry their own member id, see wfMember).
//@ spec availMember(s Store, m types.Member) Bool = m.IsActive && DEQ(s, bech32addr(m.Address)).Tail > DEQ(s, bech32addr(m.Address)).Head
// store invariant of a group's member records: different records differ, and every record carries a valid address
//@ spec wfGroupMembers(s Store, g Int) Bool = (forall a Bz, b Bz :: has(s, a) && has(s, b) && hasprefix(a, types.MembersStoreKey(g)) && hasprefix(b, types.MembersStoreKey(g)) && a != b ==> dec(types.Member, s[a]) != dec(types.Member, s[b]))
//@        && (forall a Bz :: has(s, a) && hasprefix(a, types.MembersStoreKey(g)) ==> bech32ok(dec(types.Member, s[a]).Address))
//@ func (k Keeper) GetAvailableMembers
//@ requires wfGroupMembers(Store_tss, groupID)
//@ ensures forall j :: 0 <= j && j < len(result) ==> availMember(Store_tss, result[j])
//@ ensures forall j :: 0 <= j && j < len(result) ==> (exists q Bz :: has(Store_tss, q) && hasprefix(q, types.MembersStoreKey(groupID)) && result[j] == dec(types.Member, Store_tss[q]))
//@ ensures forall q Bz :: has(Store_tss, q) && hasprefix(q, types.MembersStoreKey(groupID)) && availMember(Store_tss, dec(types.Member, Store_tss[q])) ==> (exists j :: 0 <= j && j < len(result) && result[j] == dec(types.Member, Store_tss[q]))
//@ ensures forall i, j :: 0 <= i && i < j && j < len(result) ==> result[i] != result[j]
//@ loop 0: invariant 0 <= itpos(iterator) && itpos(iterator) <= itlen(iterator)
//@ loop 0: invariant forall j :: 0 <= j && j < len(availableMembers) ==> availMember(Store_tss, availableMembers[j])
//@ loop 0: invariant forall j :: 0 <= j && j < len(availableMembers) ==> (exists p :: 0 <= p && p < itpos(iterator) && availableMembers[j] == dec(types.Member, itval(iterator, p)))
//@ loop 0: invariant forall i, j :: 0 <= i && i < j && j < len(availableMembers) ==> availableMembers[i] != availableMembers[j]
//@ loop 0: invariant forall p :: 0 <= p && p < itpos(iterator) && availMember(Store_tss, dec(types.Member, itval(iterator, p))) ==> (exists j :: 0 <= j && j < len(availableMembers) && availableMembers[j] == dec(types.Member, itval(iterator, p)))

// Exactly Threshold pairwise different members, all taken from the available ones, or an error when there are
// too few. Invariant of the draw loop: the live prefix memberIdx[0 .. n-i) is duplicate-free and in range, and
// every member selected so far sits at an index that is no longer in that prefix.
//@ func (k Keeper) GetRandomMembers
//@ modifies RngLast, RngEntropy, RngNonce, RngPers
// the draw is a function of (rolling seed, given nonce = signing id || attempt, chain id) only
//@ ensures err == nil ==> RngEntropy == rollingSeedOf(Other) && RngNonce == nonce && RngPers == bytes(ctx.ChainID())
//@ requires wfGroupMembers(Store_tss, groupID)
//@ ensures err == nil ==> len(result) == old(groupAt(Store_tss, groupID)).Threshold
//@ ensures err == nil ==> (forall a, b :: 0 <= a && a < b && b < len(result) ==> result[a] != result[b])
//@ loop 0: invariant 0 <= i && i <= members_size && len(memberIdx) == members_size && (forall a :: 0 <= a && a < i ==> memberIdx[a] == a)
//@ loop 1: invariant 0 <= i && i <= group.Threshold && len(selected) == i && len(memberIdx) == members_size
//@ loop 1: invariant forall a :: 0 <= a && a < members_size - i ==> 0 <= memberIdx[a] && memberIdx[a] < members_size
//@ loop 1: invariant forall a, b :: 0 <= a && a < b && b < members_size - i ==> memberIdx[a] != memberIdx[b]
//@ loop 1: invariant forall j :: 0 <= j && j < len(selected) ==> (exists c :: 0 <= c && c < members_size && selected[j] == members[c] && (forall a :: 0 <= a && a < members_size - i ==> memberIdx[a] != c))
//@ loop 1: invariant forall a, b :: 0 <= a && a < b && b < len(selected) ==> selected[a] != selected[b]

// ---- C04: on-chain complaint verification ------------------------------------------------------------------
//@ spec r1At(s Store, g Int, m Int) types.Round1Info = dec(types.Round1Info, s[types.Round1InfoStoreKey(g, m)])
//@ spec r2At(s Store, g Int, m Int) types.Round2Info = dec(types.Round2Info, s[types.Round2InfoStoreKey(g, m)])
// slot of the share the respondent (dealer) encrypted for the complainant: ids are 1-based, own id skipped
//@ spec shareSlot(dealer Int, receiver Int) Int = receiver < dealer ? receiver - 1 : receiver - 2

// A complaint succeeds exactly when both parties' round-1 data and the respondent's round-2 data exist, the
// respondent dealt a share for the complainant, and the cryptographic check accepts the complainant's and the
// respondent's one-time keys, the key sym, the signature, THE SHARE THE RESPONDENT ENCRYPTED FOR THE COMPLAINANT
// and the respondent's commitments.
//@ spec complaintOK(s Store, g Int, c types.Complaint) Bool = has(s, types.Round1InfoStoreKey(g, c.Complainant))
//@       && has(s, types.Round1InfoStoreKey(g, c.Respondent))
//@       && has(s, types.Round2InfoStoreKey(g, c.Respondent))
//@       && shareSlot(c.Respondent, c.Complainant) < len(r2At(s, g, c.Respondent).EncryptedSecretShares)
//@       && tss.validComplaint(r1At(s, g, c.Complainant).OneTimePubKey, r1At(s, g, c.Respondent).OneTimePubKey,
//@             c.KeySym, c.Signature,
//@             r2At(s, g, c.Respondent).EncryptedSecretShares[shareSlot(c.Respondent, c.Complainant)],
//@             c.Complainant, r1At(s, g, c.Respondent).CoefficientCommits)
//@ spec okComplaintIDs(c types.Complaint) Bool = 1 <= c.Complainant && 1 <= c.Respondent && c.Complainant != c.Respondent && c.Complainant <= MaxInt64 && c.Respondent <= MaxInt64
//@ func (k Keeper) VerifyComplaint
//@ requires okComplaintIDs(complaint)
//@ ensures err == nil <==> complaintOK(Store_tss, groupID, complaint)

// marking a member malicious sets that flag in that member's record and changes nothing else
//@ func (k Keeper) MarkMemberMalicious
//@ modifies Store_tss
//@ requires wfMember(Store_tss, groupID, memberID)
//@ ensures err == nil <==> old(has(Store_tss, types.MemberStoreKey(groupID, memberID)))
//@ ensures err != nil ==> Store_tss == old(Store_tss)
//@ ensures err == nil ==> has(Store_tss, types.MemberStoreKey(groupID, memberID)) && memberAt(Store_tss, groupID, memberID) == with(old(memberAt(Store_tss, groupID, memberID)), "IsMalicious", true)
//@ ensures forall q Bz :: q != types.MemberStoreKey(groupID, memberID) ==> Store_tss[q] == old(Store_tss)[q]

// C04: every complaint is judged against the round-1/round-2 data as it stood; a complaint that verifies blames the
// RESPONDENT (the dealer cheated), one that does not blames the COMPLAINANT (false accusation) - never anybody else:
// a member's malicious flag is raised only as the respondent of a valid complaint or the complainant of an invalid one.
// Only member records change.
//@ func (k Keeper) ProcessComplaint
//@ modifies Store_tss
//@ requires forall j :: 0 <= j && j < len(complaints) ==> okComplaintIDs(complaints[j])
//@ requires forall m Int :: wfMember(Store_tss, groupID, m)
//@ ensures forall q Bz :: !iskey(types.MemberStoreKey, q) ==> Store_tss[q] == old(Store_tss)[q]
//@ ensures err == nil ==> len(result) == len(complaints) && (forall j :: 0 <= j && j < len(complaints) ==> result[j].Complaint == complaints[j]
//@        && (result[j].ComplaintStatus == (complaintOK(old(Store_tss), groupID, complaints[j]) ? types.COMPLAINT_STATUS_SUCCESS : types.COMPLAINT_STATUS_FAILED)))
//@ ensures err == nil ==> (forall j :: 0 <= j && j < len(complaints) ==>
//@        memberAt(Store_tss, groupID, (complaintOK(old(Store_tss), groupID, complaints[j]) ? complaints[j].Respondent : complaints[j].Complainant)).IsMalicious)
//@ ensures forall m Int :: has(Store_tss, types.MemberStoreKey(groupID, m)) && memberAt(Store_tss, groupID, m).IsMalicious && !old(memberAt(Store_tss, groupID, m)).IsMalicious ==>
//@        (exists j :: 0 <= j && j < len(complaints) && m == (complaintOK(old(Store_tss), groupID, complaints[j]) ? complaints[j].Respondent : complaints[j].Complainant))
//@ loop 0: invariant forall q Bz :: !iskey(types.MemberStoreKey, q) ==> Store_tss[q] == old(Store_tss)[q]
//@ loop 0: invariant forall m Int :: wfMember(Store_tss, groupID, m)
//@ loop 0: invariant len(complaintsWithStatus) == #i && (forall j :: 0 <= j && j < #i ==> complaintsWithStatus[j].Complaint == complaints[j]
//@        && (complaintsWithStatus[j].ComplaintStatus == (complaintOK(old(Store_tss), groupID, complaints[j]) ? types.COMPLAINT_STATUS_SUCCESS : types.COMPLAINT_STATUS_FAILED)))
//@ loop 0: invariant forall j :: 0 <= j && j < #i ==> memberAt(Store_tss, groupID, (complaintOK(old(Store_tss), groupID, complaints[j]) ? complaints[j].Respondent : complaints[j].Complainant)).IsMalicious
//@ loop 0: invariant forall m Int :: has(Store_tss, types.MemberStoreKey(groupID, m)) && memberAt(Store_tss, groupID, m).IsMalicious && !old(memberAt(Store_tss, groupID, m)).IsMalicious ==>
//@        (exists j :: 0 <= j && j < #i && m == (complaintOK(old(Store_tss), groupID, complaints[j]) ? complaints[j].Respondent : complaints[j].Complainant))
//@ loop 0: invariant forall m Int :: has(Store_tss, types.MemberStoreKey(groupID, m)) <==> old(has(Store_tss, types.MemberStoreKey(groupID, m)))

// ---- C03 / C10: submitting a signature share ------------------------------------------------------------
//@ spec psigHas(s Store, id Int, n Int, m Int) Bool = has(s, types.PartialSignatureStoreKey(id, n, m))
// A share is accepted only for a WAITING signing, in its CURRENT attempt, from the member it is assigned to (id and
// address), once per member, with R equal to that member's assigned public nonce, and only if it satisfies the
// share equation under that member's own key with its Lagrange coefficient among the assigned ids. It is then
// stored, the attempt's counter goes up by one, and the signing joins the pending-aggregation list exactly when
// the counter reaches the number of assigned members. A rejected share changes nothing.
//@ func (k msgServer) SubmitSignature
//@ modifies Store_tss
// (stateless validation of the message, MsgSubmitSignature.ValidateBasic, verified on its own)
//@ requires tss.sigWellFormed(req.Signature)
//@ ensures err != nil ==> Store_tss == old(Store_tss)
//@ ensures err == nil ==> old(has(Store_tss, types.SigningStoreKey(req.SigningID))) && old(signingAt(Store_tss, req.SigningID)).Status == types.SIGNING_STATUS_WAITING
//@        && old(has(Store_tss, types.SigningAttemptStoreKey(req.SigningID, signingAt(Store_tss, req.SigningID).CurrentAttempt)))
//@ ensures err == nil ==> (let sg = old(signingAt(Store_tss, req.SigningID)) in let sa = old(attemptAt(Store_tss, req.SigningID, signingAt(Store_tss, req.SigningID).CurrentAttempt)) in
//@        (exists j :: types.amFirst(sa.AssignedMembers, req.MemberID, j) && sa.AssignedMembers[j].Address == req.Signer
//@            && ext("bytes.Equal", absfn("tss.Signature.R", req.Signature), sa.AssignedMembers[j].PubNonce)
//@            && tss.validShare(sg.GroupPubNonce, sg.GroupPubKey, sg.Message, absfn("tss.ComputeLagrangeCoefficient#0", req.MemberID, absfn("types.AssignedMembers.MemberIDs", sa.AssignedMembers)), req.Signature, sa.AssignedMembers[j].PubKey))
//@        && !old(psigHas(Store_tss, req.SigningID, sa.Attempt, req.MemberID)))
//@ ensures err == nil ==> (let sa = old(attemptAt(Store_tss, req.SigningID, signingAt(Store_tss, req.SigningID).CurrentAttempt)) in
//@        Store_tss[types.PartialSignatureStoreKey(req.SigningID, sa.Attempt, req.MemberID)] == req.Signature
//@        && psigCount(Store_tss, req.SigningID, sa.Attempt) == wrapu64(old(psigCount(Store_tss, req.SigningID, sa.Attempt)) + 1)
//@        && ((psigCount(Store_tss, req.SigningID, sa.Attempt) == len(sa.AssignedMembers)) ==> (let np = dec(types.PendingProcessSignings, Store_tss[types.PendingSigningsStoreKey]).SigningIDs in len(np) == len(old(pendingSids(Store_tss))) + 1 && np[len(np) - 1] == req.SigningID && (forall i :: 0 <= i && i < len(np) - 1 ==> np[i] == old(pendingSids(Store_tss))[i])))
//@        && ((psigCount(Store_tss, req.SigningID, sa.Attempt) != len(sa.AssignedMembers)) ==> Store_tss[types.PendingSigningsStoreKey] == old(Store_tss)[types.PendingSigningsStoreKey])
//@        && (forall q Bz :: q != types.PartialSignatureStoreKey(req.SigningID, sa.Attempt, req.MemberID) && q != types.PartialSignatureCountStoreKey(req.SigningID, sa.Attempt) && q != types.PendingSigningsStoreKey ==> Store_tss[q] == old(Store_tss)[q]))

// ---- C04: end of group creation -------------------------------------------------------------------------------
// all member records of a group, in key order; an error iff there are none
//@ func (k Keeper) GetGroupMembers
//@ ensures err == nil ==> (forall j :: 0 <= j && j < len(result) ==> (exists q Bz :: has(Store_tss, q) && hasprefix(q, types.MembersStoreKey(groupID)) && result[j] == dec(types.Member, Store_tss[q])))
//@ ensures err == nil ==> (forall q Bz :: has(Store_tss, q) && hasprefix(q, types.MembersStoreKey(groupID)) ==> (exists j :: 0 <= j && j < len(result) && result[j] == dec(types.Member, Store_tss[q])))
//@ ensures err != nil ==> (forall q Bz :: !(has(Store_tss, q) && hasprefix(q, types.MembersStoreKey(groupID))))
//@ loop 0: invariant 0 <= itpos(iterator) && itpos(iterator) <= itlen(iterator) && len(members) == itpos(iterator)
//@ loop 0: invariant forall j :: 0 <= j && j < len(members) ==> members[j] == dec(types.Member, itval(iterator, j))

// "some member record of the group is flagged malicious"
//@ spec anyMalicious(s Store, g Int) Bool = exists q Bz :: has(s, q) && hasprefix(q, types.MembersStoreKey(g)) && dec(types.Member, s[q]).IsMalicious

// C04: a group whose members have all confirmed or complained leaves round 3 as ACTIVE exactly when NO member
// record is flagged malicious, and as FALLEN otherwise; rounds 1 and 2 just advance (round 1 also fixes the group
// key = accumulated commitment 0). Only this group's record is written in the tss store.
// C18: the owner module (bandtss) is told "created" only about THIS group and only when it has just become ACTIVE, and
// "failed" only about this group and only when it has just FALLEN - a failed key generation reported as completed would
// make bandtss hand the chain's signing over to a group that has no usable key.
//@ func (k Keeper) HandleProcessGroup
//@ may_panic calls
//@ modifies Store_tss, Other, Bank, Count_OnGroupCreationCompleted, Count_OnGroupCreationFailed
//@ ensures forall g Int :: Count_OnGroupCreationCompleted[g] != old(Count_OnGroupCreationCompleted)[g] ==> g == groupID && groupAt(Store_tss, groupID).Status == types.GROUP_STATUS_ACTIVE && old(groupAt(Store_tss, groupID)).Status == types.GROUP_STATUS_ROUND_3
//@ ensures forall g Int :: Count_OnGroupCreationFailed[g] != old(Count_OnGroupCreationFailed)[g] ==> g == groupID && groupAt(Store_tss, groupID).Status == types.GROUP_STATUS_FALLEN && old(groupAt(Store_tss, groupID)).Status == types.GROUP_STATUS_ROUND_3
//@ requires has(Store_tss, types.GroupStoreKey(groupID)) ==> groupAt(Store_tss, groupID).ID == groupID
//@ ensures forall q Bz :: q != types.GroupStoreKey(groupID) ==> Store_tss[q] == old(Store_tss)[q]
// (a missing group record panics in MustGetGroup: on normal return the record existed, and it still does, with its id)
//@ ensures old(has(Store_tss, types.GroupStoreKey(groupID))) && has(Store_tss, types.GroupStoreKey(groupID)) && groupAt(Store_tss, groupID).ID == groupID
//@ ensures old(groupAt(Store_tss, groupID)).Status == types.GROUP_STATUS_ROUND_3 ==> groupAt(Store_tss, groupID) == with(old(groupAt(Store_tss, groupID)), "Status", (old(anyMalicious(Store_tss, groupID)) ? types.GROUP_STATUS_FALLEN : types.GROUP_STATUS_ACTIVE))
//@ ensures old(groupAt(Store_tss, groupID)).Status == types.GROUP_STATUS_ROUND_2 ==> groupAt(Store_tss, groupID) == with(old(groupAt(Store_tss, groupID)), "Status", types.GROUP_STATUS_ROUND_3)
//@ ensures old(groupAt(Store_tss, groupID)).Status == types.GROUP_STATUS_ROUND_1 ==> groupAt(Store_tss, groupID) == with(with(old(groupAt(Store_tss, groupID)), "Status", types.GROUP_STATUS_ROUND_2), "PubKey", old(Store_tss)[types.AccumulatedCommitStoreKey(groupID, 0)])
//@ ensures (old(groupAt(Store_tss, groupID)).Status != types.GROUP_STATUS_ROUND_1 && old(groupAt(Store_tss, groupID)).Status != types.GROUP_STATUS_ROUND_2 && old(groupAt(Store_tss, groupID)).Status != types.GROUP_STATUS_ROUND_3) ==> Store_tss == old(Store_tss)

// interim DKG data of one group (iterator deletions): never touches group records or the counters
// the five kinds of DKG interim records of one group, each deleted by a prefix-iterator loop (verified bodies):
// everything below the group's prefix is gone afterwards, and nothing else changes (but the kind's counter)
//@ func (k Keeper) DeleteRound1Infos
//@ modifies Store_tss
//@ ensures forall q Bz :: !hasprefix(q, types.Round1InfosStoreKey(groupID)) && q != types.Round1InfoCountStoreKey(groupID) ==> Store_tss[q] == old(Store_tss)[q]
//@ ensures forall q Bz :: hasprefix(q, types.Round1InfosStoreKey(groupID)) ==> !has(Store_tss, q)
//@ loop 0: invariant 0 <= itpos(iterator) && itpos(iterator) <= itlen(iterator)
//@ loop 0: invariant forall q Bz :: !hasprefix(q, types.Round1InfosStoreKey(groupID)) ==> Store_tss[q] == old(Store_tss)[q]
//@ loop 0: invariant forall q Bz :: Store_tss[q] == old(Store_tss)[q] || !has(Store_tss, q)
//@ loop 0: invariant forall j :: 0 <= j && j < itpos(iterator) ==> !has(Store_tss, itkey(iterator, j))
//@ func (k Keeper) DeleteRound2Infos
//@ modifies Store_tss
//@ ensures forall q Bz :: !hasprefix(q, types.Round2InfosStoreKey(groupID)) && q != types.Round2InfoCountStoreKey(groupID) ==> Store_tss[q] == old(Store_tss)[q]
//@ ensures forall q Bz :: hasprefix(q, types.Round2InfosStoreKey(groupID)) ==> !has(Store_tss, q)
//@ loop 0: invariant 0 <= itpos(iterator) && itpos(iterator) <= itlen(iterator)
//@ loop 0: invariant forall q Bz :: !hasprefix(q, types.Round2InfosStoreKey(groupID)) ==> Store_tss[q] == old(Store_tss)[q]
//@ loop 0: invariant forall q Bz :: Store_tss[q] == old(Store_tss)[q] || !has(Store_tss, q)
//@ loop 0: invariant forall j :: 0 <= j && j < itpos(iterator) ==> !has(Store_tss, itkey(iterator, j))
//@ func (k Keeper) DeleteAccumulatedCommits
//@ modifies Store_tss
//@ ensures forall q Bz :: !hasprefix(q, types.AccumulatedCommitsStoreKey(groupID)) ==> Store_tss[q] == old(Store_tss)[q]
//@ ensures forall q Bz :: hasprefix(q, types.AccumulatedCommitsStoreKey(groupID)) ==> !has(Store_tss, q)
//@ loop 0: invariant 0 <= itpos(iterator) && itpos(iterator) <= itlen(iterator)
//@ loop 0: invariant forall q Bz :: !hasprefix(q, types.AccumulatedCommitsStoreKey(groupID)) ==> Store_tss[q] == old(Store_tss)[q]
//@ loop 0: invariant forall q Bz :: Store_tss[q] == old(Store_tss)[q] || !has(Store_tss, q)
//@ loop 0: invariant forall j :: 0 <= j && j < itpos(iterator) ==> !has(Store_tss, itkey(iterator, j))
//@ func (k Keeper) DeleteConfirms
//@ modifies Store_tss
//@ ensures forall q Bz :: !(iskey(types.ConfirmStoreKey, q) && keyarg(types.ConfirmStoreKey, q, 0) == groupID) ==> Store_tss[q] == old(Store_tss)[q]
//@ ensures forall q Bz :: !hasprefix(q, types.ConfirmsStoreKey(groupID)) ==> Store_tss[q] == old(Store_tss)[q]
//@ ensures forall q Bz :: hasprefix(q, types.ConfirmsStoreKey(groupID)) ==> !has(Store_tss, q)
//@ loop 0: invariant 0 <= itpos(iterator) && itpos(iterator) <= itlen(iterator)
//@ loop 0: invariant forall q Bz :: !hasprefix(q, types.ConfirmsStoreKey(groupID)) ==> Store_tss[q] == old(Store_tss)[q]
//@ loop 0: invariant forall q Bz :: Store_tss[q] == old(Store_tss)[q] || !has(Store_tss, q)
//@ loop 0: invariant forall j :: 0 <= j && j < itpos(iterator) ==> !has(Store_tss, itkey(iterator, j))
//@ func (k Keeper) DeleteAllComplainsWithStatus
//@ modifies Store_tss
//@ ensures forall q Bz :: !hasprefix(q, types.ComplainsWithStatusesStoreKey(groupID)) ==> Store_tss[q] == old(Store_tss)[q]
//@ ensures forall q Bz :: hasprefix(q, types.ComplainsWithStatusesStoreKey(groupID)) ==> !has(Store_tss, q)
//@ loop 0: invariant 0 <= itpos(iterator) && itpos(iterator) <= itlen(iterator)
//@ loop 0: invariant forall q Bz :: !hasprefix(q, types.ComplainsWithStatusesStoreKey(groupID)) ==> Store_tss[q] == old(Store_tss)[q]
//@ loop 0: invariant forall q Bz :: Store_tss[q] == old(Store_tss)[q] || !has(Store_tss, q)
//@ loop 0: invariant forall j :: 0 <= j && j < itpos(iterator) ==> !has(Store_tss, itkey(iterator, j))
//@ func (k Keeper) DeleteConfirmComplains
//@ modifies Store_tss
//@ ensures forall q Bz :: !hasprefix(q, types.ConfirmsStoreKey(groupID)) && !hasprefix(q, types.ComplainsWithStatusesStoreKey(groupID)) && q != types.ConfirmComplainCountStoreKey(groupID) ==> Store_tss[q] == old(Store_tss)[q]
//@ ensures forall q Bz :: hasprefix(q, types.ConfirmsStoreKey(groupID)) || hasprefix(q, types.ComplainsWithStatusesStoreKey(groupID)) ==> !has(Store_tss, q)
// (verified body, over the contracts above)
//@ func (k Keeper) DeleteAllDKGInterimData
//@ modifies Store_tss
// (... and it is THIS group's interim data only: another group's round-1/round-2 submissions, confirms and complaints stay)
//@ ensures forall g Int, m Int :: g != groupID ==> Store_tss[types.Round1InfoStoreKey(g, m)] == old(Store_tss)[types.Round1InfoStoreKey(g, m)] && Store_tss[types.Round2InfoStoreKey(g, m)] == old(Store_tss)[types.Round2InfoStoreKey(g, m)] && Store_tss[types.ConfirmStoreKey(g, m)] == old(Store_tss)[types.ConfirmStoreKey(g, m)] && Store_tss[types.ComplainsWithStatusStoreKey(g, m)] == old(Store_tss)[types.ComplainsWithStatusStoreKey(g, m)]
//@ ensures forall g Int :: Store_tss[types.GroupStoreKey(g)] == old(Store_tss)[types.GroupStoreKey(g)]
// (... and it is ALL of this group's interim data: no round-1/round-2 submission, accumulated commit, confirm or complaint of the group survives)
//@ ensures forall m Int :: !has(Store_tss, types.Round1InfoStoreKey(groupID, m)) && !has(Store_tss, types.Round2InfoStoreKey(groupID, m)) && !has(Store_tss, types.ConfirmStoreKey(groupID, m)) && !has(Store_tss, types.ComplainsWithStatusStoreKey(groupID, m))
//@ ensures Store_tss[types.GroupCountStoreKey] == old(Store_tss)[types.GroupCountStoreKey] && Store_tss[types.LastExpiredGroupIDStoreKey] == old(Store_tss)[types.LastExpiredGroupIDStoreKey] && Store_tss[types.ParamsKey] == old(Store_tss)[types.ParamsKey]
// (only DKG interim records of the group are deleted: signing records and the two end-block queues are other keys)
//@ ensures (forall id Int :: Store_tss[types.SigningStoreKey(id)] == old(Store_tss)[types.SigningStoreKey(id)]) && (forall id Int, n Int :: Store_tss[types.SigningAttemptStoreKey(id, n)] == old(Store_tss)[types.SigningAttemptStoreKey(id, n)] && Store_tss[types.PartialSignatureCountStoreKey(id, n)] == old(Store_tss)[types.PartialSignatureCountStoreKey(id, n)]) && Store_tss[types.PendingSigningsStoreKey] == old(Store_tss)[types.PendingSigningsStoreKey] && Store_tss[types.PendingProcessGroupsStoreKey] == old(Store_tss)[types.PendingProcessGroupsStoreKey]

//@ spec lastExpiredGroup(s Store) Int = u64of(s[types.LastExpiredGroupIDStoreKey])
//@ spec groupCount(s Store) Int = u64of(s[types.GroupCountStoreKey])
// store invariant of the group id space
//@ spec wfGroups(s Store) Bool = groupCount(s) < MaxUint64 && lastExpiredGroup(s) <= groupCount(s)
//@      && (forall g Int :: lastExpiredGroup(s) < g && g <= groupCount(s) ==> has(s, types.GroupStoreKey(g)) && groupAt(s, g).ID == g)
// C04: group creation that is still unfinished when its creation period has passed ends as EXPIRED; a group that
// already ended (ACTIVE or FALLEN) keeps its status; groups are passed in id order and only once their creation
// period is over; nothing but the records of the groups passed (and the cursor) changes among group records.
//@ func (k Keeper) HandleExpiredGroups
//@ modifies Store_tss, Other, Bank
//@ requires wfGroups(Store_tss)
//@ ensures  old(lastExpiredGroup(Store_tss)) <= lastExpiredGroup(Store_tss) && lastExpiredGroup(Store_tss) <= old(groupCount(Store_tss))
//@ ensures  forall g Int :: old(lastExpiredGroup(Store_tss)) < g && g <= lastExpiredGroup(Store_tss) ==>
//@        (let o = old(groupAt(Store_tss, g)) in
//@         wrapu64(o.CreatedHeight + old(tssParams(Store_tss)).CreationPeriod) <= wrapu64(ctx.BlockHeight())
//@         && groupAt(Store_tss, g) == ((o.Status != types.GROUP_STATUS_ACTIVE && o.Status != types.GROUP_STATUS_FALLEN) ? with(o, "Status", types.GROUP_STATUS_EXPIRED) : o))
//@ ensures  forall g Int :: g > lastExpiredGroup(Store_tss) || g <= old(lastExpiredGroup(Store_tss)) ==> Store_tss[types.GroupStoreKey(g)] == old(Store_tss)[types.GroupStoreKey(g)]
// no group record appears or disappears
//@ ensures forall g Int :: has(Store_tss, types.GroupStoreKey(g)) == old(has(Store_tss, types.GroupStoreKey(g)))
// C04: the sweep cleans up the groups it passes, nobody else's key generation: the round-1/round-2 submissions, confirms and
// complaints of every group it did NOT pass are untouched (wiping a running group's round data makes a valid complaint
// unverifiable, and the honest complainant is then the one blamed)
//@ ensures forall g Int, m Int :: (g > lastExpiredGroup(Store_tss) || g <= old(lastExpiredGroup(Store_tss))) ==> Store_tss[types.Round1InfoStoreKey(g, m)] == old(Store_tss)[types.Round1InfoStoreKey(g, m)] && Store_tss[types.Round2InfoStoreKey(g, m)] == old(Store_tss)[types.Round2InfoStoreKey(g, m)] && Store_tss[types.ConfirmStoreKey(g, m)] == old(Store_tss)[types.ConfirmStoreKey(g, m)] && Store_tss[types.ComplainsWithStatusStoreKey(g, m)] == old(Store_tss)[types.ComplainsWithStatusStoreKey(g, m)]
//@ loop 0: invariant forall g Int, m Int :: (g >= groupID || g <= old(lastExpiredGroup(Store_tss))) ==> Store_tss[types.Round1InfoStoreKey(g, m)] == old(Store_tss)[types.Round1InfoStoreKey(g, m)] && Store_tss[types.Round2InfoStoreKey(g, m)] == old(Store_tss)[types.Round2InfoStoreKey(g, m)] && Store_tss[types.ConfirmStoreKey(g, m)] == old(Store_tss)[types.ConfirmStoreKey(g, m)] && Store_tss[types.ComplainsWithStatusStoreKey(g, m)] == old(Store_tss)[types.ComplainsWithStatusStoreKey(g, m)]
//@ loop 0: invariant forall g Int :: has(Store_tss, types.GroupStoreKey(g)) == old(has(Store_tss, types.GroupStoreKey(g)))
// signing records, parameters and the two end-block queues are not touched by the sweep
//@ ensures (forall id Int :: Store_tss[types.SigningStoreKey(id)] == old(Store_tss)[types.SigningStoreKey(id)]) && (forall id Int, n Int :: Store_tss[types.SigningAttemptStoreKey(id, n)] == old(Store_tss)[types.SigningAttemptStoreKey(id, n)] && Store_tss[types.PartialSignatureCountStoreKey(id, n)] == old(Store_tss)[types.PartialSignatureCountStoreKey(id, n)]) && Store_tss[types.PendingSigningsStoreKey] == old(Store_tss)[types.PendingSigningsStoreKey] && Store_tss[types.PendingProcessGroupsStoreKey] == old(Store_tss)[types.PendingProcessGroupsStoreKey] && Store_tss[types.ParamsKey] == old(Store_tss)[types.ParamsKey] && Store_tss[types.GroupCountStoreKey] == old(Store_tss)[types.GroupCountStoreKey]
//@ loop 0: invariant (forall id Int :: Store_tss[types.SigningStoreKey(id)] == old(Store_tss)[types.SigningStoreKey(id)]) && (forall id Int, n Int :: Store_tss[types.SigningAttemptStoreKey(id, n)] == old(Store_tss)[types.SigningAttemptStoreKey(id, n)] && Store_tss[types.PartialSignatureCountStoreKey(id, n)] == old(Store_tss)[types.PartialSignatureCountStoreKey(id, n)]) && Store_tss[types.PendingSigningsStoreKey] == old(Store_tss)[types.PendingSigningsStoreKey] && Store_tss[types.PendingProcessGroupsStoreKey] == old(Store_tss)[types.PendingProcessGroupsStoreKey] && Store_tss[types.GroupCountStoreKey] == old(Store_tss)[types.GroupCountStoreKey]
//@ loop 0: invariant old(lastExpiredGroup(Store_tss)) + 1 <= groupID && groupID <= latestGroupID + 1 && latestGroupID == old(groupCount(Store_tss)) && latestGroupID < MaxUint64
//@ loop 0: invariant Store_tss[types.ParamsKey] == old(Store_tss)[types.ParamsKey] && Store_tss[types.LastExpiredGroupIDStoreKey] == old(Store_tss)[types.LastExpiredGroupIDStoreKey]
//@ loop 0: invariant forall g Int :: old(lastExpiredGroup(Store_tss)) < g && g < groupID ==>
//@        (let o = old(groupAt(Store_tss, g)) in
//@         wrapu64(o.CreatedHeight + old(tssParams(Store_tss)).CreationPeriod) <= wrapu64(ctx.BlockHeight())
//@         && groupAt(Store_tss, g) == ((o.Status != types.GROUP_STATUS_ACTIVE && o.Status != types.GROUP_STATUS_FALLEN) ? with(o, "Status", types.GROUP_STATUS_EXPIRED) : o))
//@ loop 0: invariant forall g Int :: g >= groupID || g <= old(lastExpiredGroup(Store_tss)) ==> Store_tss[types.GroupStoreKey(g)] == old(Store_tss)[types.GroupStoreKey(g)]

// C04: round-1 data is accepted only with exactly `threshold` coefficient commitments and with BOTH proofs of
// possession - for the one-time key and for the constant-term commitment (commitment 0) - made for THIS member id
// under THIS group's DKG context.
//@ func (k Keeper) ValidateRound1Info
//@ requires group.Threshold >= 1
//@ ensures err == nil <==> (len(round1Info.CoefficientCommits) == group.Threshold && has(Store_tss, types.DKGContextStoreKey(group.ID))
//@        && tss.validOneTimeSig(round1Info.MemberID, Store_tss[types.DKGContextStoreKey(group.ID)], round1Info.OneTimeSignature, round1Info.OneTimePubKey)
//@        && tss.validA0Sig(round1Info.MemberID, Store_tss[types.DKGContextStoreKey(group.ID)], round1Info.A0Signature, round1Info.CoefficientCommits[0]))

// ---- C10: the only writer of the parameter record stores validated parameters only (backs the parameter part of wfSignings)
//@ func (k Keeper) SetParams
//@ modifies Store_tss
//@ ensures err == nil ==> Store_tss == store(old(Store_tss), types.ParamsKey, enc(p)) && 1 <= p.SigningPeriod && p.SigningPeriod <= MaxInt64 && p.MaxSigningAttempt <= MaxInt64
//@ ensures err != nil ==> Store_tss == old(Store_tss)

// ---- C04: cleaning up one group's round-3 data must not touch another group's --------------------------------------
// (the confirm records are what stops a member from confirming twice: losing another group's records lets a cheater
// replay its confirm and push that group to ACTIVE before the complaint against it arrives)
// (contract of DeleteConfirms: with the other interim-data deletions above, which add completeness)

// ---- C04: what the signing daemons are told to do -------------------------------------------------------------------
// The member a group has for an address (list search: abstract), and "the member still owes this group its message of
// the current round". The pending-groups query must report a group for an address EXACTLY on that condition, judged
// per group: a daemon that is told a group is pending although its message is in re-runs the round with fresh secrets,
// which turns an honest member into one whose shares no longer match its commitments.
//@ spec memberOf(s Store, g Int, a Str) types.Member uninterpreted
//@ spec memberErr(s Store, g Int, a Str) Int uninterpreted
// C14 / C18: the member looked up by address is a member record OF THE GROUP ASKED FOR (an account sits in several groups
// after a rotation with the same operators: activation flags, pay-outs and time-out penalties must hit the membership in
// that group, not the one in an older group), carrying that address; none found is an error.
//@ func (k Keeper) GetMemberByAddress
//@ names err == memberErr(Store_tss, groupID, address) && (err == nil ==> result == memberOf(Store_tss, groupID, address))
//@ ensures err == nil ==> result.Address == address && (exists q Bz :: has(Store_tss, q) && hasprefix(q, types.MembersStoreKey(groupID)) && result == dec(types.Member, Store_tss[q]))
//@ ensures err != nil ==> !(exists q Bz :: has(Store_tss, q) && hasprefix(q, types.MembersStoreKey(groupID)) && dec(types.Member, Store_tss[q]).Address == address)
//@ loop 0: invariant forall j :: 0 <= j && j < #i ==> members[j].Address != address
//@ spec owes(s Store, g Int, m Int) Bool =
//@      (groupAt(s, g).Status == types.GROUP_STATUS_ROUND_1 && !has(s, types.Round1InfoStoreKey(g, m)))
//@   || (groupAt(s, g).Status == types.GROUP_STATUS_ROUND_2 && !has(s, types.Round2InfoStoreKey(g, m)))
//@   || (groupAt(s, g).Status == types.GROUP_STATUS_ROUND_3 && !has(s, types.ConfirmStoreKey(g, m)) && !has(s, types.ComplainsWithStatusStoreKey(g, m)))
//@ func (q queryServer) PendingGroups
//@ may_panic calls
//@ requires wfGroups(Store_tss)
//@ ensures err == nil
//@ ensures forall j :: 0 <= j && j < len(result.PendingGroups) ==> (let g = result.PendingGroups[j] in
//@        lastExpiredGroup(Store_tss) < g && g <= groupCount(Store_tss) && memberErr(Store_tss, g, req.Address) == 0 && owes(Store_tss, g, memberOf(Store_tss, g, req.Address).ID))
//@ ensures forall g Int :: lastExpiredGroup(Store_tss) < g && g <= groupCount(Store_tss) && memberErr(Store_tss, g, req.Address) == 0 && owes(Store_tss, g, memberOf(Store_tss, g, req.Address).ID)
//@        ==> (exists j :: 0 <= j && j < len(result.PendingGroups) && result.PendingGroups[j] == g)
//@ loop 0: invariant lastExpired + 1 <= gid && gid <= groupCount + 1 && lastExpired == lastExpiredGroup(Store_tss) && groupCount == groupCount(Store_tss) && groupCount < MaxUint64
//@ loop 0: invariant forall j :: 0 <= j && j < len(pendingGroups) ==> (let g = pendingGroups[j] in
//@        lastExpired < g && g < gid && memberErr(Store_tss, g, req.Address) == 0 && owes(Store_tss, g, memberOf(Store_tss, g, req.Address).ID))
//@ loop 0: invariant forall g Int :: lastExpired < g && g < gid && memberErr(Store_tss, g, req.Address) == 0 && owes(Store_tss, g, memberOf(Store_tss, g, req.Address).ID)
//@        ==> (exists j :: 0 <= j && j < len(pendingGroups) && pendingGroups[j] == g)

// ---- C13 / C05: an accepted signing request has its first attempt set up ----------------------------------------------
// RequestSigning returns success only when the signing exists AND its first attempt was initiated (members assigned,
// expiry queued): a request whose attempt could not be started (too few members with nonces) is an error, so that the
// caller's transaction - the fee it has just escrowed included - is rolled back instead of paying for a signing that
// nobody was ever asked to produce. (The content handlers of the router only encode: they write no state.)
//@ func (k Keeper) RequestSigning
//@ may_panic calls
//@ readonly_funcvalues
//@ modifies Store_tss, Other, Bank, AssignNonce, AssignMsg, AssignGroup
//@ requires isolated(ctx)
//@ requires wfSignings(Store_tss)
//@ ensures err != nil ==> result == 0
//@ ensures err == nil ==> has(Store_tss, types.SigningStoreKey(result)) && signingAt(Store_tss, result).CurrentAttempt == 1 && signingAt(Store_tss, result).Status == types.SIGNING_STATUS_WAITING
//@ ensures err == nil ==> has(Store_tss, types.SigningAttemptStoreKey(result, 1))
// C11: ... and only when the content handler produced the bytes to sign: a handler error (text too long, no result yet,
// unknown encoder ...) fails the request instead of creating a signing over an empty content
//@ ensures err == nil ==> fvresult(1) == nil

// ---- C09: a committee is drawn from the members of ITS group -------------------------------------------------------------
// Members are filed under (group id, member id) and a group's members are read back by the group-id prefix, so a group id
// must never be handed out twice. The id of a new group is count+1: the imported counter therefore has to cover every
// imported group id (a pruned/sparse id space included).
//@ func (k Keeper) SetGroupGenesis
//@ modifies Store_tss
//@ ensures forall j :: 0 <= j && j < len(groups) ==> groups[j].ID <= groupCount(Store_tss)
//@ loop 0: invariant forall j :: 0 <= j && j < #i ==> groups[j].ID <= maxGroupID

// A group is created only from pairwise different accounts (two member ids for one account would let one participant, with
// one queued nonce, fill two seats of a committee), at least one and at most MaxGroupSize of them.
//@ func (k Keeper) CreateGroup
//@ may_panic calls
//@ modifies Store_tss
//@ ensures err == nil ==> 1 <= len(members) && len(members) <= old(tssParams(Store_tss)).MaxGroupSize
//@ ensures err == nil ==> (forall i Int, j Int :: 0 <= i && i < j && j < len(members) ==> members[i] != members[j])
//@ loop 0: invariant forall j :: 0 <= j && j < #i ==> has(seenAddresses, addrstr(members[j])) && seenAddresses[addrstr(members[j])]
//@ loop 0: invariant forall i Int, j Int :: 0 <= i && i < j && j < #i ==> members[i] != members[j]
//@ loop 1: invariant true
//@ loop 2: invariant true

// ---- C04: who may complain --------------------------------------------------------------------------------------------
// A complaint message is accepted only in round 3, only from the account of the member it names as complainant (the
// member that is blamed when the complaint does not verify - so nobody can get a member marked malicious by complaining
// in its name), and only once per member (no confirm, no earlier complaint); what it records is filed under that member.
// (Preconditions: what MsgComplain.ValidateBasic guarantees, and the member store invariant.)
//@ func (k msgServer) Complain
//@ may_panic calls
//@ modifies Store_tss
//@ requires len(req.Complaints) >= 1 && (forall j :: 0 <= j && j < len(req.Complaints) ==> okComplaintIDs(req.Complaints[j]))
//@ requires forall m Int :: wfMember(Store_tss, req.GroupID, m)
//@ ensures err == nil ==> old(has(Store_tss, types.GroupStoreKey(req.GroupID))) && old(groupAt(Store_tss, req.GroupID)).Status == types.GROUP_STATUS_ROUND_3
//@ ensures err == nil ==> old(has(Store_tss, types.MemberStoreKey(req.GroupID, req.Complaints[0].Complainant))) && old(memberAt(Store_tss, req.GroupID, req.Complaints[0].Complainant)).Address == req.Sender
//@ ensures err == nil ==> !old(has(Store_tss, types.ConfirmStoreKey(req.GroupID, req.Complaints[0].Complainant))) && !old(has(Store_tss, types.ComplainsWithStatusStoreKey(req.GroupID, req.Complaints[0].Complainant)))
//@ ensures err == nil ==> has(Store_tss, types.ComplainsWithStatusStoreKey(req.GroupID, req.Complaints[0].Complainant))

// ---- frame of the store invariants: each record family is written only through these functions ------------------------
// (the invariants above are proved writer by writer - "a lock has its index entry", "a record is filed under its own id";
// a new function that Sets or Deletes such keys directly is outside that argument: ground obligation `writers/...`)
//@ writers AccumulatedCommitStoreKey: Keeper.DeleteAccumulatedCommit, Keeper.SetAccumulatedCommit
//@ writers ComplainsWithStatusStoreKey: Keeper.SetComplaintsWithStatus
//@ writers ConfirmComplainCountStoreKey: Keeper.DeleteConfirmComplainCount, Keeper.SetConfirmComplainCount
//@ writers ConfirmStoreKey: Keeper.SetConfirm
//@ writers DEQueueStoreKey: Keeper.SetDEQueue
//@ writers DEStoreKey: Keeper.DeleteDE, Keeper.SetDE
//@ writers DKGContextStoreKey: Keeper.DeleteDKGContext, Keeper.SetDKGContext
//@ writers GroupStoreKey: Keeper.SetGroup
//@ writers MemberStoreKey: Keeper.SetMember
//@ writers PartialSignatureCountStoreKey: Keeper.DeletePartialSignatureCount, Keeper.SetPartialSignatureCount
//@ writers PartialSignatureStoreKey: Keeper.SetPartialSignature
//@ writers Round1InfoCountStoreKey: Keeper.DeleteRound1InfoCount, Keeper.SetRound1InfoCount
//@ writers Round1InfoStoreKey: Keeper.SetRound1Info
//@ writers Round2InfoCountStoreKey: Keeper.DeleteRound2InfoCount, Keeper.SetRound2InfoCount
//@ writers Round2InfoStoreKey: Keeper.SetRound2Info
//@ writers SigningAttemptStoreKey: Keeper.DeleteSigningAttempt, Keeper.SetSigningAttempt
//@ writers SigningStoreKey: Keeper.SetSigning

// ---- read-only list getters (iterator + decode loops): results not modelled, no state written -------------------------
// (so that a caller which uses one of them stays analysable: the list is an arbitrary well-typed value)
//@ func (k Keeper) GetGroups
//@ trusted
//@ func (k Keeper) GetRound1Infos
//@ trusted
//@ func (k Keeper) GetRound2Infos
//@ trusted
//@ func (k Keeper) GetAllComplainsWithStatus
//@ trusted
//@ func (k Keeper) GetConfirms
//@ trusted
//@ func (k Keeper) GetMembers
//@ trusted
//@ func (k Keeper) GetPartialSignaturesWithKey
//@ trusted

// ---- C05: resetting one's nonces -------------------------------------------------------------------------------------------
// After a successful reset the account has NO queued nonce: the queue is empty (0, 0) - it does not claim entries that were
// just deleted - and every nonce that was queued is gone; other accounts' queues and nonces are untouched.
//@ func (k Keeper) ResetDE
//@ modifies Store_tss
//@ requires wfDE(Store_tss, address)
//@ ensures err == nil ==> DEQ(Store_tss, address).Head == 0 && DEQ(Store_tss, address).Tail == 0
//@ ensures err == nil ==> (forall i Int :: { hasDE(Store_tss, address, i) | types.DEStoreKey(address, i) } old(DEQ(Store_tss, address)).Head <= i && i < old(DEQ(Store_tss, address)).Tail ==> !hasDE(Store_tss, address, i))
//@ ensures forall q Bz :: !(iskey(types.DEStoreKey, q) && keyarg(types.DEStoreKey, q, 0) == address) && q != types.DEQueueStoreKey(address) ==> Store_tss[q] == old(Store_tss)[q]
//@ loop 0: invariant deQueue.Head <= i && i <= deQueue.Tail && deQueue == old(DEQ(Store_tss, address))
//@ loop 0: invariant forall j Int :: { hasDE(Store_tss, address, j) | types.DEStoreKey(address, j) } deQueue.Head <= j && j < i ==> !hasDE(Store_tss, address, j)
//@ loop 0: invariant forall q Bz :: !(iskey(types.DEStoreKey, q) && keyarg(types.DEStoreKey, q, 0) == address) && q != types.DEQueueStoreKey(address) ==> Store_tss[q] == old(Store_tss)[q]

// ---- C05: a genesis file cannot start a member off with a nonce queue longer than the limit it sets --------------------
// the queue written for an address holds at most MaxDESize entries, MaxDESize being the value of THIS genesis file's
// parameters (the ones SetParams just stored and EnqueueDEs will enforce from block 1 on)
//@ func (k Keeper) SetMembers
//@ trusted
//@ modifies Store_tss
//@ func (k Keeper) InitGenesis
//@ modifies Store_tss
//@ may_panic
//@ assert before acc: len(des) <= data.Params.MaxDESize
