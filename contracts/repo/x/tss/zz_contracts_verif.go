//go:build verif

package tss

// Contracts for govc (see /verif/DESIGN.md). Comment-only file; compiled only under -tags verif.

// C02 / C04 / C10: the tss end-blocker, composed from the contracts of its three stages. It returns no error; every
// group queued for processing is handled (its record is the only group record that stage may change); expired groups are swept; every pending signing is handled and that queue is emptied too. Store invariants
// (kept by every writer in the module): a stored group / signing is filed under its own id, the counters are ordered.
//@ func EndBlocker
//@ may_panic calls
//@ modifies Store_tss, Other, Bank, Count_OnGroupCreationCompleted, Count_OnGroupCreationFailed, AssignNonce, AssignMsg, AssignGroup, Count_OnSigningCompleted, CompletedWith
//@ requires keeper.wfGroups(Store_tss) && keeper.wfPending(Store_tss) && keeper.wfSignings(Store_tss)
//@ requires forall g Int :: has(Store_tss, types.GroupStoreKey(g)) ==> keeper.groupAt(Store_tss, g).ID == g
//@ ensures err == nil
//@ ensures len(keeper.pendingSids(Store_tss)) == 0
//@ loop 0: invariant keeper.wfGroups(Store_tss)
//@ loop 0: invariant keeper.wfPending(Store_tss)
//@ loop 0: invariant keeper.wfSignings(Store_tss)
//@ loop 0: invariant forall g Int :: has(Store_tss, types.GroupStoreKey(g)) ==> keeper.groupAt(Store_tss, g).ID == g

// ---- C02 / C14: the module's ABCI entry point returns exactly what its blocker returned --------------------------------
// (an error of the blocker must reach the SDK, which aborts the block; swallowing it would commit whatever the failed
// blocker had already written - e.g. a fee share taken from the fee collector but only partly paid out)
//@ func (am AppModule) EndBlock
//@ may_panic calls
//@ modifies *
//@ forwards EndBlocker
