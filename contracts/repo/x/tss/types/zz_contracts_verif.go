//go:build verif

package types

// Contracts for govc (see /verif/DESIGN.md). Comment-only file; compiled only under -tags verif.

// C04: slot of member `to` in the list of shares dealt by member `from` (1-based ids, own id skipped).
//@ func FindMemberSlot
//@ pure
//@ requires 1 <= from && 1 <= to && from != to
//@ ensures  to < from ==> result == to - 1
//@ ensures  to > from ==> result == to - 2

//@ lemma C04.slot_range: forall from tss.MemberID, to tss.MemberID, n Int :: 1 <= from && from <= n && 1 <= to && to <= n && from != to
//@      ==> 0 <= FindMemberSlot(from, to) && FindMemberSlot(from, to) <= n - 2
//@ lemma C04.slot_inj: forall from tss.MemberID, to1 tss.MemberID, to2 tss.MemberID :: 1 <= from && 1 <= to1 && 1 <= to2 && to1 != to2 && to1 != from && to2 != from
//@      ==> FindMemberSlot(from, to1) != FindMemberSlot(from, to2)

// Store key functions (x/tss/types/keys.go): constant prefix || fixed-width / length-prefixed fields.
// govc treats them as injective with pairwise disjoint ranges; the key-layout ground check inspects
// their bodies.
//@ keyfns GroupStoreKey DKGContextStoreKey MemberStoreKey Round1InfoCountStoreKey Round1InfoStoreKey
//@   AccumulatedCommitStoreKey Round2InfoStoreKey Round2InfoCountStoreKey ConfirmStoreKey
//@   ComplainsWithStatusStoreKey ConfirmComplainCountStoreKey DEStoreKey DEQueueStoreKey SigningStoreKey
//@   PartialSignatureCountStoreKey PartialSignatureStoreKey SigningAttemptStoreKey

//@ func (k RollingseedKeeper) GetRollingSeed
//@ trusted
