//go:build verif

package types

// Contracts for govc (see /verif/DESIGN.md). Comment-only file; compiled only under -tags verif.

// C04: slot of member `to` in the list of shares dealt by member `from` (1-based ids, own id skipped).
//@ func FindMemberSlot
//@ pure
//@ requires 1 <= from && 1 <= to && from != to
//@ ensures  to < from ==> result == to - 1
//@ ensures  to > from ==> result == to - 2

//@ lemma C04.slot_range: forall from tss.MemberID, to tss.MemberID, n Int :: 1 <= from && from <= n && 1 <= to && to <= n && from != to
//@      ==> 0 <= FindMemberSlot(from, to) && FindMemberSlot(from, to) <= n - 2
//@ lemma C04.slot_inj: forall from tss.MemberID, to1 tss.MemberID, to2 tss.MemberID :: 1 <= from && 1 <= to1 && 1 <= to2 && to1 != to2 && to1 != from && to2 != from
//@      ==> FindMemberSlot(from, to1) != FindMemberSlot(from, to2)

// Store key functions (x/tss/types/keys.go): constant prefix || fixed-width / length-prefixed fields.
// govc treats them as injective with pairwise disjoint ranges; the key-layout ground check inspects
// their bodies.
//@ keyfns GroupStoreKey DKGContextStoreKey MemberStoreKey Round1InfoCountStoreKey Round1InfoStoreKey
//@   AccumulatedCommitStoreKey Round2InfoStoreKey Round2InfoCountStoreKey ConfirmStoreKey
//@   ComplainsWithStatusStoreKey ConfirmComplainCountStoreKey DEStoreKey DEQueueStoreKey SigningStoreKey
//@   PartialSignatureCountStoreKey PartialSignatureStoreKey SigningAttemptStoreKey MembersStoreKey ConfirmsStoreKey PartialSignaturesStoreKey
//@   Round1InfosStoreKey Round2InfosStoreKey AccumulatedCommitsStoreKey ComplainsWithStatusesStoreKey
// layout fact (trusted, key-layout): ConfirmStoreKey(g, m) = ConfirmsStoreKey(g) || be64(m), and nothing else is stored
// under that prefix - a key below a group's confirm prefix is a confirm record of that group
//@ axiom confirmPrefix: forall q Bz, g Int :: hasprefix(q, ConfirmsStoreKey(g)) ==> iskey(ConfirmStoreKey, q) && keyarg(ConfirmStoreKey, q, 0) == g

// layout fact (trusted, key-layout): PartialSignatureStoreKey(id, n, m) = PartialSignaturesStoreKey(id, n) || be64(m), and nothing
// else is stored under that prefix - a key below an attempt's partial-signature prefix is a partial-signature record
//@ axiom partialSigPrefix: forall q Bz, id Int, n Int :: hasprefix(q, PartialSignaturesStoreKey(id, n)) ==> iskey(PartialSignatureStoreKey, q)

// layout facts (trusted, key-layout), same shape as confirmPrefix: the per-group prefix of each kind of DKG interim record
// is the record key without its last 8-byte field, and nothing else is stored below it
//@ axiom round1Prefix: forall q Bz, g Int :: hasprefix(q, Round1InfosStoreKey(g)) ==> iskey(Round1InfoStoreKey, q) && keyarg(Round1InfoStoreKey, q, 0) == g
//@ axiom round2Prefix: forall q Bz, g Int :: hasprefix(q, Round2InfosStoreKey(g)) ==> iskey(Round2InfoStoreKey, q) && keyarg(Round2InfoStoreKey, q, 0) == g
//@ axiom accCommitPrefix: forall q Bz, g Int :: hasprefix(q, AccumulatedCommitsStoreKey(g)) ==> iskey(AccumulatedCommitStoreKey, q) && keyarg(AccumulatedCommitStoreKey, q, 0) == g
//@ axiom complainPrefix: forall q Bz, g Int :: hasprefix(q, ComplainsWithStatusesStoreKey(g)) ==> iskey(ComplainsWithStatusStoreKey, q) && keyarg(ComplainsWithStatusStoreKey, q, 0) == g

// ... and conversely every record key lies below its group's prefix (it is built by appending to it)
//@ axiom recordBelowPrefix: forall g Int, m Int :: hasprefix(Round1InfoStoreKey(g, m), Round1InfosStoreKey(g)) && hasprefix(Round2InfoStoreKey(g, m), Round2InfosStoreKey(g)) && hasprefix(ConfirmStoreKey(g, m), ConfirmsStoreKey(g)) && hasprefix(ComplainsWithStatusStoreKey(g, m), ComplainsWithStatusesStoreKey(g))

//@ func (k RollingseedKeeper) GetRollingSeed
//@ trusted
//@ ensures result == rollingSeedOf(Other)

// ---- C11: what a group signs ---------------------------------------------------------------------------
// content kinds: whether a kind is module-internal is a constant per concrete type (ground check
// "internal-kinds"); through the interface it is named by an abstract predicate
//@ spec contentInternal(c Content) Bool uninterpreted
//@ func (c Content) IsInternal
//@ trusted
//@ ensures result == contentInternal(c)
//@ func (c Content) OrderRoute
//@ trusted
//@ func (c Content) OrderType
//@ trusted

// message = keccak(originator) || block time (8 bytes BE) || signing id (8 bytes BE) || content bytes
//@ func EncodeSigning
//@ ensures result == ext("bytes.Join", list(absfn("tss.Hash", originator), u64be(wrapu64(ctx.BlockTime().Unix())), u64be(signingID), contentMsg), bytes(""))

// originator = 4-byte kind tag || fixed-width fields (hashes and big-endian integers)
//@ func (o DirectOriginator) Encode
//@ ensures err == nil && result == ext("bytes.Join", list(bytes(DirectOriginatorPrefix), absfn("tss.Hash", bytes(o.SourceChainID)), absfn("tss.Hash", bytes(o.Requester)), absfn("tss.Hash", bytes(o.Memo))), bytes(""))
//@ func (o TunnelOriginator) Encode
//@ ensures err == nil && result == ext("bytes.Join", list(bytes(TunnelOriginatorPrefix), absfn("tss.Hash", bytes(o.SourceChainID)), u64be(o.TunnelID), absfn("tss.Hash", bytes(o.DestinationChainID)), absfn("tss.Hash", bytes(o.DestinationContractAddress))), bytes(""))

// callbacks of the module that owns a group (bandtss): they act on that module's state (and, through the tss keeper,
// on member activity flags), never on signing or group records
//@ func (cb TSSCallback) OnSigningFailed
//@ trusted
//@ modifies Other, Bank
// (call history of the completion callback: for which signing it was made, and with which member list - the owner module
// pays exactly the members it is handed)
//@ ghost Count_OnSigningCompleted map[uint64]int
//@ ghost CompletedWith []sdk.AccAddress
//@ func (cb TSSCallback) OnSigningCompleted
//@ trusted
//@ counts signingID
//@ modifies Other, Bank, CompletedWith
//@ ensures CompletedWith == assignedMembers
// the time-out callback penalises idle members: through the tss keeper it rewrites member records (activity flag) only
//@ func (cb TSSCallback) OnSigningTimeout
//@ trusted
//@ may_panic calls
//@ modifies Other, Bank, Store_tss
//@ ensures forall q Bz :: !iskey(MemberStoreKey, q) ==> Store_tss[q] == old(Store_tss)[q]
//@ func (ams AssignedMembers) PubNonces
//@ abstract

// ---- C03: looking a member up in the assignment of an attempt -------------------------------------------
// first assigned entry with that member id
//@ spec amFirst(ams AssignedMembers, mid Int, j Int) Bool = 0 <= j && j < len(ams) && ams[j].MemberID == mid && (forall i :: 0 <= i && i < j ==> ams[i].MemberID != mid)
//@ func (ams AssignedMembers) FindAssignedMember
//@ pure
//@ ensures result1 <==> (exists j :: 0 <= j && j < len(ams) && ams[j].MemberID == mid)
//@ ensures result1 ==> (exists j :: amFirst(ams, mid, j) && result0 == ams[j])
//@ loop 0: invariant forall i :: 0 <= i && i < #i ==> ams[i].MemberID != mid
// the submitted R must equal the public nonce assigned to THAT member
//@ func (ams AssignedMembers) VerifySignatureR
//@ pure
//@ ensures result <==> (exists j :: amFirst(ams, mid, j) && ext("bytes.Equal", r, ams[j].PubNonce))
//@ loop 0: invariant forall i :: 0 <= i && i < #i ==> ams[i].MemberID != mid
//@ func (ams AssignedMembers) MemberIDs
//@ abstract

// ---- C04: end of group creation -------------------------------------------------------------------------
//@ func (ms Members) HaveMalicious
//@ pure
//@ ensures result <==> (exists j :: 0 <= j && j < len(ms) && ms[j].IsMalicious)
//@ loop 0: invariant forall j :: 0 <= j && j < #i ==> !ms[j].IsMalicious
// call history of the owner-module callbacks: how often "created" / "failed" was reported for which group
//@ ghost Count_OnGroupCreationCompleted map[uint64]int
//@ ghost Count_OnGroupCreationFailed map[uint64]int
//@ func (cb TSSCallback) OnGroupCreationCompleted
//@ trusted
//@ counts groupID
//@ modifies Other, Bank
//@ func (cb TSSCallback) OnGroupCreationFailed
//@ trusted
//@ counts groupID
//@ modifies Other, Bank
//@ func (cb TSSCallback) OnGroupCreationExpired
//@ trusted
//@ modifies Other, Bank

// ---- C03/C04: stateless message validation the handlers rely on ---------------------------------------------------
// a complaint names two different, non-zero members
//@ func (c Complaint) Validate
//@ ensures err == nil ==> c.Complainant != 0 && c.Respondent != 0 && c.Complainant != c.Respondent
// C04: a complain message carries at least one complaint and ALL its complaints are made by the same member (the
// handler authenticates the sender against the first complaint's complainant only, and a failed complaint is blamed
// on the complaint's own complainant - so a complaint "by" someone else would blame an uninvolved member)
//@ func (m MsgComplain) ValidateBasic
//@ ensures err == nil ==> m.GroupID != 0 && bech32ok(m.Sender) && len(m.Complaints) >= 1
//@ ensures err == nil ==> (forall j :: 0 <= j && j < len(m.Complaints) ==> m.Complaints[j].Complainant == m.Complaints[0].Complainant
//@        && m.Complaints[j].Complainant != 0 && m.Complaints[j].Respondent != 0 && m.Complaints[j].Complainant != m.Complaints[j].Respondent)
//@ loop 0: invariant forall j :: 0 <= j && j < #i ==> m.Complaints[j].Complainant == m.Complaints[0].Complainant
//@        && m.Complaints[j].Complainant != 0 && m.Complaints[j].Respondent != 0 && m.Complaints[j].Complainant != m.Complaints[j].Respondent
// C03: a signature share reaches the handler only in the exact 65-byte encoding (the handler reads R and S by offset;
// anything longer would pass its checks and then break aggregation)
//@ func (m MsgSubmitSignature) ValidateBasic
//@ ensures err == nil ==> m.SigningID != 0 && m.MemberID != 0 && bech32ok(m.Signer) && tss.sigWellFormed(m.Signature)

// ---- C11: the bytes a group signs for a content = 4-byte route selector || the handler's message --------------------------
// (the closure returned by wrapHandler; it must build a FRESH byte string per call: appending to a slice shared between
// calls with spare capacity would let a later request overwrite the bytes an earlier one is still about to sign - the
// engine's `append-shared-capacity` obligation)
//@ func wrapHandler$lit0
//@ modifies *
//@ ensures err != nil ==> result == nil

// ---- C10: parameter values the signing clock and the attempt counter can work with -----------------------------------
// the expiry height of an attempt is uint64(height) + SigningPeriod and the attempt counter is incremented up to
// MaxSigningAttempt: accepted values must leave room for that arithmetic (a period near 2^64 wraps the expiry height
// into the past; a limit of 2^64-1 lets the counter wrap)
//@ func (p Params) Validate
//@ ensures err == nil ==> 1 <= p.SigningPeriod && p.SigningPeriod <= MaxInt64 && p.MaxSigningAttempt <= MaxInt64
//@ loop 0: invariant forall j :: 0 <= j && j < #i ==> (fields[j].isPositiveOnly ==> fields[j].val >= 1)

// ---- content / originator interfaces and the content router, as used by Keeper.RequestSigning: stateless -------------
//@ func (c Content) ValidateBasic
//@ trusted
//@ func (o Originator) Validate
//@ trusted
//@ func (o Originator) Encode
//@ trusted
//@ func (r *ContentRouter) HasRoute
//@ trusted
//@ func (r *ContentRouter) GetRoute
//@ trusted
//@ may_panic

// C04: round-2 data reaches the handler only with a non-zero member id and with EVERY encrypted share of the exact
// 48-byte form - any slot, not just the last: a malformed share that is stored cannot be decrypted by its recipient, whose
// complaint then fails and who is blamed in the dealer's place.
//@ func (r Round2Info) Validate
//@ ensures err == nil ==> r.MemberID != 0 && (forall j :: 0 <= j && j < len(r.EncryptedSecretShares) ==> len(r.EncryptedSecretShares[j]) == 48)
//@ loop 0: invariant forall j :: 0 <= j && j < #i ==> len(r.EncryptedSecretShares[j]) == 48
