//go:build verif

package types

// Contracts for govc (see /verif/DESIGN.md). Comment-only file; compiled only under -tags verif.

//@ keyfns ReportStoreKey RequestStoreKey DataSourceStoreKey OracleScriptStoreKey ValidatorStatusStoreKey SigningResultStoreKey ResultStoreKey ReportsOfValidatorPrefixKey

//@ func (k StakingKeeper) IterateBondedValidatorsByPower
//@ trusted
//@ func (k RollingseedKeeper) GetRollingSeed
//@ trusted
//@ ensures result == rollingSeedOf(Other)

//@ func (k StakingKeeper) ValidatorByConsAddr
//@ trusted
//@ func (k AccountKeeper) GetModuleAccount
//@ trusted
//@ func (k BankKeeper) GetAllBalances
//@ trusted
//@ func (k BankKeeper) SendCoinsFromModuleToModule
//@ trusted
//@ modifies Bank
//@ func (k DistrKeeper) GetCommunityTax
//@ trusted
//@ func (k DistrKeeper) FundCommunityPool
//@ trusted
//@ modifies Bank, Other
//@ func (k DistrKeeper) AllocateTokensToValidator
//@ trusted
//@ modifies Other

//@ func (k BankKeeper) SendCoins
//@ trusted
//@ modifies Bank
//@ ensures err == nil ==> Bank == bankA2A(old(Bank), from, to, amt)
//@ ensures err != nil ==> Bank == old(Bank)

// signing request through the bandtss keeper (charges the fee payer, writes bandtss/tss state): assumed; it may
// fail or panic
//@ func (k BandtssKeeper) CreateDirectSigningRequest
//@ trusted
//@ may_panic
//@ modifies Bank, Other
