//go:build verif

package types

// Contracts for govc (see /verif/DESIGN.md). Comment-only file; compiled only under -tags verif.

//@ keyfns ReportStoreKey RequestStoreKey DataSourceStoreKey OracleScriptStoreKey ValidatorStatusStoreKey SigningResultStoreKey ResultStoreKey ReportsOfValidatorPrefixKey

//@ func (k StakingKeeper) IterateBondedValidatorsByPower
//@ trusted
//@ func (k RollingseedKeeper) GetRollingSeed
//@ trusted
