//go:build verif

package types

// Contracts for govc (see /verif/DESIGN.md). Comment-only file; compiled only under -tags verif.

//@ keyfns ReportStoreKey RequestStoreKey DataSourceStoreKey OracleScriptStoreKey ValidatorStatusStoreKey SigningResultStoreKey ResultStoreKey ReportsOfValidatorPrefixKey

//@ func (k StakingKeeper) IterateBondedValidatorsByPower
//@ trusted
//@ func (k RollingseedKeeper) GetRollingSeed
//@ trusted
//@ ensures result == rollingSeedOf(Other)

// the staking module's view of a consensus address (abstract): who it is, or that it is unknown
//@ spec consVal(o OtherState, a Bz) stakingtypes.ValidatorI uninterpreted
//@ spec consErr(o OtherState, a Bz) Int uninterpreted
//@ func (k StakingKeeper) ValidatorByConsAddr
//@ trusted
//@ ensures err == consErr(Other, arg1) && (err == nil ==> result == consVal(Other, arg1))
//@ func (k AccountKeeper) GetModuleAccount
//@ trusted
//@ func (k BankKeeper) GetAllBalances
//@ trusted
// ---- reward bookkeeping ghosts (per denom, in 10^-18 units): what this module moved INTO the distribution
// module account, and what it told the distribution module to hand out (community pool + validator rewards)
//@ ghost DistrReceived map[string]int
//@ ghost DistrAllocated map[string]int
//@ func (k BankKeeper) SendCoinsFromModuleToModule
//@ trusted
//@ modifies Bank, DistrReceived
//@ ensures err != nil ==> DistrReceived == old(DistrReceived)
//@ ensures err == nil ==> (forall d Str :: DistrReceived[d] == old(DistrReceived)[d] + ext("Coins.AmountOf", amt, d) * 1000000000000000000)
// the community tax is a fraction in [0, 1] (distribution module parameter validation)
//@ func (k DistrKeeper) GetCommunityTax
//@ trusted
//@ ensures err == nil ==> 0 <= result && result <= 1000000000000000000
//@ func (k DistrKeeper) FundCommunityPool
//@ trusted
//@ modifies Bank, Other, DistrAllocated
//@ ensures err != nil ==> DistrAllocated == old(DistrAllocated)
//@ ensures err == nil ==> (forall d Str :: DistrAllocated[d] == old(DistrAllocated)[d] + ext("Coins.AmountOf", amount, d) * 1000000000000000000)
//@ func (k DistrKeeper) AllocateTokensToValidator
//@ trusted
//@ modifies Other, DistrAllocated
//@ ensures err != nil ==> DistrAllocated == old(DistrAllocated)
//@ ensures err == nil ==> (forall d Str :: DistrAllocated[d] == old(DistrAllocated)[d] + ext("DecCoins.AmountOf", tokens, d))

//@ func (k BankKeeper) SendCoins
//@ trusted
//@ modifies Bank
//@ ensures err == nil ==> Bank == bankA2A(old(Bank), from, to, amt)
//@ ensures err != nil ==> Bank == old(Bank)

// signing request through the bandtss keeper (charges the fee payer, writes bandtss/tss state): assumed; it may
// fail or panic
//@ func (k BandtssKeeper) CreateDirectSigningRequest
//@ trusted
//@ may_panic calls
//@ modifies Bank, Other

// ---- C02/C14: parameter validation accepts only reward percentages that are percentages ---------------------
// (a value above 100 makes the begin-blocker ask the fee collector for more than it holds: the transfer fails, the
// begin-blocker returns the error and the block cannot be finalized)
//@ func (p Params) Validate
//@ ensures err == nil ==> p.OracleRewardPercentage <= 100
// C09: the number of sampling tries is converted to int by GetRandomValidators; accepted values must survive that
//@ ensures err == nil ==> 1 <= p.SamplingTryCount && p.SamplingTryCount <= MaxInt64
// C15: the inactivity penalty is converted to a time.Duration (int64 nanoseconds) by Activate; accepted values must
// survive that, or the penalty is negative and never applies
//@ ensures err == nil ==> p.InactivePenaltyDuration <= MaxInt64

// ---- C01: stateless validation of a data request -------------------------------------------------------------------
// at least one report is needed to resolve (a request with min_count 0 could never reach its count and would expire
// with every report in), and never more reports than validators asked
//@ func (m MsgRequestData) ValidateBasic
//@ ensures err == nil ==> 1 <= m.MinCount && m.MinCount <= m.AskCount && bech32ok(m.Sender)
//@ ensures err == nil ==> len(m.ClientID) <= MaxClientIDLength && 1 <= m.PrepareGas && 1 <= m.ExecuteGas

// the same bounds for a request that arrives as an IBC packet (OnRecvPacket validates it with this function before
// PrepareRequest runs): a cross-chain request with min_count 0 could never resolve either
//@ func (p OracleRequestPacketData) ValidateBasic
//@ ensures err == nil ==> 1 <= p.MinCount && p.MinCount <= p.AskCount
//@ ensures err == nil ==> len(p.ClientID) <= MaxClientIDLength && 1 <= p.PrepareGas && 1 <= p.ExecuteGas
// (the bound on PrepareGas + ExecuteGas is not stated: the uint64 sum wraps for ExecuteGas near 2^64, which the gas
// meter catches later - ConsumeGas(ExecuteGas) in PrepareRequest fails the transaction - and C01 says nothing about gas)

// C01: the response packet that reports a resolved request to the requesting chain carries each argument in the field
// of its name (request and resolve time are both int64: the type checker cannot tell them apart)
//@ func NewOracleResponsePacketData
// (a parameter is called "result", so the unnamed result is "ret")
//@ ensures ret.ClientID == clientID && ret.RequestID == requestID && ret.AnsCount == ansCount
//@ ensures ret.RequestTime == requestTime && ret.ResolveTime == resolveTime
//@ ensures ret.ResolveStatus == resolveStatus && ret.Result == result

// the environment object handed to the VM for the execution phase (maps of reports by validator and external id: not
// modelled); it starts without return data
//@ func NewExecuteEnv
//@ trusted
//@ ensures result.Retdata == nil

// C01 / C02: the callbacks the VM makes into the environment while a script runs (inside the end-blocker) never panic,
// whatever validator index or external id the script asks for: an index outside the request's validators is an error
// the script can handle, not an index out of range that takes the end-blocker down
//@ func (env *ExecuteEnv) getExternalDataFull
//@ ensures (valIdx < 0 || valIdx >= len(env.request.RequestedValidators)) ==> err != nil

// C01: a report reaches the handler only with at least one raw report and pairwise different external ids - ANY two, not
// just neighbours. CheckValidReport then checks the count and that every id was requested; together: the report carries
// exactly the requested ids, each once. (This is the only place a repeated id is refused.)
//@ func (m MsgReportData) ValidateBasic
//@ ensures err == nil ==> len(m.RawReports) >= 1
//@ ensures err == nil ==> (forall i Int, j Int :: 0 <= i && i < j && j < len(m.RawReports) ==> m.RawReports[i].ExternalID != m.RawReports[j].ExternalID)
//@ loop 0: invariant forall j :: 0 <= j && j < #i ==> has(uniqueMap, m.RawReports[j].ExternalID)
//@ loop 0: invariant forall i Int, j Int :: 0 <= i && i < j && j < #i ==> m.RawReports[i].ExternalID != m.RawReports[j].ExternalID
