//go:build verif

package oracle

// Contracts for govc (see /verif/DESIGN.md). Comment-only file; compiled only under -tags verif.

// C01: at the end of the block every request in the pending-resolve list is resolved (it still has its
// request record and no result at that moment, i.e. resolution happens before expiry processing), the
// list is cleared, and a result that already existed is never overwritten.
//@ func EndBlocker
//@ may_panic calls
//@ modifies Store_oracle, Other, Bank, VMErr, VMRet
//@ requires keeper.wfRequests(Store_oracle)
//@ requires forall i :: 0 <= i && i < len(keeper.pendingIDs(Store_oracle)) ==>
//@             has(Store_oracle, types.RequestStoreKey(keeper.pendingIDs(Store_oracle)[i])) && !has(Store_oracle, types.ResultStoreKey(keeper.pendingIDs(Store_oracle)[i]))
//@ requires forall i, j :: 0 <= i && i < j && j < len(keeper.pendingIDs(Store_oracle)) ==> keeper.pendingIDs(Store_oracle)[i] != keeper.pendingIDs(Store_oracle)[j]
//@ ensures  err == nil
//@ ensures  len(keeper.pendingIDs(Store_oracle)) == 0
//@ ensures  forall i :: 0 <= i && i < len(old(keeper.pendingIDs(Store_oracle))) ==> has(Store_oracle, types.ResultStoreKey(old(keeper.pendingIDs(Store_oracle))[i]))
//@ ensures  forall id Int :: old(has(Store_oracle, types.ResultStoreKey(id))) ==> Store_oracle[types.ResultStoreKey(id)] == old(Store_oracle)[types.ResultStoreKey(id)]
//@ loop 0: invariant forall j :: #i <= j && j < len(#coll) ==> has(Store_oracle, types.RequestStoreKey(#coll[j])) && !has(Store_oracle, types.ResultStoreKey(#coll[j]))
//@ loop 0: invariant forall j :: 0 <= j && j < #i ==> has(Store_oracle, types.ResultStoreKey(#coll[j]))
//@ loop 0: invariant forall id Int :: old(has(Store_oracle, types.ResultStoreKey(id))) ==> Store_oracle[types.ResultStoreKey(id)] == old(Store_oracle)[types.ResultStoreKey(id)]
//@ loop 0: invariant Store_oracle[types.PendingResolveListStoreKey] == old(Store_oracle)[types.PendingResolveListStoreKey]
//@ loop 0: invariant keeper.wfRequests(Store_oracle)

// C02 / C14: the oracle begin-blocker is the reward allocation over the previous block's votes, nothing else; its
// store invariant is the one SetParams establishes (validated parameters), its input ranges those of CometBFT vote
// infos (see AllocateTokens).
//@ func BeginBlocker
//@ may_panic calls
//@ modifies Bank, Other, DistrReceived, DistrAllocated
//@ requires len(ctx.VoteInfos()) <= 4096 && (forall j :: 0 <= j && j < len(ctx.VoteInfos()) ==> 0 <= ctx.VoteInfos()[j].Validator.Power && ctx.VoteInfos()[j].Validator.Power <= 1125899906842624)
//@ requires keeper.oracleParams(Store_oracle).OracleRewardPercentage <= 100
//@ ensures err == nil ==> (forall d Str :: DistrAllocated[d] - old(DistrAllocated)[d] == DistrReceived[d] - old(DistrReceived)[d])

// ---- C11: the content signed for an oracle result starts with the tag of the encoding that was asked for ---------------
// (tags as numbers, independent of the constants in the code: Proto 01e2adb3, FullABI 45b4e7ea, PartialABI 7bae7cd8; two
// encodings under one tag would make a consumer that dispatches on the tag decode the 7-field tuple as the 11-field one)
//@ func NewSignatureOrderHandler$lit0
//@ may_panic calls
//@ modifies *
//@ ensures err == nil ==> typeis(content, "*types.OracleResultSignatureOrder")
//@ ensures err == nil ==> (let c = unbox(content, "*types.OracleResultSignatureOrder") in
//@        (c.Encoder == types.ENCODER_PROTO || c.Encoder == types.ENCODER_FULL_ABI || c.Encoder == types.ENCODER_PARTIAL_ABI)
//@     && (c.Encoder == types.ENCODER_PROTO ==> result[0] == 1 && result[1] == 226 && result[2] == 173 && result[3] == 179)
//@     && (c.Encoder == types.ENCODER_FULL_ABI ==> result[0] == 69 && result[1] == 180 && result[2] == 231 && result[3] == 234)
//@     && (c.Encoder == types.ENCODER_PARTIAL_ABI ==> result[0] == 123 && result[1] == 174 && result[2] == 124 && result[3] == 216))

// ---- C02 / C14: the module's ABCI entry point returns exactly what its blocker returned --------------------------------
// (an error of the blocker must reach the SDK, which aborts the block; swallowing it would commit whatever the failed
// blocker had already written - e.g. a fee share taken from the fee collector but only partly paid out)
//@ func (am AppModule) BeginBlock
//@ may_panic calls
//@ modifies *
//@ forwards BeginBlocker
//@ func (am AppModule) EndBlock
//@ may_panic calls
//@ modifies *
//@ forwards EndBlocker
