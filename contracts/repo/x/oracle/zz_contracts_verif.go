//go:build verif

package oracle

// Contracts for govc (see /verif/DESIGN.md). Comment-only file; compiled only under -tags verif.

// C01: at the end of the block every request in the pending-resolve list is resolved (it still has its
// request record and no result at that moment, i.e. resolution happens before expiry processing), the
// list is cleared, and a result that already existed is never overwritten.
//@ func EndBlocker
//@ may_panic calls
//@ modifies Store_oracle, Other, Bank, VMErr, VMRet
//@ requires keeper.wfRequests(Store_oracle)
//@ requires forall i :: 0 <= i && i < len(keeper.pendingIDs(Store_oracle)) ==>
//@             has(Store_oracle, types.RequestStoreKey(keeper.pendingIDs(Store_oracle)[i])) && !has(Store_oracle, types.ResultStoreKey(keeper.pendingIDs(Store_oracle)[i]))
//@ requires forall i, j :: 0 <= i && i < j && j < len(keeper.pendingIDs(Store_oracle)) ==> keeper.pendingIDs(Store_oracle)[i] != keeper.pendingIDs(Store_oracle)[j]
//@ ensures  err == nil
//@ ensures  len(keeper.pendingIDs(Store_oracle)) == 0
//@ ensures  forall i :: 0 <= i && i < len(old(keeper.pendingIDs(Store_oracle))) ==> has(Store_oracle, types.ResultStoreKey(old(keeper.pendingIDs(Store_oracle))[i]))
//@ ensures  forall id Int :: old(has(Store_oracle, types.ResultStoreKey(id))) ==> Store_oracle[types.ResultStoreKey(id)] == old(Store_oracle)[types.ResultStoreKey(id)]
//@ loop 0: invariant forall j :: #i <= j && j < len(#coll) ==> has(Store_oracle, types.RequestStoreKey(#coll[j])) && !has(Store_oracle, types.ResultStoreKey(#coll[j]))
//@ loop 0: invariant forall j :: 0 <= j && j < #i ==> has(Store_oracle, types.ResultStoreKey(#coll[j]))
//@ loop 0: invariant forall id Int :: old(has(Store_oracle, types.ResultStoreKey(id))) ==> Store_oracle[types.ResultStoreKey(id)] == old(Store_oracle)[types.ResultStoreKey(id)]
//@ loop 0: invariant Store_oracle[types.PendingResolveListStoreKey] == old(Store_oracle)[types.PendingResolveListStoreKey]
//@ loop 0: invariant keeper.wfRequests(Store_oracle)

// C02 / C14: the oracle begin-blocker is the reward allocation over the previous block's votes, nothing else; its
// store invariant is the one SetParams establishes (validated parameters), its input ranges those of CometBFT vote
// infos (see AllocateTokens).
//@ func BeginBlocker
//@ may_panic calls
//@ modifies Bank, Other, DistrReceived, DistrAllocated
//@ requires len(ctx.VoteInfos()) <= 4096 && (forall j :: 0 <= j && j < len(ctx.VoteInfos()) ==> 0 <= ctx.VoteInfos()[j].Validator.Power && ctx.VoteInfos()[j].Validator.Power <= 1125899906842624)
//@ requires keeper.oracleParams(Store_oracle).OracleRewardPercentage <= 100
//@ ensures err == nil ==> (forall d Str :: DistrAllocated[d] - old(DistrAllocated)[d] == DistrReceived[d] - old(DistrReceived)[d])
