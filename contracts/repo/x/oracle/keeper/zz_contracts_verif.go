//go:build verif

package keeper

// Contracts for govc (see /verif/DESIGN.md). Comment-only file; compiled only under -tags verif.

// ---- views of the oracle store ---------------------------------------------------------------------
//@ spec vstatus(s Store, v Addr) types.ValidatorStatus = has(s, types.ValidatorStatusStoreKey(v)) ? dec(types.ValidatorStatus, s[types.ValidatorStatusStoreKey(v)]) : types.ValidatorStatus{false, TimeZero}
//@ spec oracleParams(s Store) types.Params = has(s, types.ParamsKeyPrefix) ? dec(types.Params, s[types.ParamsKeyPrefix]) : zero(types.Params)
//@ spec penaltyNs(s Store) Int = wrap64(oracleParams(s).InactivePenaltyDuration)

// C15: a validator becomes oracle-active only through Activate, and only if it is currently inactive and
// either never was deactivated or the inactivity penalty has fully elapsed since its deactivation.
//@ func (k Keeper) Activate
//@ modifies Store_oracle
//@ ensures err == nil <==> (!old(vstatus(Store_oracle, val)).IsActive
//@            && (old(vstatus(Store_oracle, val)).Since == TimeZero
//@                || old(vstatus(Store_oracle, val)).Since + old(penaltyNs(Store_oracle)) <= ctx.BlockTime()))
//@ ensures err == nil ==> Store_oracle == store(old(Store_oracle), types.ValidatorStatusStoreKey(val), enc(types.ValidatorStatus{true, ctx.BlockTime()}))
//@ ensures err != nil ==> Store_oracle == old(Store_oracle)

// C15: a miss deactivates only a validator that was already active before the request was made, and the
// penalty clock starts at the deactivation (block time), not at the request.
//@ func (k Keeper) MissReport
//@ modifies Store_oracle
//@ ensures (old(vstatus(Store_oracle, val)).IsActive && old(vstatus(Store_oracle, val)).Since < requestTime)
//@            ==> Store_oracle == store(old(Store_oracle), types.ValidatorStatusStoreKey(val), enc(types.ValidatorStatus{false, ctx.BlockTime()}))
//@ ensures !(old(vstatus(Store_oracle, val)).IsActive && old(vstatus(Store_oracle, val)).Since < requestTime)
//@            ==> Store_oracle == old(Store_oracle)
