//go:build verif

package keeper

// Contracts for govc (see /verif/DESIGN.md). Comment-only file; compiled only under -tags verif.

// ---- views of the oracle store ---------------------------------------------------------------------
//@ spec vstatus(s Store, v Addr) types.ValidatorStatus = has(s, types.ValidatorStatusStoreKey(v)) ? dec(types.ValidatorStatus, s[types.ValidatorStatusStoreKey(v)]) : types.ValidatorStatus{false, TimeZero}
//@ spec oracleParams(s Store) types.Params = has(s, types.ParamsKeyPrefix) ? dec(types.Params, s[types.ParamsKeyPrefix]) : zero(types.Params)
// (the penalty as configured, over the integers; it fits a Duration because SetParams stores validated parameters only: F10)
//@ spec penaltyNs(s Store) Int = oracleParams(s).InactivePenaltyDuration

// C15: a validator becomes oracle-active only through Activate, and only if it is currently inactive and
// either never was deactivated or the inactivity penalty has fully elapsed since its deactivation.
//@ func (k Keeper) Activate
//@ modifies Store_oracle
// store invariant: validated parameters (SetParams is the only writer of the record)
//@ requires oracleParams(Store_oracle).InactivePenaltyDuration <= MaxInt64
//@ ensures err == nil <==> (!old(vstatus(Store_oracle, val)).IsActive
//@            && (old(vstatus(Store_oracle, val)).Since == TimeZero
//@                || old(vstatus(Store_oracle, val)).Since + old(penaltyNs(Store_oracle)) <= ctx.BlockTime()))
//@ ensures err == nil ==> Store_oracle == store(old(Store_oracle), types.ValidatorStatusStoreKey(val), enc(types.ValidatorStatus{true, ctx.BlockTime()}))
//@ ensures err != nil ==> Store_oracle == old(Store_oracle)

// C15: a miss deactivates only a validator that was already active before the request was made, and the
// penalty clock starts at the deactivation (block time), not at the request.
//@ func (k Keeper) MissReport
//@ modifies Store_oracle
//@ ensures (old(vstatus(Store_oracle, val)).IsActive && old(vstatus(Store_oracle, val)).Since < requestTime)
//@            ==> Store_oracle == store(old(Store_oracle), types.ValidatorStatusStoreKey(val), enc(types.ValidatorStatus{false, ctx.BlockTime()}))
//@ ensures !(old(vstatus(Store_oracle, val)).IsActive && old(vstatus(Store_oracle, val)).Since < requestTime)
//@            ==> Store_oracle == old(Store_oracle)

// ---- C01: reports ---------------------------------------------------------------------------------
//@ spec reqAt(s Store, id Int) types.Request = dec(types.Request, s[types.RequestStoreKey(id)])
//@ spec hasEID(rs []types.RawRequest, e Int) Bool = exists i :: 0 <= i && i < len(rs) && rs[i].ExternalID == e
//@ spec requestedVal(vs []string, v Addr) Bool = exists i :: 0 <= i && i < len(vs) && bech32ok(vs[i]) && bech32addr(vs[i]) == v
// the pending-resolve list as stored (empty when the key is absent or empty)
//@ spec pendingIDs(s Store) []uint64 = len(s[types.PendingResolveListStoreKey]) == 0 ? zero("[]uint64") : dec(types.PendingResolveList, s[types.PendingResolveListStoreKey]).RequestIds

//@ func ContainsEID
//@ ensures result <==> hasEID(rawRequests, target)
//@ loop 0: invariant forall j :: 0 <= j && j < #i ==> rawRequests[j].ExternalID != target

// Only a validator chosen for the request can report, at most once, with exactly as many raw reports as
// raw requests and only with external ids that occur in the request.
//@ func (k Keeper) CheckValidReport
//@ ensures err == nil ==> has(Store_oracle, types.RequestStoreKey(rid))
//@ ensures err == nil ==> requestedVal(reqAt(Store_oracle, rid).RequestedValidators, val)
//@ ensures err == nil ==> !has(Store_oracle, types.ReportsOfValidatorPrefixKey(rid, val))
//@ ensures err == nil ==> len(rawReports) == len(reqAt(Store_oracle, rid).RawRequests)
//@ ensures err == nil ==> (forall j :: 0 <= j && j < len(rawReports) ==> hasEID(reqAt(Store_oracle, rid).RawRequests, rawReports[j].ExternalID))
//@ loop 0: invariant !found
//@ loop 1: invariant forall j :: 0 <= j && j < #i ==> hasEID(req.RawRequests, rawReports[j].ExternalID)

// The number of reports of a request is the number of store entries under its report prefix.
//@ func (k Keeper) GetReportCount
//@ ensures count == pcount(Store_oracle, types.ReportStoreKey(rid))
//@ loop 0: invariant count == itpos(iterator) && itpos(iterator) <= itlen(iterator)

// protobuf wire-format fact (trusted): a PendingResolveList encodes to zero bytes iff its list is empty
//@ axiom pendingEnc: forall x types.PendingResolveList :: (len(enc(x)) == 0) <==> (len(x.RequestIds) == 0)

//@ func (k Keeper) GetPendingResolveList
//@ ensures len(ids) == len(pendingIDs(Store_oracle))
//@ ensures forall j :: 0 <= j && j < len(ids) ==> ids[j] == pendingIDs(Store_oracle)[j]
//@ loop 0: invariant len(ids) == #i && (forall j :: 0 <= j && j < #i ==> ids[j] == pendingResolveList.RequestIds[j])

//@ func (k Keeper) SetPendingResolveList
//@ modifies Store_oracle
//@ ensures len(pendingIDs(Store_oracle)) == len(ids)
//@ ensures forall j :: 0 <= j && j < len(ids) ==> pendingIDs(Store_oracle)[j] == ids[j]
//@ ensures forall q Bz :: q != types.PendingResolveListStoreKey ==> Store_oracle[q] == old(Store_oracle)[q]
//@ loop 0: invariant len(intVs) == len(ids) && (forall j :: 0 <= j && j < #i ==> intVs[j] == ids[j])

//@ func (k Keeper) AddPendingRequest
//@ modifies Store_oracle
//@ ensures len(pendingIDs(Store_oracle)) == len(old(pendingIDs(Store_oracle))) + 1
//@ ensures pendingIDs(Store_oracle)[len(old(pendingIDs(Store_oracle)))] == id
//@ ensures forall j :: 0 <= j && j < len(old(pendingIDs(Store_oracle))) ==> pendingIDs(Store_oracle)[j] == old(pendingIDs(Store_oracle))[j]
//@ ensures forall q Bz :: q != types.PendingResolveListStoreKey ==> Store_oracle[q] == old(Store_oracle)[q]

// C01: a report is accepted only before expiry, only from a validator chosen for the request, at most once
// and with exactly the requested external ids; the request joins the pending-resolve list exactly when
// this report makes the number of in-time reports equal to min_count (so at most once per request).
//@ func (k msgServer) ReportData
//@ modifies Store_oracle
//@ requires len(Store_oracle[types.RequestLastExpiredStoreKey]) >= 8
//@ ensures err == nil ==> msg.RequestID > u64of(old(Store_oracle)[types.RequestLastExpiredStoreKey])
//@ ensures err == nil ==> bech32ok(msg.Validator) && old(has(Store_oracle, types.RequestStoreKey(msg.RequestID)))
//@ ensures err == nil ==> requestedVal(old(reqAt(Store_oracle, msg.RequestID)).RequestedValidators, bech32addr(msg.Validator))
//@ ensures err == nil ==> !old(has(Store_oracle, types.ReportsOfValidatorPrefixKey(msg.RequestID, bech32addr(msg.Validator))))
//@ ensures err == nil ==> has(Store_oracle, types.ReportsOfValidatorPrefixKey(msg.RequestID, bech32addr(msg.Validator)))
//@ ensures err == nil ==> len(msg.RawReports) == len(old(reqAt(Store_oracle, msg.RequestID)).RawRequests)
//@ ensures err == nil ==> (forall j :: 0 <= j && j < len(msg.RawReports) ==> hasEID(old(reqAt(Store_oracle, msg.RequestID)).RawRequests, msg.RawReports[j].ExternalID))
//@ ensures err == nil ==>
//@    (let s1 = store(old(Store_oracle), types.ReportsOfValidatorPrefixKey(msg.RequestID, bech32addr(msg.Validator)),
//@                    enc(types.Report{addrstr(bech32addr(msg.Validator)), !old(has(Store_oracle, types.ResultStoreKey(msg.RequestID))), msg.RawReports})) in
//@     let due = !old(has(Store_oracle, types.ResultStoreKey(msg.RequestID)))
//@               && pcount(s1, types.ReportStoreKey(msg.RequestID)) == old(reqAt(Store_oracle, msg.RequestID)).MinCount in
//@     (due ==> len(pendingIDs(Store_oracle)) == len(old(pendingIDs(Store_oracle))) + 1
//@              && pendingIDs(Store_oracle)[len(old(pendingIDs(Store_oracle)))] == msg.RequestID
//@              && (forall j :: 0 <= j && j < len(old(pendingIDs(Store_oracle))) ==> pendingIDs(Store_oracle)[j] == old(pendingIDs(Store_oracle))[j])
//@              && (forall q Bz :: q != types.PendingResolveListStoreKey ==> Store_oracle[q] == s1[q]))
//@     && (!due ==> Store_oracle == s1))
//@ ensures err != nil ==> Store_oracle == old(Store_oracle)

// The oracle script runs in an external VM (go-owasm): what it does is not modelled, only what it hands back. Ghosts:
// the error of the last run (0 = none) and the return data the script left in the environment object.
//@ ghost VMErr Int
//@ ghost VMRet Bz
//@ extern (vm github.com/bandprotocol/go-owasm/api.Vm) Execute(code, gasLimit, env) (output, err)
//@ modifies env, VMErr, VMRet
//@ ensures err == VMErr && env.Retdata == VMRet
// the reports stored for a request, in store order (iterator + decode loop: body not verified; named abstractly)
//@ spec reportsOf(s Store, rid Int) []types.Report uninterpreted
//@ func (k Keeper) GetReports
//@ trusted
//@ ensures reports == reportsOf(Store_oracle, rid)
//@ func (k Keeper) GetFile
//@ trusted
//@ func (k Keeper) handleCreateSigningFailed
//@ trusted
//@ modifies Store_oracle
//@ ensures forall q Bz :: q != types.SigningResultStoreKey(id) ==> Store_oracle[q] == old(Store_oracle)[q]

// Resolution saves exactly one result for a request that has none (it needs the request record): SUCCESS carrying
// exactly the script's return data when the script ran without error AND set return data (an EMPTY answer is an
// answer); FAILURE with no data otherwise. Nothing but the result (and the signing result) record is written.
//@ func (k Keeper) ResolveRequest
//@ may_panic calls
//@ modifies Store_oracle, Other, Bank, VMErr, VMRet
//@ requires has(Store_oracle, types.RequestStoreKey(reqID)) && !has(Store_oracle, types.ResultStoreKey(reqID))
//@ ensures  has(Store_oracle, types.ResultStoreKey(reqID))
//@ ensures  forall q Bz :: q != types.ResultStoreKey(reqID) && q != types.SigningResultStoreKey(reqID) ==> Store_oracle[q] == old(Store_oracle)[q]
//@ ensures  (VMErr == 0 && VMRet != nil) ==> resultAt(Store_oracle, reqID).ResolveStatus == types.RESOLVE_STATUS_SUCCESS && resultAt(Store_oracle, reqID).Result == VMRet
//@ ensures  !(VMErr == 0 && VMRet != nil) ==> resultAt(Store_oracle, reqID).ResolveStatus == types.RESOLVE_STATUS_FAILURE && len(resultAt(Store_oracle, reqID).Result) == 0

// deleting a request's reports removes report records of THAT request only (iterator + delete loops: body not verified)
//@ func (k Keeper) DeleteReports
//@ trusted
//@ modifies Store_oracle
//@ ensures forall q Bz :: !(iskey(types.ReportsOfValidatorPrefixKey, q) && keyarg(types.ReportsOfValidatorPrefixKey, q, 0) == rid) ==> Store_oracle[q] == old(Store_oracle)[q]

//@ spec lastExpired(s Store) Int = u64of(s[types.RequestLastExpiredStoreKey])
//@ spec reqCount(s Store) Int = u64of(s[types.RequestCountStoreKey])
// C01 / C15: expiry walks the request ids after the cursor in order and stops at the first request that is not yet
// expired. Every request it passes ends up WITH a result (EXPIRED if it had none - an existing result is never
// replaced) and WITHOUT its request record; the cursor ends on the last request passed; requests beyond the cursor,
// the pending list and all earlier results are untouched.
// store invariant of the request id space: both counters are stored as 8 bytes, the expiry cursor is not past the
// request count, and every request after the cursor still has its record
//@ spec wfRequests(s Store) Bool = len(s[types.RequestLastExpiredStoreKey]) == 8 && len(s[types.RequestCountStoreKey]) == 8
//@      && reqCount(s) < MaxUint64 && lastExpired(s) <= reqCount(s)
//@      && (forall id Int :: lastExpired(s) < id && id <= reqCount(s) ==> has(s, types.RequestStoreKey(id)) && 0 <= oreqAt(s, id).RequestHeight)
//@ spec missedBy(s0 Store, v Addr, lo Int, hi Int) Bool = vstatus(s0, v).IsActive && (exists id Int :: lo < id && id <= hi && vstatus(s0, v).Since < oreqAt(s0, id).RequestTime * 1000000000)
// (expiry is stated over the integers, for EVERY value of the expiration_block_count parameter: F9)
//@ func (k Keeper) ProcessExpiredRequests
//@ modifies Store_oracle, Other
//@ requires wfRequests(Store_oracle)
//@ ensures  wfRequests(Store_oracle)
//@ ensures  Store_oracle[types.PendingResolveListStoreKey] == old(Store_oracle)[types.PendingResolveListStoreKey]
//@ ensures  forall id Int :: old(has(Store_oracle, types.ResultStoreKey(id))) ==> Store_oracle[types.ResultStoreKey(id)] == old(Store_oracle)[types.ResultStoreKey(id)]
//@ ensures  old(lastExpired(Store_oracle)) <= lastExpired(Store_oracle) && lastExpired(Store_oracle) <= old(reqCount(Store_oracle))
//@ ensures  forall id Int :: old(lastExpired(Store_oracle)) < id && id <= lastExpired(Store_oracle) ==> has(Store_oracle, types.ResultStoreKey(id)) && !has(Store_oracle, types.RequestStoreKey(id))
//@ ensures  forall id Int :: id > lastExpired(Store_oracle) ==> Store_oracle[types.RequestStoreKey(id)] == old(Store_oracle)[types.RequestStoreKey(id)] && Store_oracle[types.ResultStoreKey(id)] == old(Store_oracle)[types.ResultStoreKey(id)]
// ... and only requests whose expiration height has been reached are passed; the walk stops at the first one that has not
//@ ensures  forall id Int :: old(lastExpired(Store_oracle)) < id && id <= lastExpired(Store_oracle) ==> old(oreqAt(Store_oracle, id)).RequestHeight + old(oracleParams(Store_oracle)).ExpirationBlockCount <= ctx.BlockHeight()
//@ ensures  lastExpired(Store_oracle) < old(reqCount(Store_oracle)) ==> (let id = lastExpired(Store_oracle) + 1 in old(oreqAt(Store_oracle, id)).RequestHeight + old(oracleParams(Store_oracle)).ExpirationBlockCount > ctx.BlockHeight())
// C15: whoever's oracle status changes in this sweep was ACTIVE and had been so since BEFORE the time one of the swept
// requests was made (request time = its whole-second timestamp, not a moment later): nobody is deactivated for a request
// made before it (re)activated
//@ ensures forall v Addr :: vstatus(Store_oracle, v) != old(vstatus(Store_oracle, v)) ==> missedBy(old(Store_oracle), v, old(lastExpired(Store_oracle)), lastExpired(Store_oracle))
//@ loop 0: invariant forall v Addr :: vstatus(Store_oracle, v) != old(vstatus(Store_oracle, v)) ==> missedBy(old(Store_oracle), v, old(lastExpired(Store_oracle)), currentReqID - 1)
//@ loop 1: invariant forall v Addr :: vstatus(Store_oracle, v) != old(vstatus(Store_oracle, v)) ==> missedBy(old(Store_oracle), v, old(lastExpired(Store_oracle)), currentReqID)
//@ loop 1: invariant req == oreqAt(old(Store_oracle), currentReqID)
//@ loop 0: invariant forall id Int :: old(lastExpired(Store_oracle)) < id && id < currentReqID ==> old(oreqAt(Store_oracle, id)).RequestHeight + old(oracleParams(Store_oracle)).ExpirationBlockCount <= ctx.BlockHeight()
//@ loop 0: invariant expirationBlockCount == old(oracleParams(Store_oracle)).ExpirationBlockCount
//@ loop 0: invariant forall id Int :: old(lastExpired(Store_oracle)) < id && id <= lastReqID ==> 0 <= old(oreqAt(Store_oracle, id)).RequestHeight
//@ loop 0: invariant old(lastExpired(Store_oracle)) + 1 <= currentReqID && currentReqID <= lastReqID + 1 && lastReqID == old(reqCount(Store_oracle)) && lastReqID < MaxUint64
//@ loop 0: invariant lastExpired(Store_oracle) == currentReqID - 1 && len(Store_oracle[types.RequestLastExpiredStoreKey]) == 8 && Store_oracle[types.RequestCountStoreKey] == old(Store_oracle)[types.RequestCountStoreKey]
//@ loop 0: invariant Store_oracle[types.PendingResolveListStoreKey] == old(Store_oracle)[types.PendingResolveListStoreKey]
//@ loop 0: invariant forall id Int :: old(has(Store_oracle, types.ResultStoreKey(id))) ==> Store_oracle[types.ResultStoreKey(id)] == old(Store_oracle)[types.ResultStoreKey(id)]
//@ loop 0: invariant forall id Int :: old(lastExpired(Store_oracle)) < id && id < currentReqID ==> has(Store_oracle, types.ResultStoreKey(id)) && !has(Store_oracle, types.RequestStoreKey(id))
//@ loop 0: invariant forall id Int :: id >= currentReqID ==> Store_oracle[types.RequestStoreKey(id)] == old(Store_oracle)[types.RequestStoreKey(id)] && Store_oracle[types.ResultStoreKey(id)] == old(Store_oracle)[types.ResultStoreKey(id)]
//@ loop 1: invariant lastExpired(Store_oracle) == currentReqID - 1 && len(Store_oracle[types.RequestLastExpiredStoreKey]) == 8 && Store_oracle[types.RequestCountStoreKey] == old(Store_oracle)[types.RequestCountStoreKey]
//@ loop 1: invariant has(Store_oracle, types.RequestStoreKey(currentReqID))
//@ loop 1: invariant Store_oracle[types.PendingResolveListStoreKey] == old(Store_oracle)[types.PendingResolveListStoreKey]
//@ loop 1: invariant forall id Int :: old(has(Store_oracle, types.ResultStoreKey(id))) ==> Store_oracle[types.ResultStoreKey(id)] == old(Store_oracle)[types.ResultStoreKey(id)]
//@ loop 1: invariant forall id Int :: old(lastExpired(Store_oracle)) < id && id < currentReqID ==> has(Store_oracle, types.ResultStoreKey(id)) && !has(Store_oracle, types.RequestStoreKey(id))
//@ loop 1: invariant forall id Int :: id > currentReqID ==> Store_oracle[types.RequestStoreKey(id)] == old(Store_oracle)[types.RequestStoreKey(id)] && Store_oracle[types.ResultStoreKey(id)] == old(Store_oracle)[types.ResultStoreKey(id)]
//@ loop 1: invariant has(Store_oracle, types.ResultStoreKey(currentReqID))

// assumption (economic bound): a validator's bonded tokens fit in a uint64 (total supply < 2^64)
//@ axiom tokensFit: forall v stakingtypes.ValidatorI :: 0 <= ext("ValidatorI.GetTokens", v) && ext("ValidatorI.GetTokens", v) <= MaxUint64

// ---- C09: validators chosen for a request ----------------------------------------------------------------
// The callback run for every bonded validator keeps the two parallel slices aligned and collects only
// oracle-active validators.
//@ func (k Keeper) GetRandomValidators$lit0
// what the staking keeper passes in (assumed of IterateBondedValidatorsByPower): bonded validators, each with tokens
// between 1 and 2^50 (uband), fewer than 8192 of them
//@ requires 1 <= ext("ValidatorI.GetTokens", val) && ext("ValidatorI.GetTokens", val) <= 1125899906842624 && len(valPowers) < 8192
//@ maintains len(valOperators) == len(valPowers)
//@ maintains forall j :: 0 <= j && j < len(valOperators) ==> vstatus(Store_oracle, valOperators[j]).IsActive
//@ maintains bandrng.okWeights(valPowers)
// the callback never asks the iteration to stop (IterateBondedValidatorsByPower ends early only when it returns
// true): every bonded validator is visited, and every visited oracle-active one is collected, with its tokens
//@ ensures !stop
//@ ensures (let op = ext("ValidatorI.GetOperator", val) in
//@     ((bech32ok(op) && vstatus(Store_oracle, bech32addr(op)).IsActive) ==>
//@         len(valOperators) == old(len(valOperators)) + 1 && valOperators[len(valOperators) - 1] == bech32addr(op)
//@         && len(valPowers) == old(len(valPowers)) + 1 && valPowers[len(valPowers) - 1] == ext("ValidatorI.GetTokens", val))
//@     && (!(bech32ok(op) && vstatus(Store_oracle, bech32addr(op)).IsActive) ==> valOperators == old(valOperators) && valPowers == old(valPowers)))

// Exactly `size` validators, every one of them oracle-active at that moment, or an error when fewer than
// `size` are eligible.
//@ func (k Keeper) GetRandomValidators
//@ modifies RngLast, RngEntropy, RngNonce, RngPers
// the draw is a function of (rolling seed, request id, chain id) only: that is what seeds the generator
//@ ensures err == nil ==> RngEntropy == rollingSeedOf(Other) && RngNonce == u64be(id) && RngPers == bytes(ctx.ChainID())
//@ requires size >= 1 && 1 <= oracleParams(Store_oracle).SamplingTryCount && oracleParams(Store_oracle).SamplingTryCount <= MaxInt64
//@ ensures err == nil ==> len(result) == size
//@ ensures err == nil ==> (forall i :: 0 <= i && i < len(result) ==> vstatus(Store_oracle, result[i]).IsActive)
//@ loop 0: invariant forall j :: 0 <= j && j < #i ==> vstatus(Store_oracle, validators[j]).IsActive
//@ loop 0: invariant len(validators) == size

// ---- C14: oracle block reward ------------------------------------------------------------------------------
// coin arithmetic of the cosmos-sdk, seen per denom through AmountOf (DecCoins amounts in 10^-18 units): assumed
//@ spec amt(c sdk.Coins, d Str) Int = ext("Coins.AmountOf", c, d)
//@ spec damt(c sdk.DecCoins, d Str) Int = ext("DecCoins.AmountOf", c, d)
//@ axiom coinNonNeg: forall c sdk.Coins, d Str :: { ext("Coins.AmountOf", c, d) } ext("Coins.AmountOf", c, d) >= 0
//@ axiom decNonNeg: forall c sdk.DecCoins, d Str :: { ext("DecCoins.AmountOf", c, d) } ext("DecCoins.AmountOf", c, d) >= 0
//@ axiom decFromCoins: forall c sdk.Coins, d Str :: { ext("DecCoins.AmountOf", ext("NewDecCoinsFromCoins", c), d) } ext("DecCoins.AmountOf", ext("NewDecCoinsFromCoins", c), d) == ext("Coins.AmountOf", c, d) * 1000000000000000000
//@ axiom decMulTrunc: forall c sdk.DecCoins, r Int, d Str :: { ext("DecCoins.AmountOf", ext("DecCoins.MulDecTruncate", c, r), d) } r >= 0 ==> ext("DecCoins.AmountOf", ext("DecCoins.MulDecTruncate", c, r), d) == (ext("DecCoins.AmountOf", c, d) * r) / 1000000000000000000
//@ axiom decTrunc: forall c sdk.DecCoins, d Str :: { ext("Coins.AmountOf", ext("DecCoins.TruncateDecimal", c), d) } ext("Coins.AmountOf", ext("DecCoins.TruncateDecimal", c), d) == ext("DecCoins.AmountOf", c, d) / 1000000000000000000
//@ axiom decSub: forall a sdk.DecCoins, b sdk.DecCoins, d Str :: { ext("DecCoins.AmountOf", ext("DecCoins.Sub", a, b), d) } (forall e Str :: ext("DecCoins.AmountOf", a, e) >= ext("DecCoins.AmountOf", b, e)) ==> ext("DecCoins.AmountOf", ext("DecCoins.Sub", a, b), d) == ext("DecCoins.AmountOf", a, d) - ext("DecCoins.AmountOf", b, d)
// DecCoins.Sub panics when any denom would go negative
//@ extern (coins github.com/cosmos/cosmos-sdk/types.DecCoins) Sub(coinsB) (result)
//@ requires forall e Str :: ext("DecCoins.AmountOf", coins, e) >= ext("DecCoins.AmountOf", coinsB, e)
//@ ensures result == ext("DecCoins.Sub", coins, coinsB)
//@ ensures forall d Str :: { ext("DecCoins.AmountOf", result, d) } ext("DecCoins.AmountOf", result, d) == ext("DecCoins.AmountOf", coins, d) - ext("DecCoins.AmountOf", coinsB, d)

// prefix sums of the voting power of the rewarded validators
//@ spec psumP(tr []valWithPower, n Int) Int = n <= 0 ? 0 : psumP(tr, n - 1) + tr[n-1].power
//@ lemma psumExt induction k: forall a []valWithPower, b []valWithPower, k Int, k2 Int :: { psumP(a, k), psumP(b, k2) } (k == k2 && k <= len(a) && k <= len(b) && (forall j :: 0 <= j && j < k ==> a[j] == b[j])) ==> psumP(a, k) == psumP(b, k2)
//@ lemma psumStep induction n: forall w []valWithPower, m Int, n Int :: { psumP(w, m), psumP(w, n) } (0 <= m && m < n && n <= len(w) && (forall j :: 0 <= j && j < len(w) ==> w[j].power >= 0)) ==> psumP(w, m) + w[m].power <= psumP(w, n)

// Only validators that voted and are oracle-active are rewarded. The oracle share is the truncated percentage of the
// WHOLE fee pool; the community tax comes off that share; each rewarded validator gets the share (after tax) times
// its TRUNCATED power fraction, truncated; the proposer gets what is left over. CONSERVATION: on success, what this
// call told the distribution module to hand out (community pool + validator rewards + proposer remainder) is, denom
// by denom, exactly what it moved into the distribution account - and no subtraction ever goes negative (the
// begin-blocker cannot panic on rounding).
//@ spec rewardable(s Store, o OtherState, v abci.VoteInfo) Bool = types.consErr(o, v.Validator.Address) == nil && bech32ok(ext("ValidatorI.GetOperator", types.consVal(o, v.Validator.Address))) && vstatus(s, bech32addr(ext("ValidatorI.GetOperator", types.consVal(o, v.Validator.Address)))).IsActive
// Range assumption on CometBFT vote infos: powers between 0 and 2^50, at most 4096 votes.
//@ func (k Keeper) AllocateTokens
//@ may_panic calls
//@ uses psumExt, psumStep
//@ modifies Bank, Other, DistrReceived, DistrAllocated
//@ requires len(previousVotes) <= 4096 && (forall j :: 0 <= j && j < len(previousVotes) ==> 0 <= previousVotes[j].Validator.Power && previousVotes[j].Validator.Power <= 1125899906842624)
// store invariant: the stored parameters passed validation (SetParams below is the only writer of the record)
//@ requires oracleParams(Store_oracle).OracleRewardPercentage <= 100
//@ ensures err == nil ==> (forall d Str :: DistrAllocated[d] - old(DistrAllocated)[d] == DistrReceived[d] - old(DistrReceived)[d])
//@ assert after oracleRewardInt: oracleRewardInt == ext("DecCoins.TruncateDecimal", ext("DecCoins.MulDecTruncate", totalFee, wrap64(oracleParams(Store_oracle).OracleRewardPercentage) * 10000000000000000))
// the transfer out of the fee collector never asks for more than the fee collector holds (two stepping stones first)
//@ assert after oracleRewardRatio: 0 <= oracleRewardRatio && oracleRewardRatio <= 1000000000000000000
//@ assert after oracleRewardInt: forall d Str :: { ext("DecCoins.AmountOf", ext("DecCoins.MulDecTruncate", totalFee, oracleRewardRatio), d) } ext("DecCoins.AmountOf", ext("DecCoins.MulDecTruncate", totalFee, oracleRewardRatio), d) <= ext("DecCoins.AmountOf", totalFee, d)
//@ assert after oracleRewardInt: forall d Str :: { ext("Coins.AmountOf", oracleRewardInt, d) } ext("Coins.AmountOf", oracleRewardInt, d) * 1000000000000000000 <= ext("DecCoins.AmountOf", ext("DecCoins.MulDecTruncate", totalFee, oracleRewardRatio), d)
//@ assert after oracleRewardInt: forall d Str :: { ext("Coins.AmountOf", oracleRewardInt, d) } ext("Coins.AmountOf", oracleRewardInt, d) * 1000000000000000000 <= ext("DecCoins.AmountOf", totalFee, d)
//@ assert before communityTax: oracleReward == ext("NewDecCoinsFromCoins", oracleRewardInt)
//@ assert after communityFund: communityFund == ext("DecCoins.TruncateDecimal", ext("DecCoins.MulDecTruncate", ext("NewDecCoinsFromCoins", oracleRewardInt), communityTax))
//@ assert after remaining: remaining == ext("DecCoins.Sub", ext("NewDecCoinsFromCoins", oracleRewardInt), ext("NewDecCoinsFromCoins", communityFund)) && oracleReward == remaining
//@ assert after powerFraction: totalPower != 0 && powerFraction == (each.power * 1000000000000000000 * 1000000000000000000) / (totalPower * 1000000000000000000)
//@ assert after reward: reward == ext("DecCoins.MulDecTruncate", oracleReward, powerFraction)
// (arithmetic core, per denom: a validator's truncated reward is at most its exact pro-rata share)
//@ assert after reward: each.power >= 0 && powerFraction >= 0 && powerFraction * totalPower <= each.power * 1000000000000000000
//@ assert after reward: forall d Str :: { ext("DecCoins.AmountOf", reward, d) } ext("DecCoins.AmountOf", reward, d) * 1000000000000000000 <= ext("DecCoins.AmountOf", oracleReward, d) * powerFraction
//@ assert after reward: forall d Str :: { ext("DecCoins.AmountOf", reward, d) } ext("DecCoins.AmountOf", reward, d) * totalPower <= ext("DecCoins.AmountOf", oracleReward, d) * each.power
//@ assert after reward: psumP(toReward, #i) + each.power <= totalPower && totalPower > 0
//@ assert after reward: forall d Str :: { ext("DecCoins.AmountOf", reward, d) } ext("DecCoins.AmountOf", oracleReward, d) * each.power <= ext("DecCoins.AmountOf", oracleReward, d) * (totalPower - psumP(toReward, #i))
//@ assert after reward: forall d Str :: { ext("DecCoins.AmountOf", reward, d) } ext("DecCoins.AmountOf", reward, d) * totalPower <= ext("DecCoins.AmountOf", remaining, d) * totalPower
//@ assert after reward: forall d Str :: { ext("DecCoins.AmountOf", reward, d) } ext("DecCoins.AmountOf", reward, d) <= ext("DecCoins.AmountOf", remaining, d)
//@ assert after remaining#2: forall d Str :: { ext("DecCoins.AmountOf", remaining, d) } ext("DecCoins.AmountOf", remaining, d) * totalPower >= ext("DecCoins.AmountOf", oracleReward, d) * (totalPower - psumP(toReward, #i) - each.power)
//@ assert after remaining#2: psumP(toReward, #i + 1) == psumP(toReward, #i) + each.power
// C14 "pays only active participants" has a converse the block reward relies on: EVERY voter of the previous block that the
// staking module knows and that is oracle-active takes part - an unknown consensus address (a validator removed since) is
// skipped, it does not end the scan
//@ loop 0: invariant forall i :: 0 <= i && i < #i && rewardable(Store_oracle, Other, previousVotes[i]) ==> (exists j :: 0 <= j && j < len(toReward) && toReward[j].val == types.consVal(Other, previousVotes[i].Validator.Address) && toReward[j].power == previousVotes[i].Validator.Power)
//@ assert before feeCollector: forall i :: 0 <= i && i < len(previousVotes) && rewardable(Store_oracle, Other, previousVotes[i]) ==> (exists j :: 0 <= j && j < len(toReward) && toReward[j].val == types.consVal(Other, previousVotes[i].Validator.Address) && toReward[j].power == previousVotes[i].Validator.Power)
//@ loop 0: invariant forall j :: 0 <= j && j < len(toReward) ==> (exists i :: 0 <= i && i < #i && toReward[j].power == previousVotes[i].Validator.Power)
//@ loop 0: invariant len(toReward) <= #i
//@ loop 0: invariant 0 <= totalPower && totalPower <= #i * 1125899906842624
//@ loop 0: invariant totalPower == psumP(toReward, len(toReward))
//@ loop 0: invariant forall j :: 0 <= j && j < len(toReward) ==> toReward[j].power >= 0
//@ loop 0: invariant DistrReceived == old(DistrReceived) && DistrAllocated == old(DistrAllocated)
//@ loop 1: invariant forall d Str :: { ext("DecCoins.AmountOf", remaining, d) } ext("DecCoins.AmountOf", remaining, d) * totalPower >= ext("DecCoins.AmountOf", oracleReward, d) * (totalPower - psumP(toReward, #i))
//@ loop 1: invariant forall d Str :: { ext("DecCoins.AmountOf", remaining, d) } DistrAllocated[d] + ext("DecCoins.AmountOf", remaining, d) == old(DistrAllocated)[d] + DistrReceived[d] - old(DistrReceived)[d]
// (an element that is skipped is skipped alone: no break ends the visit of the rest)
//@ loop 0: exhaustive

// ---- C13: data-source fees --------------------------------------------------------------------------------
// The collector accumulates what has been charged for this request so far (over ALL data sources, not only the
// current one) and pays a data source's treasury only if, denom by denom, the accumulated total is still within
// the requester's fee limit (a denom absent from the limit counts as 0); the payment is exactly `coins`, from the
// payer to that treasury; a refusal moves nothing.
//@ func (coll *feeCollector) Collect
//@ modifies coll, Bank
//@ ensures coll.collected == ext("Coins.Add", old(coll.collected), coins) && coll.limit == old(coll.limit) && coll.payer == old(coll.payer)
//@ ensures err == nil ==> (forall j :: 0 <= j && j < len(coll.collected) ==> coll.collected[j].Amount <= ext("Coins.AmountOf", coll.limit, coll.collected[j].Denom))
//@ ensures err == nil ==> Bank == bankA2A(old(Bank), coll.payer, treasury, coins)
//@ ensures err != nil ==> Bank == old(Bank)
//@ ensures (exists j :: 0 <= j && j < len(coll.collected) && coll.collected[j].Amount > ext("Coins.AmountOf", coll.limit, coll.collected[j].Denom)) ==> err != nil
//@ loop 0: invariant forall j :: 0 <= j && j < #i ==> coll.collected[j].Amount <= ext("Coins.AmountOf", coll.limit, coll.collected[j].Denom)

// ---- C02 / C05 / C13: best-effort signing request at the end of a block -----------------------------------------
// The request for a signature over an oracle result runs in its own cache context and behind a recover: whatever
// goes wrong in it - an error or a panic - the end-blocker continues, and NOTHING of the failed attempt persists
// (no fee taken, no nonce consumed, no bandtss/tss state written).
//@ func (k Keeper) safeCreateSigning
//@ modifies Bank, Other
//@ ensures err != nil ==> Bank == old(Bank) && Other == old(Other)

// ---- C01: what a result says ---------------------------------------------------------------------------------
//@ spec oreqAt(s Store, id Int) types.Request = dec(types.Request, s[types.RequestStoreKey(id)])
//@ spec resultAt(s Store, id Int) types.Result = dec(types.Result, s[types.ResultStoreKey(id)])
// The saved result mirrors the request as stored and the reports present at this moment: client id, oracle script,
// calldata, ask count (= number of requested validators), min count, request id, answer count (= number of reports
// stored for the request), request time; the resolve time is the block time; status and result bytes are the given
// ones. Nothing but this request's result record is written in the oracle store.
//@ func (k Keeper) SaveResult
//@ modifies Store_oracle, Other
//@ requires has(Store_oracle, types.RequestStoreKey(id))
//@ ensures (let r = old(oreqAt(Store_oracle, id)) in let x = resultAt(Store_oracle, id) in
//@      has(Store_oracle, types.ResultStoreKey(id)) && x.ClientID == r.ClientID && x.OracleScriptID == r.OracleScriptID && x.Calldata == r.Calldata
//@      && x.AskCount == len(r.RequestedValidators) && x.MinCount == r.MinCount && x.RequestID == id
//@      && x.AnsCount == old(pcount(Store_oracle, types.ReportStoreKey(id))) && x.RequestTime == r.RequestTime
//@      && x.ResolveTime == ctx.BlockTime().Unix() && x.ResolveStatus == status && x.Result == result)
//@ ensures forall q Bz :: q != types.ResultStoreKey(id) ==> Store_oracle[q] == old(Store_oracle)[q]

// ---- C02/C14: the only writer of the parameter record stores validated parameters only --------------------------
//@ func (k Keeper) SetParams
//@ modifies Store_oracle
//@ ensures err == nil ==> Store_oracle == store(old(Store_oracle), types.ParamsKeyPrefix, enc(p)) && p.OracleRewardPercentage <= 100 && 1 <= p.SamplingTryCount && p.SamplingTryCount <= MaxInt64 && p.InactivePenaltyDuration <= MaxInt64
//@ ensures err != nil ==> Store_oracle == old(Store_oracle)

// ---- C13: data-source fees of a request ---------------------------------------------------------------------------------
// The collector is used through its interface; its state is seen through three abstract views. The interface contracts
// below mirror the verified contract of the one implementation (*feeCollector, above); what is trusted is that link and
// that newFeeCollector returns that implementation freshly initialised. FeePaid: what the bank moved out of the payer
// for fees, per denom (ledger ghost). Coins arithmetic per denom: assumed (coinAdd, coinNew; coinNonNeg above).
//@ spec fcCollected(c FeeCollector) sdk.Coins uninterpreted
//@ spec fcLimit(c FeeCollector) sdk.Coins uninterpreted
//@ spec fcPayer(c FeeCollector) Addr uninterpreted
//@ ghost FeePaid map[string]int
//@ axiom coinAdd: forall a sdk.Coins, b sdk.Coins, d Str :: { ext("Coins.AmountOf", ext("Coins.Add", a, b), d) } ext("Coins.AmountOf", ext("Coins.Add", a, b), d) == ext("Coins.AmountOf", a, d) + ext("Coins.AmountOf", b, d)
//@ axiom coinNew: forall d Str :: { ext("Coins.AmountOf", ext("NewCoins"), d) } ext("Coins.AmountOf", ext("NewCoins"), d) == 0
//@ func newFeeCollector
//@ trusted
//@ ensures fcCollected(result) == ext("NewCoins") && fcLimit(result) == feeLimit && fcPayer(result) == payer
//@ func (c FeeCollector) Collect
//@ trusted
//@ modifies c, Bank, FeePaid
//@ ensures fcCollected(c) == ext("Coins.Add", old(fcCollected(c)), arg1) && fcLimit(c) == old(fcLimit(c)) && fcPayer(c) == old(fcPayer(c))
//@ ensures err == nil ==> (forall d Str :: ext("Coins.AmountOf", fcCollected(c), d) <= ext("Coins.AmountOf", fcLimit(c), d))
//@ ensures err == nil ==> (forall d Str :: FeePaid[d] == old(FeePaid)[d] + ext("Coins.AmountOf", arg1, d))
//@ ensures err != nil ==> FeePaid == old(FeePaid) && Bank == old(Bank)
//@ func (c FeeCollector) Collected
//@ trusted
//@ ensures result == fcCollected(c)

// C13: the fees of a request are collected data source by data source (fee of the source x number of validators asked),
// and on success the total reported back is, denom by denom, EXACTLY what the bank moved out of the payer for it, and
// WITHIN the requester's fee limit
//@ func (k Keeper) CollectFee
//@ modifies Bank, FeePaid
//@ ensures err == nil ==> (forall d Str :: ext("Coins.AmountOf", result, d) <= ext("Coins.AmountOf", feeLimit, d))
//@ ensures err == nil ==> (forall d Str :: FeePaid[d] - old(FeePaid)[d] == ext("Coins.AmountOf", result, d))
//@ loop 0: invariant fcLimit(collector) == feeLimit && fcPayer(collector) == payer
//@ loop 0: invariant forall d Str :: ext("Coins.AmountOf", fcCollected(collector), d) <= ext("Coins.AmountOf", feeLimit, d)
//@ loop 0: invariant forall d Str :: FeePaid[d] - old(FeePaid)[d] == ext("Coins.AmountOf", fcCollected(collector), d)
//@ loop 1: invariant true
// (an element that is skipped is skipped alone: no break ends the visit of the rest)
//@ loop 0: exhaustive

// ---- C19: what a (re)starting yoda is told it still has to report ---------------------------------------------------
// yoda reads this list once at start-up; requests committed before it subscribed reach it no other way. The list must be
// EXACTLY the unexpired requests (lastExpired, requestCount] that chose the validator, that the validator has not
// reported yet and that are not fully reported: one left out is a request that never gets its report.
//@ spec reportedBy(rs []types.Report, v Addr) Bool = exists i :: 0 <= i && i < len(rs) && bech32ok(rs[i].Validator) && bech32addr(rs[i].Validator) == v
//@ spec owesReport(s Store, id Int, v Addr) Bool =
//@      len(reportsOf(s, id)) != len(reqAt(s, id).RequestedValidators) && requestedVal(reqAt(s, id).RequestedValidators, v) && !reportedBy(reportsOf(s, id), v)
//@ extern google.golang.org/grpc/status.Error(c, msg) (err)
//@ ensures err != nil
//@ func (k Querier) PendingRequests
//@ may_panic calls
//@ requires wfRequests(Store_oracle)
//@ ensures err == nil ==> bech32ok(req.ValidatorAddress)
//@ ensures err == nil ==> (forall j :: 0 <= j && j < len(result.RequestIDs) ==> (let g = result.RequestIDs[j] in
//@        lastExpired(Store_oracle) < g && g <= reqCount(Store_oracle) && owesReport(Store_oracle, g, bech32addr(req.ValidatorAddress))))
//@ ensures err == nil ==> (forall g Int :: lastExpired(Store_oracle) < g && g <= reqCount(Store_oracle) && owesReport(Store_oracle, g, bech32addr(req.ValidatorAddress))
//@        ==> (exists j :: 0 <= j && j < len(result.RequestIDs) && result.RequestIDs[j] == g))
//@ loop 0: invariant lastExpired + 1 <= id && id <= requestCount + 1 && lastExpired == lastExpired(Store_oracle) && requestCount == reqCount(Store_oracle)
//@ loop 0: invariant forall j :: 0 <= j && j < len(pendingIDs) ==> (let g = pendingIDs[j] in
//@        lastExpired < g && g < id && owesReport(Store_oracle, g, valAddress))
//@ loop 0: invariant forall g Int :: lastExpired < g && g < id && owesReport(Store_oracle, g, valAddress)
//@        ==> (exists j :: 0 <= j && j < len(pendingIDs) && pendingIDs[j] == g)
//@ loop 1: invariant !isInValidatorSet && (forall j :: 0 <= j && j < #i ==> bech32ok(oracleReq.RequestedValidators[j]) && bech32addr(oracleReq.RequestedValidators[j]) != valAddress)
//@ loop 2: invariant !reported && (forall j :: 0 <= j && j < #i ==> bech32ok(reports[j].Validator) && bech32addr(reports[j].Validator) != valAddress)

// protobuf encoding of a result (codec): assumed
//@ func (k Keeper) MarshalResult
//@ trusted

// ---- C13: data-source fees are paid to the treasury the owner last set -------------------------------------------------
// An accepted edit comes from the data source's owner and makes the treasury, the fee and the owner exactly what the
// message says (CollectFee pays the stored treasury: an edit that silently keeps the old one sends later fees to an
// account the owner has moved away from). File storage and decompression: assumed.
//@ spec dsAt(s Store, id Int) types.DataSource = dec(types.DataSource, s[types.DataSourceStoreKey(id)])
//@ func (k Keeper) AddExecutableFile
//@ trusted
//@ extern github.com/bandprotocol/chain/v3/pkg/gzip.IsGzipped(data) (result)
//@ extern github.com/bandprotocol/chain/v3/pkg/gzip.Uncompress(data, maxSize) (result, err)
//@ func (k msgServer) EditDataSource
//@ may_panic calls
//@ modifies Store_oracle, msg
//@ ensures err == nil ==> old(has(Store_oracle, types.DataSourceStoreKey(msg.DataSourceID))) && bech32ok(msg.Sender) && bech32ok(old(dsAt(Store_oracle, msg.DataSourceID)).Owner) && bech32addr(old(dsAt(Store_oracle, msg.DataSourceID)).Owner) == bech32addr(msg.Sender)
//@ ensures err == nil ==> bech32ok(msg.Treasury) && dsAt(Store_oracle, msg.DataSourceID).Treasury == addrstr(bech32addr(msg.Treasury))
//@ ensures err == nil ==> bech32ok(msg.Owner) && dsAt(Store_oracle, msg.DataSourceID).Owner == addrstr(bech32addr(msg.Owner)) && dsAt(Store_oracle, msg.DataSourceID).Fee == msg.Fee
//@ ensures err != nil ==> Store_oracle == old(Store_oracle)

// ---- frame of the store invariants: each record family is written only through these functions ------------------------
// (the invariants above are proved writer by writer - "a lock has its index entry", "a record is filed under its own id";
// a new function that Sets or Deletes such keys directly is outside that argument: ground obligation `writers/...`)
//@ writers DataSourceStoreKey: Keeper.SetDataSource
//@ writers OracleScriptStoreKey: Keeper.SetOracleScript
//@ writers ReportsOfValidatorPrefixKey: Keeper.SetReport
//@ writers RequestStoreKey: Keeper.DeleteRequest, Keeper.SetRequest
//@ writers ResultStoreKey: Keeper.SetResult
//@ writers SigningResultStoreKey: Keeper.SetSigningResult
//@ writers ValidatorStatusStoreKey: Keeper.SetValidatorStatus

// ---- read-only list getters (iterator + decode loops): results not modelled, no state written -------------------------
// (so that a caller which uses one of them stays analysable: the list is an arbitrary well-typed value)
//@ func (k Keeper) GetAllDataSources
//@ trusted
//@ func (k Keeper) GetAllOracleScripts
//@ trusted

// C13: a created data source is filed under the next id with the owner, the treasury and the fee the message names - the
// treasury is the account fees are paid to (CollectFee), the owner the one who may edit it: not the other way round
//@ spec dsCount(s Store) Int = u64of(s[types.DataSourceCountStoreKey])
//@ func (k msgServer) CreateDataSource
//@ may_panic calls
//@ modifies Store_oracle, msg
//@ requires len(Store_oracle[types.DataSourceCountStoreKey]) >= 8 && dsCount(Store_oracle) < MaxUint64
//@ ensures err == nil ==> bech32ok(msg.Owner) && bech32ok(msg.Treasury) && dsCount(Store_oracle) == old(dsCount(Store_oracle)) + 1
//@ ensures err == nil ==> dsAt(Store_oracle, dsCount(Store_oracle)).Owner == addrstr(bech32addr(msg.Owner)) && dsAt(Store_oracle, dsCount(Store_oracle)).Treasury == addrstr(bech32addr(msg.Treasury)) && dsAt(Store_oracle, dsCount(Store_oracle)).Fee == msg.Fee
//@ ensures err != nil ==> Store_oracle == old(Store_oracle)
