//go:build verif

package keeper

// Contracts for govc (see /verif/DESIGN.md). Comment-only file; compiled only under -tags verif.

// C08: deviation in basis points: 0 if unchanged, MaxInt64 if the old price is 0 and the new one is
// not, else floor(|new-old| * 10000 / old).
//@ func calculateDeviationBPS
//@ requires oldPrice >= 0 && newPrice >= 0
//@ ensures  newPrice == oldPrice                  ==> result == 0
//@ ensures  newPrice != oldPrice && oldPrice == 0 ==> result == MaxInt64
//@ ensures  newPrice != oldPrice && oldPrice >  0 ==> result == (abs(newPrice - oldPrice) * 10000) / oldPrice

// ---- C08: atomic packet production ----------------------------------------------------------------
//@ func (k Keeper) HasEnoughFundToCreatePacket
//@ ensures true

//@ spec tunnelAt(s Store, id Int) types.Tunnel = dec(types.Tunnel, s[types.TunnelStoreKey(id)])
// Deactivation clears the active flag and the active-index entry of exactly this tunnel.
// store invariant: a tunnel is stored under its own id
//@ spec wfTunnel(s Store, id Int) Bool = has(s, types.TunnelStoreKey(id)) ==> tunnelAt(s, id).ID == id
//@ func (k Keeper) DeactivateTunnel
//@ modifies Store_tunnel
//@ requires wfTunnel(Store_tunnel, tunnelID)
//@ ensures err == nil <==> old(has(Store_tunnel, types.TunnelStoreKey(tunnelID)))
//@ ensures err != nil ==> Store_tunnel == old(Store_tunnel)
//@ ensures err == nil ==> Store_tunnel == store(remove(old(Store_tunnel), types.ActiveTunnelIDStoreKey(tunnelID)), types.TunnelStoreKey(tunnelID), enc(with(old(tunnelAt(Store_tunnel, tunnelID)), "IsActive", false)))

//@ func (k Keeper) ProducePacket
//@ trusted
//@ modifies Store_tunnel, Bank, Other

// If the tunnel can pay and production fails at any step, nothing of the attempt persists: the module
// store, the bank state and every other module reached by the route are exactly as before.
//@ func (k Keeper) ProduceActiveTunnelPacket
//@ modifies Store_tunnel, Bank, Other
//@ requires wfTunnel(Store_tunnel, tunnelID)
//@ ensures err != nil ==> Bank == old(Bank) && Other == old(Other) && Store_tunnel == old(Store_tunnel)

// ---- C17: deposits -----------------------------------------------------------------------------------
//@ spec depHas(s Store, t Int, a Addr) Bool = has(s, types.DepositStoreKey(t, a))
//@ spec depAt(s Store, t Int, a Addr) types.Deposit = dec(types.Deposit, s[types.DepositStoreKey(t, a)])
//@ spec wfDeposit(s Store, t Int, a Addr) Bool = depHas(s, t, a) ==> (depAt(s, t, a).TunnelID == t && bech32ok(depAt(s, t, a).Depositor) && bech32addr(depAt(s, t, a).Depositor) == a)
//@ spec tunnelParams(s Store) types.Params = has(s, types.ParamsKey) ? dec(types.Params, s[types.ParamsKey]) : zero(types.Params)

//@ func (k Keeper) validateDepositDenom
//@ trusted

// A deposit moves exactly `depositAmount` from the depositor to the module account and adds exactly that
// amount to the depositor's record and to the tunnel's total; nothing else in the store changes.
//@ func (k Keeper) DepositToTunnel
//@ modifies Store_tunnel, Bank
//@ requires wfTunnel(Store_tunnel, tunnelID) && wfDeposit(Store_tunnel, tunnelID, depositor)
//@ ensures err == nil ==> Bank == bankA2M(old(Bank), depositor, types.ModuleName, depositAmount)
//@ ensures err != nil ==> Store_tunnel == old(Store_tunnel)
//@ ensures err == nil ==> Store_tunnel == store(store(old(Store_tunnel), types.DepositStoreKey(tunnelID, depositor),
//@        enc(old(depHas(Store_tunnel, tunnelID, depositor)) ? with(old(depAt(Store_tunnel, tunnelID, depositor)), "Amount", ext("Coins.Add", old(depAt(Store_tunnel, tunnelID, depositor)).Amount, depositAmount))
//@                                                           : types.Deposit{tunnelID, addrstr(depositor), depositAmount})),
//@        types.TunnelStoreKey(tunnelID), enc(with(old(tunnelAt(Store_tunnel, tunnelID)), "TotalDeposit", ext("Coins.Add", old(tunnelAt(Store_tunnel, tunnelID)).TotalDeposit, depositAmount))))

// A withdrawal is bounded by the withdrawer's own record, pays out exactly the withdrawn amount, reduces the
// record (deleting it at zero) and the total by that amount, and deactivates the tunnel exactly when it was
// active and the new total no longer covers the minimum deposit.
//@ func (k Keeper) WithdrawFromTunnel
//@ modifies Store_tunnel, Bank
//@ requires wfTunnel(Store_tunnel, tunnelID) && wfDeposit(Store_tunnel, tunnelID, withdrawer)
//@ ensures err == nil ==> old(depHas(Store_tunnel, tunnelID, withdrawer)) && ext("Coins.IsAllGTE", old(depAt(Store_tunnel, tunnelID, withdrawer)).Amount, amount)
//@ ensures err == nil ==> Bank == bankM2A(old(Bank), types.ModuleName, withdrawer, amount)
//@ ensures err == nil ==> (let na = ext("Coins.Sub", old(depAt(Store_tunnel, tunnelID, withdrawer)).Amount, amount) in
//@        (ext("Coins.IsZero", na) ==> !depHas(Store_tunnel, tunnelID, withdrawer))
//@        && (!ext("Coins.IsZero", na) ==> Store_tunnel[types.DepositStoreKey(tunnelID, withdrawer)] == enc(with(old(depAt(Store_tunnel, tunnelID, withdrawer)), "Amount", na))))
//@ ensures err == nil ==> tunnelAt(Store_tunnel, tunnelID).TotalDeposit == ext("Coins.Sub", old(tunnelAt(Store_tunnel, tunnelID)).TotalDeposit, amount)
//@ ensures err == nil ==> (let deact = old(tunnelAt(Store_tunnel, tunnelID)).IsActive
//@                                    && !ext("Coins.IsAllGTE", ext("Coins.Sub", old(tunnelAt(Store_tunnel, tunnelID)).TotalDeposit, amount), old(tunnelParams(Store_tunnel)).MinDeposit) in
//@        (deact ==> !tunnelAt(Store_tunnel, tunnelID).IsActive && !has(Store_tunnel, types.ActiveTunnelIDStoreKey(tunnelID)))
//@        && (!deact ==> tunnelAt(Store_tunnel, tunnelID).IsActive == old(tunnelAt(Store_tunnel, tunnelID)).IsActive
//@                       && Store_tunnel[types.ActiveTunnelIDStoreKey(tunnelID)] == old(Store_tunnel)[types.ActiveTunnelIDStoreKey(tunnelID)]))
