//go:build verif

package keeper

// Contracts for govc (see /verif/DESIGN.md). Comment-only file; compiled only under -tags verif.

// C08: deviation in basis points: 0 if unchanged, MaxInt64 if the old price is 0 and the new one is
// not, else floor(|new-old| * 10000 / old).
//@ func calculateDeviationBPS
//@ requires oldPrice >= 0 && newPrice >= 0
//@ ensures  newPrice == oldPrice                  ==> result == 0
//@ ensures  newPrice != oldPrice && oldPrice == 0 ==> result == MaxInt64
//@ ensures  newPrice != oldPrice && oldPrice >  0 ==> result == (abs(newPrice - oldPrice) * 10000) / oldPrice

// ---- C08: which prices go into a packet, and whether one is due ----------------------------------------
// deviation of a signal: between the price last sent (0 if never sent) and the current feeds price (0 if the
// signal is not in the current feeds)
//@ spec devBPS(o Int, n Int) Int = n == o ? 0 : (o == 0 ? MaxInt64 : (abs(n - o) * 10000) / o)
//@ spec lastP(m map[string]feedstypes.Price, id Str) Int = has(m, id) ? m[id].Price : 0
//@ spec feedP(m map[string]feedstypes.Price, id Str, ts Int) feedstypes.Price = has(m, id) ? m[id] : feedstypes.Price{feedstypes.PRICE_STATUS_NOT_IN_CURRENT_FEEDS, id, 0, ts}
//@ spec sigDev(lm map[string]feedstypes.Price, fm map[string]feedstypes.Price, id Str, ts Int) Int = devBPS(lastP(lm, id), feedP(fm, id, ts).Price)
// A packet is due exactly when the interval has elapsed (sendAll) or some signal moved by at least its hard
// deviation; it then carries every signal (interval) or exactly those at or beyond their soft (or hard)
// deviation, each with its current feeds price; otherwise nothing is produced.
//@ func GenerateNewPrices
//@ pure
//@ ensures (!sendAll && (forall j :: 0 <= j && j < len(signalDeviations) ==> sigDev(latestPricesMap, feedsPricesMap, signalDeviations[j].SignalID, timestamp) < signalDeviations[j].HardDeviationBPS)) ==> len(result) == 0
//@ ensures sendAll ==> len(result) == len(signalDeviations) && (forall j :: 0 <= j && j < len(signalDeviations) ==> result[j] == feedP(feedsPricesMap, signalDeviations[j].SignalID, timestamp))
//@ ensures (sendAll || (exists j :: 0 <= j && j < len(signalDeviations) && sigDev(latestPricesMap, feedsPricesMap, signalDeviations[j].SignalID, timestamp) >= signalDeviations[j].HardDeviationBPS)) ==>
//@     (forall j :: 0 <= j && j < len(signalDeviations) && (sendAll || sigDev(latestPricesMap, feedsPricesMap, signalDeviations[j].SignalID, timestamp) >= signalDeviations[j].HardDeviationBPS || sigDev(latestPricesMap, feedsPricesMap, signalDeviations[j].SignalID, timestamp) >= signalDeviations[j].SoftDeviationBPS)
//@         ==> (exists r :: 0 <= r && r < len(result) && result[r] == feedP(feedsPricesMap, signalDeviations[j].SignalID, timestamp)))
//@ ensures forall r :: 0 <= r && r < len(result) ==> (exists j :: 0 <= j && j < len(signalDeviations) && result[r] == feedP(feedsPricesMap, signalDeviations[j].SignalID, timestamp)
//@         && (sendAll || sigDev(latestPricesMap, feedsPricesMap, signalDeviations[j].SignalID, timestamp) >= signalDeviations[j].HardDeviationBPS || sigDev(latestPricesMap, feedsPricesMap, signalDeviations[j].SignalID, timestamp) >= signalDeviations[j].SoftDeviationBPS))
// (stepping stone: what the loop body computed for the current signal, in the terms of the specification)
//@ assert after deviation: deviation == sigDev(latestPricesMap, feedsPricesMap, sd.SignalID, timestamp) && feedPrice == feedP(feedsPricesMap, sd.SignalID, timestamp) && sd == signalDeviations[#i]
//@ loop 0: invariant shouldSend <==> ((sendAll && #i > 0) || (exists j :: 0 <= j && j < #i && sigDev(latestPricesMap, feedsPricesMap, signalDeviations[j].SignalID, timestamp) >= signalDeviations[j].HardDeviationBPS))
//@ loop 0: invariant sendAll ==> len(newFeedPrices) == #i && (forall j :: 0 <= j && j < #i ==> newFeedPrices[j] == feedP(feedsPricesMap, signalDeviations[j].SignalID, timestamp))
//@ loop 0: invariant forall j :: 0 <= j && j < #i && (sendAll || sigDev(latestPricesMap, feedsPricesMap, signalDeviations[j].SignalID, timestamp) >= signalDeviations[j].HardDeviationBPS || sigDev(latestPricesMap, feedsPricesMap, signalDeviations[j].SignalID, timestamp) >= signalDeviations[j].SoftDeviationBPS)
//@         ==> (exists r :: 0 <= r && r < len(newFeedPrices) && newFeedPrices[r] == feedP(feedsPricesMap, signalDeviations[j].SignalID, timestamp))
//@ loop 0: invariant forall r :: 0 <= r && r < len(newFeedPrices) ==> (exists j :: 0 <= j && j < #i && newFeedPrices[r] == feedP(feedsPricesMap, signalDeviations[j].SignalID, timestamp)
//@         && (sendAll || sigDev(latestPricesMap, feedsPricesMap, signalDeviations[j].SignalID, timestamp) >= signalDeviations[j].HardDeviationBPS || sigDev(latestPricesMap, feedsPricesMap, signalDeviations[j].SignalID, timestamp) >= signalDeviations[j].SoftDeviationBPS))

// ---- C08: atomic packet production ----------------------------------------------------------------
//@ spec tunnelAt(s Store, id Int) types.Tunnel = dec(types.Tunnel, s[types.TunnelStoreKey(id)])
//@ spec isTSS(t types.Tunnel) Bool = typeis(types.routeOf(t), "*types.TSSRoute")
//@ spec isIBC(t types.Tunnel) Bool = typeis(types.routeOf(t), "*types.IBCRoute")
// fee of the tunnel's route: the bandtss signing fee for a TSS route, nothing for an IBC route
//@ spec routeFeeOf(o OtherState, t types.Tunnel) sdk.Coins = isTSS(t) ? types.signingFee(o) : zero("sdk.Coins")
// The fee payer can afford a packet iff its spendable balance covers, denom by denom, the base packet fee PLUS
// the route fee.
//@ func (k Keeper) HasEnoughFundToCreatePacket
//@ ensures err == nil ==> has(Store_tunnel, types.TunnelStoreKey(tunnelID))
//@ ensures err == nil ==> (isTSS(tunnelAt(Store_tunnel, tunnelID)) || isIBC(tunnelAt(Store_tunnel, tunnelID)))
//@ ensures err == nil ==> result == ext("Coins.IsAllGTE", types.spendable(Bank, bech32addr(tunnelAt(Store_tunnel, tunnelID).FeePayer)),
//@                                         ext("Coins.Add", tunnelParams(Store_tunnel).BasePacketFee, routeFeeOf(Other, tunnelAt(Store_tunnel, tunnelID))))

// Deactivation clears the active flag and the active-index entry of exactly this tunnel.
// store invariant: a tunnel is stored under its own id
//@ spec wfTunnel(s Store, id Int) Bool = has(s, types.TunnelStoreKey(id)) ==> (tunnelAt(s, id).ID == id && bech32ok(tunnelAt(s, id).FeePayer))
// ... and its remembered prices under the same id
//@ spec wfLP(s Store, id Int) Bool = has(s, types.LatestPricesStoreKey(id)) ==> dec(types.LatestPrices, s[types.LatestPricesStoreKey(id)]).TunnelID == id
//@ func (k Keeper) DeactivateTunnel
//@ modifies Store_tunnel
//@ requires wfTunnel(Store_tunnel, tunnelID)
//@ ensures err == nil <==> old(has(Store_tunnel, types.TunnelStoreKey(tunnelID)))
//@ ensures err != nil ==> Store_tunnel == old(Store_tunnel)
//@ ensures err == nil ==> Store_tunnel == store(remove(old(Store_tunnel), types.ActiveTunnelIDStoreKey(tunnelID)), types.TunnelStoreKey(tunnelID), enc(with(old(tunnelAt(Store_tunnel, tunnelID)), "IsActive", false)))

//@ spec totalFeesAt(s Store) types.TotalFees = has(s, types.TotalFeeStoreKey) ? dec(types.TotalFees, s[types.TotalFeeStoreKey]) : zero(types.TotalFees)
//@ spec lpAt(s Store, id Int) types.LatestPrices = dec(types.LatestPrices, s[types.LatestPricesStoreKey(id)])
//@ spec packetAt(s Store, id Int, seq Int) types.Packet = dec(types.Packet, s[types.TunnelPacketStoreKey(id, seq)])

// signal id -> price index of a price list (map construction; only used as an opaque function of the list)
//@ func CreatePricesMap
//@ pure
//@ ensures true
//@ loop 0: invariant true

// Creating a packet charges the fee payer exactly the base packet fee, once; the packet takes the next sequence
// number (previous + 1), carries exactly the given prices, the base fee, the route fee and the block time, and is
// filed under (tunnel, that sequence number); the tunnel's counter is advanced to it.
//@ func (k Keeper) CreatePacket
//@ modifies Store_tunnel, Bank
//@ requires wfTunnel(Store_tunnel, tunnelID)
//@ ensures err == nil ==> old(has(Store_tunnel, types.TunnelStoreKey(tunnelID)))
//@ ensures err == nil ==> Bank == bankA2M(old(Bank), bech32addr(old(tunnelAt(Store_tunnel, tunnelID)).FeePayer), types.ModuleName, old(tunnelParams(Store_tunnel)).BasePacketFee)
//@ ensures err == nil ==> result.TunnelID == tunnelID && result.Sequence == wrapu64(old(tunnelAt(Store_tunnel, tunnelID)).Sequence + 1) && result.Prices == prices
//@ ensures err == nil ==> result.BaseFee == old(tunnelParams(Store_tunnel)).BasePacketFee && result.RouteFee == routeFeeOf(Other, old(tunnelAt(Store_tunnel, tunnelID))) && result.CreatedAt == ctx.BlockTime().Unix()
//@ ensures err == nil ==> Store_tunnel == store(store(store(old(Store_tunnel),
//@         types.TotalFeeStoreKey, enc(with(old(totalFeesAt(Store_tunnel)), "TotalBasePacketFee", ext("Coins.Add", old(totalFeesAt(Store_tunnel)).TotalBasePacketFee, old(tunnelParams(Store_tunnel)).BasePacketFee)))),
//@         types.TunnelStoreKey(tunnelID), enc(with(old(tunnelAt(Store_tunnel, tunnelID)), "Sequence", wrapu64(old(tunnelAt(Store_tunnel, tunnelID)).Sequence + 1)))),
//@         types.TunnelPacketStoreKey(tunnelID, wrapu64(old(tunnelAt(Store_tunnel, tunnelID)).Sequence + 1)), enc(result))

// sending (route-specific; may charge the route fee through the bandtss / ibc keepers) only rewrites the
// packet's own record (adding the receipt)
// ghost: how many packets the routes have accepted (a route either accepts the packet - and charges the route fee - or
// fails; a panic inside a route is neither)
//@ ghost RouteSent Int
// C11: the content a TSS tunnel asks the group to sign encodes THE PACKET: its own sequence number, prices and creation
// time, in the route's encoding, for the packet's tunnel and the route's destination
//@ func (k Keeper) SendTSSPacket
//@ may_panic calls
//@ modifies Bank, Other, RouteSent, TSSReqTunnel, TSSReqChain, TSSReqAddr, TSSReqContent
//@ names (err == nil ==> RouteSent == old(RouteSent) + 1) && (err != nil ==> RouteSent == old(RouteSent))
//@ ensures TSSReqTunnel == packet.TunnelID && TSSReqChain == route.DestinationChainID && TSSReqAddr == route.DestinationContractAddress
//@ ensures TSSReqContent == types.TunnelSignatureOrder{packet.Sequence, packet.Prices, packet.CreatedAt, route.Encoder}
//@ func (k Keeper) SendIBCPacket
//@ trusted
//@ may_panic calls
//@ modifies Bank, Other, RouteSent, TSSReqTunnel, TSSReqChain, TSSReqAddr, TSSReqContent
//@ ensures err == nil ==> RouteSent == old(RouteSent) + 1
//@ ensures err != nil ==> RouteSent == old(RouteSent)
// A packet is reported as sent (err == nil) only when exactly one route accepted it; an error OR A PANIC anywhere in
// the send (recovered here) is reported as an error, so that the caller discards the attempt
//@ func (k Keeper) SendPacket
//@ modifies Store_tunnel, Bank, Other, RouteSent, TSSReqTunnel, TSSReqChain, TSSReqAddr, TSSReqContent
//@ ensures err == nil ==> RouteSent == old(RouteSent) + 1
//@ ensures forall q Bz :: q != types.TunnelPacketStoreKey(packet.TunnelID, packet.Sequence) ==> Store_tunnel[q] == old(Store_tunnel)[q]
//@ ensures err == nil ==> has(Store_tunnel, types.TunnelPacketStoreKey(packet.TunnelID, packet.Sequence))
//@ ensures err == nil ==> packetAt(Store_tunnel, packet.TunnelID, packet.Sequence).Sequence == packet.Sequence && packetAt(Store_tunnel, packet.TunnelID, packet.Sequence).Prices == packet.Prices


// A packet is produced exactly when GenerateNewPrices yields prices for (signal deviations, prices last sent,
// current feeds prices, block time, interval elapsed); "interval elapsed" is now >= interval + last full send.
// Nothing to send: no effect at all. Otherwise the packet takes the next sequence number, carries those prices,
// the remembered prices are merged with them, and the interval clock restarts ONLY on an interval (full) send.
// "The interval since the last full send has elapsed" is stated over the integers: now >= interval + last (F13: the code
// used to add in int64, which wraps for intervals from 2^63 on and made every block a full send).
//@ func (k Keeper) ProducePacket
//@ modifies Store_tunnel, Bank, Other, RouteSent, TSSReqTunnel, TSSReqChain, TSSReqAddr, TSSReqContent
//@ assert after sendAll: sendAll == (unixNow >= tunnel.Interval + latestPrices.LastInterval)
//@ requires wfTunnel(Store_tunnel, tunnelID) && wfLP(Store_tunnel, tunnelID)
// the store invariant (every tunnel and latest-prices record is filed under its own id, fee payers are addresses) is kept
//@ requires forall t Int :: wfTunnel(Store_tunnel, t) && wfLP(Store_tunnel, t)
//@ ensures err == nil ==> (forall t Int :: wfTunnel(Store_tunnel, t))
//@ ensures err == nil ==> (forall t Int :: wfLP(Store_tunnel, t))
//@ ensures (let t = old(tunnelAt(Store_tunnel, tunnelID)) in let lp = old(lpAt(Store_tunnel, tunnelID)) in let now = ctx.BlockTime().Unix() in
//@     let sendAll = (now >= t.Interval + lp.LastInterval) in
//@     let np = GenerateNewPrices(t.SignalDeviations, CreatePricesMap(lp.Prices), feedsPricesMap, now, sendAll) in
//@     (err == nil && len(np) == 0 ==> Store_tunnel == old(Store_tunnel) && Bank == old(Bank) && Other == old(Other)))
//@ ensures (let t = old(tunnelAt(Store_tunnel, tunnelID)) in let lp = old(lpAt(Store_tunnel, tunnelID)) in let now = ctx.BlockTime().Unix() in
//@     let sendAll = (now >= t.Interval + lp.LastInterval) in
//@     let np = GenerateNewPrices(t.SignalDeviations, CreatePricesMap(lp.Prices), feedsPricesMap, now, sendAll) in
//@     (err == nil && len(np) > 0 ==> tunnelAt(Store_tunnel, tunnelID).Sequence == wrapu64(t.Sequence + 1)))
//@ ensures (let t = old(tunnelAt(Store_tunnel, tunnelID)) in let lp = old(lpAt(Store_tunnel, tunnelID)) in let now = ctx.BlockTime().Unix() in
//@     let sendAll = (now >= t.Interval + lp.LastInterval) in
//@     let np = GenerateNewPrices(t.SignalDeviations, CreatePricesMap(lp.Prices), feedsPricesMap, now, sendAll) in
//@     (err == nil && len(np) > 0 ==> has(Store_tunnel, types.TunnelPacketStoreKey(tunnelID, wrapu64(t.Sequence + 1))) && packetAt(Store_tunnel, tunnelID, wrapu64(t.Sequence + 1)).Prices == np))
//@ ensures (let t = old(tunnelAt(Store_tunnel, tunnelID)) in let lp = old(lpAt(Store_tunnel, tunnelID)) in let now = ctx.BlockTime().Unix() in
//@     let sendAll = (now >= t.Interval + lp.LastInterval) in
//@     let np = GenerateNewPrices(t.SignalDeviations, CreatePricesMap(lp.Prices), feedsPricesMap, now, sendAll) in
//@     (err == nil && len(np) > 0 ==> lpAt(Store_tunnel, tunnelID).LastInterval == (sendAll ? now : lp.LastInterval)))
//@ ensures (let t = old(tunnelAt(Store_tunnel, tunnelID)) in let lp = old(lpAt(Store_tunnel, tunnelID)) in let now = ctx.BlockTime().Unix() in
//@     let sendAll = (now >= t.Interval + lp.LastInterval) in
//@     let np = GenerateNewPrices(t.SignalDeviations, CreatePricesMap(lp.Prices), feedsPricesMap, now, sendAll) in
//@     (err == nil && len(np) > 0 ==> lpAt(Store_tunnel, tunnelID).Prices == types.mergedPrices(lp.Prices, np) && lpAt(Store_tunnel, tunnelID).TunnelID == tunnelID))
//@ ensures err == nil ==> old(has(Store_tunnel, types.TunnelStoreKey(tunnelID))) && old(has(Store_tunnel, types.LatestPricesStoreKey(tunnelID)))

// If the tunnel can pay and production fails at any step, nothing of the attempt persists: the module
// store, the bank state and every other module reached by the route are exactly as before.
//@ func (k Keeper) ProduceActiveTunnelPacket
//@ counts tunnelID
//@ modifies Store_tunnel, Bank, Other, RouteSent, TSSReqTunnel, TSSReqChain, TSSReqAddr, TSSReqContent
//@ requires wfTunnel(Store_tunnel, tunnelID) && wfLP(Store_tunnel, tunnelID)
//@ ensures err != nil ==> Bank == old(Bank) && Other == old(Other) && Store_tunnel == old(Store_tunnel)
//@ requires forall t Int :: wfTunnel(Store_tunnel, t) && wfLP(Store_tunnel, t)
//@ ensures err == nil ==> (forall t Int :: wfTunnel(Store_tunnel, t))
//@ ensures err == nil ==> (forall t Int :: wfLP(Store_tunnel, t))

// C02: the tunnel end-blocker visits every active tunnel id; a tunnel whose packet cannot be produced only gets an event
// (the attempt leaves no trace, see above), so the end-blocker itself never fails.
//@ func (k Keeper) GetActiveTunnelIDs
//@ loop 0: invariant 0 <= itpos(iterator) && itpos(iterator) <= itlen(iterator)
// C17 "processed as active exactly when flagged active": EVERY id of the active index is handed to
// ProduceActiveTunnelPacket in this end-block, whether or not an earlier tunnel failed (call-history ghost: how often
// the per-tunnel step was started for which id)
//@ ghost Count_ProduceActiveTunnelPacket map[uint64]int
//@ func (k Keeper) ProduceActiveTunnelPackets
//@ modifies Store_tunnel, Bank, Other, RouteSent, TSSReqTunnel, TSSReqChain, TSSReqAddr, TSSReqContent, Count_ProduceActiveTunnelPacket
//@ requires forall t Int :: wfTunnel(Store_tunnel, t) && wfLP(Store_tunnel, t)
//@ ensures err == nil
//@ ensures forall t Int :: wfTunnel(Store_tunnel, t) && wfLP(Store_tunnel, t)
//@ loop 0: invariant forall t Int :: wfTunnel(Store_tunnel, t) && wfLP(Store_tunnel, t)
//@ loop 0: invariant forall j :: 0 <= j && j < #i ==> Count_ProduceActiveTunnelPacket[ids[j]] > old(Count_ProduceActiveTunnelPacket)[ids[j]]
//@ loop 0: invariant forall t Int :: Count_ProduceActiveTunnelPacket[t] >= old(Count_ProduceActiveTunnelPacket)[t]
//@ assert at return: forall j :: 0 <= j && j < len(ids) ==> Count_ProduceActiveTunnelPacket[ids[j]] > old(Count_ProduceActiveTunnelPacket)[ids[j]]

// ---- C17: deposits -----------------------------------------------------------------------------------
//@ spec depHas(s Store, t Int, a Addr) Bool = has(s, types.DepositStoreKey(t, a))
//@ spec depAt(s Store, t Int, a Addr) types.Deposit = dec(types.Deposit, s[types.DepositStoreKey(t, a)])
//@ spec wfDeposit(s Store, t Int, a Addr) Bool = depHas(s, t, a) ==> (depAt(s, t, a).TunnelID == t && bech32ok(depAt(s, t, a).Depositor) && bech32addr(depAt(s, t, a).Depositor) == a)
//@ spec tunnelParams(s Store) types.Params = has(s, types.ParamsKey) ? dec(types.Params, s[types.ParamsKey]) : zero(types.Params)

//@ func (k Keeper) validateDepositDenom
//@ trusted

// A deposit moves exactly `depositAmount` from the depositor to the module account and adds exactly that
// amount to the depositor's record and to the tunnel's total; nothing else in the store changes.
//@ func (k Keeper) DepositToTunnel
//@ modifies Store_tunnel, Bank
//@ requires wfTunnel(Store_tunnel, tunnelID) && wfDeposit(Store_tunnel, tunnelID, depositor)
//@ ensures err == nil ==> Bank == bankA2M(old(Bank), depositor, types.ModuleName, depositAmount)
//@ ensures err != nil ==> Store_tunnel == old(Store_tunnel)
//@ ensures err == nil ==> Store_tunnel == store(store(old(Store_tunnel), types.DepositStoreKey(tunnelID, depositor),
//@        enc(old(depHas(Store_tunnel, tunnelID, depositor)) ? with(old(depAt(Store_tunnel, tunnelID, depositor)), "Amount", ext("Coins.Add", old(depAt(Store_tunnel, tunnelID, depositor)).Amount, depositAmount))
//@                                                           : types.Deposit{tunnelID, addrstr(depositor), depositAmount})),
//@        types.TunnelStoreKey(tunnelID), enc(with(old(tunnelAt(Store_tunnel, tunnelID)), "TotalDeposit", ext("Coins.Add", old(tunnelAt(Store_tunnel, tunnelID)).TotalDeposit, depositAmount))))

// A withdrawal is bounded by the withdrawer's own record, pays out exactly the withdrawn amount, reduces the
// record (deleting it at zero) and the total by that amount, and deactivates the tunnel exactly when it was
// active and the new total no longer covers the minimum deposit.
//@ func (k Keeper) WithdrawFromTunnel
//@ modifies Store_tunnel, Bank
//@ requires wfTunnel(Store_tunnel, tunnelID) && wfDeposit(Store_tunnel, tunnelID, withdrawer)
//@ ensures err == nil ==> old(depHas(Store_tunnel, tunnelID, withdrawer)) && ext("Coins.IsAllGTE", old(depAt(Store_tunnel, tunnelID, withdrawer)).Amount, amount)
//@ ensures err == nil ==> Bank == bankM2A(old(Bank), types.ModuleName, withdrawer, amount)
//@ ensures err == nil ==> (let na = ext("Coins.Sub", old(depAt(Store_tunnel, tunnelID, withdrawer)).Amount, amount) in
//@        (ext("Coins.IsZero", na) ==> !depHas(Store_tunnel, tunnelID, withdrawer))
//@        && (!ext("Coins.IsZero", na) ==> Store_tunnel[types.DepositStoreKey(tunnelID, withdrawer)] == enc(with(old(depAt(Store_tunnel, tunnelID, withdrawer)), "Amount", na))))
//@ ensures err == nil ==> tunnelAt(Store_tunnel, tunnelID).TotalDeposit == ext("Coins.Sub", old(tunnelAt(Store_tunnel, tunnelID)).TotalDeposit, amount)
//@ ensures err == nil ==> (let deact = old(tunnelAt(Store_tunnel, tunnelID)).IsActive
//@                                    && !ext("Coins.IsAllGTE", ext("Coins.Sub", old(tunnelAt(Store_tunnel, tunnelID)).TotalDeposit, amount), old(tunnelParams(Store_tunnel)).MinDeposit) in
//@        (deact ==> !tunnelAt(Store_tunnel, tunnelID).IsActive && !has(Store_tunnel, types.ActiveTunnelIDStoreKey(tunnelID)))
//@        && (!deact ==> tunnelAt(Store_tunnel, tunnelID).IsActive == old(tunnelAt(Store_tunnel, tunnelID)).IsActive
//@                       && Store_tunnel[types.ActiveTunnelIDStoreKey(tunnelID)] == old(Store_tunnel)[types.ActiveTunnelIDStoreKey(tunnelID)]))

// ---- C17: activation gate and creator checks -----------------------------------------------------------
// Activation requires the total deposit to cover the minimum deposit in EVERY denom; it sets the flag and the
// active-index entry of exactly this tunnel, and changes nothing when it refuses.
//@ func (k Keeper) ActivateTunnel
//@ modifies Store_tunnel
//@ requires wfTunnel(Store_tunnel, tunnelID)
//@ ensures err == nil <==> (old(has(Store_tunnel, types.TunnelStoreKey(tunnelID))) && ext("Coins.IsAllGTE", old(tunnelAt(Store_tunnel, tunnelID)).TotalDeposit, old(tunnelParams(Store_tunnel)).MinDeposit))
//@ ensures err != nil ==> Store_tunnel == old(Store_tunnel)
//@ ensures err == nil ==> Store_tunnel == store(store(old(Store_tunnel), types.ActiveTunnelIDStoreKey(tunnelID), bzmk(1)), types.TunnelStoreKey(tunnelID), enc(with(old(tunnelAt(Store_tunnel, tunnelID)), "IsActive", true)))

// Only the tunnel's creator can activate it, only while it is inactive, and only with enough deposit.
//@ func (k msgServer) Activate
//@ modifies Store_tunnel
//@ requires wfTunnel(Store_tunnel, msg.TunnelID)
//@ ensures err == nil ==> old(has(Store_tunnel, types.TunnelStoreKey(msg.TunnelID))) && old(tunnelAt(Store_tunnel, msg.TunnelID)).Creator == msg.Creator && !old(tunnelAt(Store_tunnel, msg.TunnelID)).IsActive
//@ ensures err == nil ==> ext("Coins.IsAllGTE", old(tunnelAt(Store_tunnel, msg.TunnelID)).TotalDeposit, old(tunnelParams(Store_tunnel)).MinDeposit)
//@ ensures err == nil ==> tunnelAt(Store_tunnel, msg.TunnelID).IsActive && has(Store_tunnel, types.ActiveTunnelIDStoreKey(msg.TunnelID))
//@ ensures err != nil ==> Store_tunnel == old(Store_tunnel)

// Only the tunnel's creator can deactivate it, only while it is active.
//@ func (k msgServer) Deactivate
//@ modifies Store_tunnel
//@ requires wfTunnel(Store_tunnel, msg.TunnelID)
//@ ensures err == nil ==> old(has(Store_tunnel, types.TunnelStoreKey(msg.TunnelID))) && old(tunnelAt(Store_tunnel, msg.TunnelID)).Creator == msg.Creator && old(tunnelAt(Store_tunnel, msg.TunnelID)).IsActive
//@ ensures err == nil ==> !tunnelAt(Store_tunnel, msg.TunnelID).IsActive && !has(Store_tunnel, types.ActiveTunnelIDStoreKey(msg.TunnelID))
//@ ensures err != nil ==> Store_tunnel == old(Store_tunnel)

// ---- C08: manual trigger ----------------------------------------------------------------------------------------
// Only the creator can trigger, only an ACTIVE tunnel, only if the fee payer can pay; the packet takes the next sequence
// number and carries the current feeds prices of ALL the tunnel's signals - so it is a full send and the interval clock
// restarts at this block time (the end-blocker will not send another interval packet before a whole interval has passed
// since now); remembered prices are merged with the packet's. On failure of the creator / activity / funds checks
// nothing changes.
//@ func (k msgServer) TriggerTunnel
//@ modifies Store_tunnel, Bank, Other, RouteSent, TSSReqTunnel, TSSReqChain, TSSReqAddr, TSSReqContent
//@ requires wfTunnel(Store_tunnel, msg.TunnelID) && wfLP(Store_tunnel, msg.TunnelID)
//@ ensures err == nil ==> old(has(Store_tunnel, types.TunnelStoreKey(msg.TunnelID))) && old(tunnelAt(Store_tunnel, msg.TunnelID)).Creator == msg.Creator && old(tunnelAt(Store_tunnel, msg.TunnelID)).IsActive
//@ ensures err == nil ==> tunnelAt(Store_tunnel, msg.TunnelID).Sequence == wrapu64(old(tunnelAt(Store_tunnel, msg.TunnelID)).Sequence + 1)
//@ ensures err == nil ==> has(Store_tunnel, types.TunnelPacketStoreKey(msg.TunnelID, wrapu64(old(tunnelAt(Store_tunnel, msg.TunnelID)).Sequence + 1)))
//@ ensures err == nil ==> lpAt(Store_tunnel, msg.TunnelID).LastInterval == sdkctx(goCtx).BlockTime().Unix() && lpAt(Store_tunnel, msg.TunnelID).TunnelID == msg.TunnelID
//@ ensures err == nil ==> lpAt(Store_tunnel, msg.TunnelID).Prices == types.mergedPrices(old(lpAt(Store_tunnel, msg.TunnelID)).Prices, packetAt(Store_tunnel, msg.TunnelID, wrapu64(old(tunnelAt(Store_tunnel, msg.TunnelID)).Sequence + 1)).Prices)
//@ ensures (!old(has(Store_tunnel, types.TunnelStoreKey(msg.TunnelID))) || old(tunnelAt(Store_tunnel, msg.TunnelID)).Creator != msg.Creator || !old(tunnelAt(Store_tunnel, msg.TunnelID)).IsActive) ==> err != nil && Store_tunnel == old(Store_tunnel) && Bank == old(Bank) && Other == old(Other)

// ---- C17: genesis import ---------------------------------------------------------------------------------------------
// every imported tunnel is stored under its id, and a tunnel flagged active IS in the active set the end-blocker walks
// (whatever its route): the flag and the set agree after an export / import restart
//@ func (k Keeper) ensureIBCPort
//@ trusted
//@ modifies Other
// C17: an imported state is accepted only if the module account holds exactly the recorded deposits plus the recorded
// fees - whatever the balance is, zero included (otherwise InitGenesis panics and the import is refused)
//@ spec allDeposits(ds []types.Deposit, n Int) sdk.Coins = n <= 0 ? zero("sdk.Coins") : ext("Coins.Add", allDeposits(ds, n - 1), ds[n-1].Amount)
//@ func InitGenesis
//@ may_panic calls
//@ modifies Store_tunnel, Bank, Other
//@ assert at end: ext("Coins.Equal", balance, totalBalance)
// ... where the total is the sum of ALL recorded deposits (added up in list order) plus the recorded fees
//@ loop 1: invariant totalDeposits == allDeposits(data.Deposits, #i)
//@ assert before balance: totalDeposits == allDeposits(data.Deposits, len(data.Deposits))
// C08 / C17 "processed as active exactly when flagged active", the other direction: the import starts from an empty
// active index and puts into it ONLY tunnels that are flagged active
//@ requires forall t Int :: !has(Store_tunnel, types.ActiveTunnelIDStoreKey(t))
//@ ensures forall t Int :: has(Store_tunnel, types.ActiveTunnelIDStoreKey(t)) ==> (exists j :: 0 <= j && j < len(data.Tunnels) && data.Tunnels[j].ID == t && data.Tunnels[j].IsActive)
//@ loop 0: invariant forall t Int :: has(Store_tunnel, types.ActiveTunnelIDStoreKey(t)) ==> (exists j :: 0 <= j && j < #i && data.Tunnels[j].ID == t && data.Tunnels[j].IsActive)
//@ loop 1: invariant forall t Int :: has(Store_tunnel, types.ActiveTunnelIDStoreKey(t)) ==> (exists j :: 0 <= j && j < len(data.Tunnels) && data.Tunnels[j].ID == t && data.Tunnels[j].IsActive)
//@ ensures forall j :: 0 <= j && j < len(data.Tunnels) ==> has(Store_tunnel, types.TunnelStoreKey(data.Tunnels[j].ID))
//@ ensures forall j :: 0 <= j && j < len(data.Tunnels) ==> (data.Tunnels[j].IsActive ==> has(Store_tunnel, types.ActiveTunnelIDStoreKey(data.Tunnels[j].ID)))
//@ loop 0: invariant forall j :: 0 <= j && j < #i ==> has(Store_tunnel, types.TunnelStoreKey(data.Tunnels[j].ID))
//@ loop 0: invariant forall j :: 0 <= j && j < #i ==> (data.Tunnels[j].IsActive ==> has(Store_tunnel, types.ActiveTunnelIDStoreKey(data.Tunnels[j].ID)))
//@ loop 1: invariant forall j :: 0 <= j && j < len(data.Tunnels) ==> has(Store_tunnel, types.TunnelStoreKey(data.Tunnels[j].ID))
//@ loop 1: invariant forall j :: 0 <= j && j < len(data.Tunnels) ==> (data.Tunnels[j].IsActive ==> has(Store_tunnel, types.ActiveTunnelIDStoreKey(data.Tunnels[j].ID)))

// ---- frame of the store invariants: each record family is written only through these functions ------------------------
// (the invariants above are proved writer by writer - "a lock has its index entry", "a record is filed under its own id";
// a new function that Sets or Deletes such keys directly is outside that argument: ground obligation `writers/...`)
//@ writers ActiveTunnelIDStoreKey: Keeper.DeleteActiveTunnelID, Keeper.SetActiveTunnelID
//@ writers DepositStoreKey: Keeper.DeleteDeposit, Keeper.SetDeposit
//@ writers LatestPricesStoreKey: Keeper.SetLatestPrices
//@ writers TunnelPacketStoreKey: Keeper.SetPacket
//@ writers TunnelStoreKey: Keeper.SetTunnel

// ---- read-only list getters (iterator + decode loops): results not modelled, no state written -------------------------
// (so that a caller which uses one of them stays analysable: the list is an arbitrary well-typed value)
//@ func (k Keeper) GetDeposits
//@ trusted
//@ func (k Keeper) GetAllDeposits
//@ trusted
//@ func (k Keeper) GetAllLatestPrices
//@ trusted
//@ func (k Keeper) GetTunnels
//@ trusted
