//go:build verif

package keeper

// Contracts for govc (see /verif/DESIGN.md). Comment-only file; compiled only under -tags verif.

// C08: deviation in basis points: 0 if unchanged, MaxInt64 if the old price is 0 and the new one is
// not, else floor(|new-old| * 10000 / old).
//@ func calculateDeviationBPS
//@ requires oldPrice >= 0 && newPrice >= 0
//@ ensures  newPrice == oldPrice                  ==> result == 0
//@ ensures  newPrice != oldPrice && oldPrice == 0 ==> result == MaxInt64
//@ ensures  newPrice != oldPrice && oldPrice >  0 ==> result == (abs(newPrice - oldPrice) * 10000) / oldPrice

// ---- C08: atomic packet production ----------------------------------------------------------------
//@ func (k Keeper) HasEnoughFundToCreatePacket
//@ ensures true

//@ spec tunnelAt(s Store, id Int) types.Tunnel = dec(types.Tunnel, s[types.TunnelStoreKey(id)])
// Deactivation clears the active flag and the active-index entry of exactly this tunnel.
// store invariant: a tunnel is stored under its own id
//@ spec wfTunnel(s Store, id Int) Bool = has(s, types.TunnelStoreKey(id)) ==> tunnelAt(s, id).ID == id
//@ func (k Keeper) DeactivateTunnel
//@ modifies Store_tunnel
//@ requires wfTunnel(Store_tunnel, tunnelID)
//@ ensures err == nil <==> old(has(Store_tunnel, types.TunnelStoreKey(tunnelID)))
//@ ensures err != nil ==> Store_tunnel == old(Store_tunnel)
//@ ensures err == nil ==> !tunnelAt(Store_tunnel, tunnelID).IsActive && !has(Store_tunnel, types.ActiveTunnelIDStoreKey(tunnelID))

//@ func (k Keeper) ProducePacket
//@ trusted
//@ modifies Store_tunnel, Bank, Other

// If the tunnel can pay and production fails at any step, nothing of the attempt persists: the module
// store, the bank state and every other module reached by the route are exactly as before.
//@ func (k Keeper) ProduceActiveTunnelPacket
//@ modifies Store_tunnel, Bank, Other
//@ requires wfTunnel(Store_tunnel, tunnelID)
//@ ensures err != nil ==> Bank == old(Bank) && Other == old(Other) && Store_tunnel == old(Store_tunnel)
