//go:build verif

package tunnel

// Contracts for govc (see /verif/DESIGN.md). Comment-only file; compiled only under -tags verif.

// C02: the tunnel end-blocker never returns an error (and keeps the module's store invariant)
//@ func EndBlocker
//@ modifies Store_tunnel, Bank, Other, RouteSent
//@ requires forall t Int :: keeper.wfTunnel(Store_tunnel, t) && keeper.wfLP(Store_tunnel, t)
//@ ensures err == nil
