//go:build verif

package tunnel

// Contracts for govc (see /verif/DESIGN.md). Comment-only file; compiled only under -tags verif.

// C02: the tunnel end-blocker never returns an error (and keeps the module's store invariant)
//@ func EndBlocker
//@ modifies Store_tunnel, Bank, Other, RouteSent, TSSReqTunnel, TSSReqChain, TSSReqAddr, TSSReqContent, Count_ProduceActiveTunnelPacket
//@ requires forall t Int :: keeper.wfTunnel(Store_tunnel, t) && keeper.wfLP(Store_tunnel, t)
//@ ensures err == nil

// ---- C02 / C14: the module's ABCI entry point returns exactly what its blocker returned --------------------------------
// (an error of the blocker must reach the SDK, which aborts the block; swallowing it would commit whatever the failed
// blocker had already written - e.g. a fee share taken from the fee collector but only partly paid out)
//@ func (am AppModule) EndBlock
//@ may_panic calls
//@ modifies *
//@ forwards EndBlocker

// C17: the genesis validation the SDK runs for this module IS types.ValidateGenesis (deposit sums, known tunnels, ids within
// the counter): the entry point either fails to decode the state or returns exactly that validation's verdict
//@ extern (c github.com/cosmos/cosmos-sdk/codec.JSONCodec) UnmarshalJSON(bz, ptr) (err)
//@ modifies ptr
//@ func (b AppModuleBasic) ValidateGenesis
//@ may_panic calls
//@ modifies *
//@ forwards ValidateGenesis
