//go:build verif

package types

// Contracts for govc (see /verif/DESIGN.md). Comment-only file; compiled only under -tags verif.

//@ keyfns TunnelStoreKey TunnelPacketStoreKey LatestPricesStoreKey DepositStoreKey ActiveTunnelIDStoreKey

// ---- assumed contracts of the keeper interfaces the tunnel module depends on ----------------------
//@ spec spendable(b BankState, a Addr) sdk.Coins uninterpreted
//@ func (k BankKeeper) SpendableCoins
//@ trusted
//@ ensures result == spendable(Bank, addr)
//@ func (k BankKeeper) GetAllBalances
//@ trusted
//@ func (k BankKeeper) SendCoinsFromAccountToModule
//@ trusted
//@ modifies Bank
//@ ensures err == nil ==> Bank == bankA2M(old(Bank), senderAddr, recipientModule, amt)
//@ ensures err != nil ==> Bank == old(Bank)
//@ func (k BankKeeper) SendCoinsFromModuleToAccount
//@ trusted
//@ modifies Bank
//@ ensures err == nil ==> Bank == bankM2A(old(Bank), senderModule, recipientAddr, amt)
//@ ensures err != nil ==> Bank == old(Bank)

//@ spec signingFee(o OtherState) sdk.Coins uninterpreted
//@ func (k BandtssKeeper) GetSigningFee
//@ trusted
//@ ensures err == nil ==> result == signingFee(Other)
// (what the signing group is asked to sign for a tunnel is recorded: which tunnel, which destination, which content)
//@ ghost TSSReqTunnel Int
//@ ghost TSSReqChain Str
//@ ghost TSSReqAddr Str
//@ ghost TSSReqContent TunnelSignatureOrder
//@ func (k BandtssKeeper) CreateTunnelSigningRequest
//@ trusted
//@ may_panic calls
//@ modifies Bank, Other, TSSReqTunnel, TSSReqChain, TSSReqAddr, TSSReqContent
//@ ensures TSSReqTunnel == tunnelID && TSSReqChain == destinationChainID && TSSReqAddr == destinationContractAddr && (typeis(content, "*TunnelSignatureOrder") ==> TSSReqContent == unbox(content, "*TunnelSignatureOrder"))

//@ func (k FeedsKeeper) GetAllPrices
//@ trusted
//@ func (k FeedsKeeper) GetPrices
//@ trusted

// Route of a tunnel (protobuf Any unpacking is external).
//@ spec routeOf(t Tunnel) RouteI uninterpreted
//@ func (t Tunnel) GetRouteValue
//@ trusted
//@ ensures err == nil ==> result == routeOf(t)

// C08: UpdatePrices merges the new prices into the remembered list BY SIGNAL ID: an entry of the table is only ever
// overwritten by a price for the SAME signal (so no signal loses its last-sent price and looks infinitely deviated next
// block), the table never shrinks, entries for signals that are not in the packet are untouched, and every price of the
// packet ends up in the table. (`mergedPrices` merely names the resulting list for the callers' contracts.)
//@ spec mergedPrices(oldp []feedstypes.Price, newp []feedstypes.Price) []feedstypes.Price uninterpreted
//@ spec inPrices(ps []feedstypes.Price, id Str) Bool = exists j :: 0 <= j && j < len(ps) && ps[j].SignalID == id
//@ func (l *LatestPrices) UpdatePrices
//@ modifies l
//@ names l.Prices == mergedPrices(old(l.Prices), newPrices)
//@ ensures l.TunnelID == old(l.TunnelID) && l.LastInterval == old(l.LastInterval)
//@ ensures len(l.Prices) >= len(old(l.Prices)) && (forall r :: 0 <= r && r < len(old(l.Prices)) ==> l.Prices[r].SignalID == old(l.Prices)[r].SignalID)
//@ ensures forall r :: 0 <= r && r < len(old(l.Prices)) && !inPrices(newPrices, old(l.Prices)[r].SignalID) ==> l.Prices[r] == old(l.Prices)[r]
//@ loop 0: invariant forall s Str :: has(pricesIndex, s) ==> 0 <= pricesIndex[s] && pricesIndex[s] < #i && l.Prices[pricesIndex[s]].SignalID == s
//@ loop 0: invariant l.Prices == old(l.Prices) && l.TunnelID == old(l.TunnelID) && l.LastInterval == old(l.LastInterval)
//@ loop 1: invariant l.TunnelID == old(l.TunnelID) && l.LastInterval == old(l.LastInterval)
//@ loop 1: invariant forall s Str :: has(pricesIndex, s) ==> 0 <= pricesIndex[s] && pricesIndex[s] < len(l.Prices) && l.Prices[pricesIndex[s]].SignalID == s
//@ loop 1: invariant len(l.Prices) >= len(old(l.Prices)) && (forall r :: 0 <= r && r < len(old(l.Prices)) ==> l.Prices[r].SignalID == old(l.Prices)[r].SignalID)
//@ loop 1: invariant forall r :: 0 <= r && r < len(old(l.Prices)) && !(exists j :: 0 <= j && j < #i && newPrices[j].SignalID == old(l.Prices)[r].SignalID) ==> l.Prices[r] == old(l.Prices)[r]

// the deviation specs of a tunnel by signal id (a lookup table: what is in it, not an order)
//@ func (t Tunnel) GetSignalDeviationMap
//@ ensures forall j :: 0 <= j && j < len(t.SignalDeviations) ==> has(result, t.SignalDeviations[j].SignalID)
//@ ensures forall k Str :: has(result, k) ==> (exists j :: 0 <= j && j < len(t.SignalDeviations) && t.SignalDeviations[j].SignalID == k && result[k] == t.SignalDeviations[j])
//@ loop 0: invariant forall j :: 0 <= j && j < #i ==> has(signalDeviationMap, t.SignalDeviations[j].SignalID)
//@ loop 0: invariant forall k Str :: has(signalDeviationMap, k) ==> (exists j :: 0 <= j && j < #i && t.SignalDeviations[j].SignalID == k && signalDeviationMap[k] == t.SignalDeviations[j])
// the signal ids of a tunnel, in the order of its deviation specs
//@ func (t Tunnel) GetSignalIDs
//@ ensures len(result) == len(t.SignalDeviations) && (forall j :: 0 <= j && j < len(result) ==> result[j] == t.SignalDeviations[j].SignalID)
//@ loop 0: invariant len(signalIDs) == #i && (forall j :: 0 <= j && j < #i ==> signalIDs[j] == t.SignalDeviations[j].SignalID)

// ---- C17: genesis --------------------------------------------------------------------------------------------------
// total of the deposits recorded for one tunnel (coins added up in list order)
//@ spec depSum(ds []Deposit, id Int, n Int) sdk.Coins = n <= 0 ? zero("sdk.Coins") : (ds[n-1].TunnelID == id ? ext("Coins.Add", depSum(ds, id, n - 1), ds[n-1].Amount) : depSum(ds, id, n - 1))
// a genesis state is accepted only if EVERY tunnel's total deposit equals the sum of the deposit records made to it -
// including tunnels that have no deposit record at all (their total must then be zero)
//@ func ValidateGenesis
//@ ensures err == nil ==> (forall j :: 0 <= j && j < len(data.Tunnels) ==> ext("Coins.Equal", data.Tunnels[j].TotalDeposit, depSum(data.Deposits, data.Tunnels[j].ID, len(data.Deposits))))
//@ loop 0: invariant true
//@ loop 1: invariant forall id Int :: (has(tunnelDeposit, id) ? tunnelDeposit[id] : zero("sdk.Coins")) == depSum(data.Deposits, id, #i)
//@ loop 2: invariant forall j :: 0 <= j && j < #i ==> ext("Coins.Equal", data.Tunnels[j].TotalDeposit, depSum(data.Deposits, data.Tunnels[j].ID, len(data.Deposits)))
//@ func (k AccountKeeper) GetModuleAccount
//@ trusted
//@ func (k AccountKeeper) SetModuleAccount
//@ trusted
//@ modifies Other

// ---- C11: what the group signs for a tunnel packet -------------------------------------------------------------------
// the payload is packed only from prices that were converted WITHOUT error (a signal id that does not fit bytes32 makes
// the conversion fail: then there is nothing to sign - never a well-formed payload with the prices left out), with the
// packet's own sequence number and creation time, behind the encoder's prefix
//@ func EncodeTSS
//@ assert after tssPacket: err == nil && tssPacket.Sequence == sequence && tssPacket.CreatedAt == createdAt
//@ assert after tssPacket#2: err == nil && tssPacket.Sequence == sequence && tssPacket.CreatedAt == createdAt
//@ ensures err == nil ==> (encoder == feedstypes.ENCODER_FIXED_POINT_ABI || encoder == feedstypes.ENCODER_TICK_ABI)

// packing the route's receipt into the packet (protobuf Any): only the receipt field changes
//@ func (p *Packet) SetReceipt
//@ trusted
//@ modifies p
//@ ensures p.TunnelID == old(p.TunnelID) && p.Sequence == old(p.Sequence) && p.Prices == old(p.Prices)

// C02 / C08: accepted parameters are coin lists the end-blocker can compute with - BOTH the minimum deposit and the base
// packet fee are valid coin lists (sorted, positive: `Coins.Add` panics on an unsorted list) - and ordered, positive bounds
//@ func (p Params) Validate
//@ ensures err == nil ==> ext("Coins.IsValid", p.MinDeposit) && ext("Coins.IsValid", p.BasePacketFee)
//@ ensures err == nil ==> 1 <= p.MinInterval && p.MinInterval <= p.MaxInterval && 1 <= p.MinDeviationBPS && p.MinDeviationBPS <= p.MaxDeviationBPS && 1 <= p.MaxSignals
