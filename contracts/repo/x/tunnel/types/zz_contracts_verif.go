//go:build verif

package types

// Contracts for govc (see /verif/DESIGN.md). Comment-only file; compiled only under -tags verif.

//@ keyfns TunnelStoreKey TunnelPacketStoreKey LatestPricesStoreKey DepositStoreKey ActiveTunnelIDStoreKey

// ---- assumed contracts of the keeper interfaces the tunnel module depends on ----------------------
//@ spec spendable(b BankState, a Addr) sdk.Coins uninterpreted
//@ func (k BankKeeper) SpendableCoins
//@ trusted
//@ ensures result == spendable(Bank, addr)
//@ func (k BankKeeper) GetAllBalances
//@ trusted
//@ func (k BankKeeper) SendCoinsFromAccountToModule
//@ trusted
//@ modifies Bank
//@ ensures err == nil ==> Bank == bankA2M(old(Bank), senderAddr, recipientModule, amt)
//@ ensures err != nil ==> Bank == old(Bank)
//@ func (k BankKeeper) SendCoinsFromModuleToAccount
//@ trusted
//@ modifies Bank
//@ ensures err == nil ==> Bank == bankM2A(old(Bank), senderModule, recipientAddr, amt)
//@ ensures err != nil ==> Bank == old(Bank)

//@ spec signingFee(o OtherState) sdk.Coins uninterpreted
//@ func (k BandtssKeeper) GetSigningFee
//@ trusted
//@ ensures err == nil ==> result == signingFee(Other)
//@ func (k BandtssKeeper) CreateTunnelSigningRequest
//@ trusted
//@ modifies Bank, Other

//@ func (k FeedsKeeper) GetAllPrices
//@ trusted
//@ func (k FeedsKeeper) GetPrices
//@ trusted

// Route of a tunnel (protobuf Any unpacking is external).
//@ spec routeOf(t Tunnel) RouteI uninterpreted
//@ func (t Tunnel) GetRouteValue
//@ trusted
//@ ensures err == nil ==> result == routeOf(t)

// UpdatePrices merges the new prices into the remembered list by signal id (map-indexed loops: body not verified)
//@ spec mergedPrices(oldp []feedstypes.Price, newp []feedstypes.Price) []feedstypes.Price uninterpreted
//@ func (l *LatestPrices) UpdatePrices
//@ trusted
//@ modifies l
//@ ensures l.TunnelID == old(l.TunnelID) && l.LastInterval == old(l.LastInterval) && l.Prices == mergedPrices(old(l.Prices), newPrices)

// the signal ids of a tunnel, in the order of its deviation specs
//@ func (t Tunnel) GetSignalIDs
//@ ensures len(result) == len(t.SignalDeviations) && (forall j :: 0 <= j && j < len(result) ==> result[j] == t.SignalDeviations[j].SignalID)
//@ loop 0: invariant len(signalIDs) == #i && (forall j :: 0 <= j && j < #i ==> signalIDs[j] == t.SignalDeviations[j].SignalID)
