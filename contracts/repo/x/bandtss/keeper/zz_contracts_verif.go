//go:build verif

package keeper

// Contracts for govc (see /verif/DESIGN.md). Comment-only file; compiled only under -tags verif.

// ---- views of the bandtss store ---------------------------------------------------------------------
//@ spec bMemberHas(s Store, a Addr, g Int) Bool = has(s, types.MemberStoreKey(a, g))
//@ spec bMemberAt(s Store, a Addr, g Int) types.Member = dec(types.Member, s[types.MemberStoreKey(a, g)])
//@ spec bWfMember(s Store, a Addr, g Int) Bool = bMemberHas(s, a, g) ==> (bech32ok(bMemberAt(s, a, g).Address) && bech32addr(bMemberAt(s, a, g).Address) == a && bMemberAt(s, a, g).GroupID == g)
//@ spec bSigningAt(s Store, id Int) types.Signing = dec(types.Signing, s[types.SigningInfoStoreKey(id)])
//@ spec bMappingOf(s Store, tssID Int) Int = u64of(s[types.SigningIDMappingStoreKey(tssID)])
//@ spec bTransitionHas(s Store) Bool = has(s, types.GroupTransitionStoreKey)
//@ spec bTransitionAt(s Store) types.GroupTransition = dec(types.GroupTransition, s[types.GroupTransitionStoreKey])

// C10: deactivation flips exactly this member's record (and the tss side); a missing member is an error
// without effect; an already inactive member is left alone.
//@ func (k Keeper) DeactivateMember
//@ modifies Store_bandtss, Other
//@ requires bWfMember(Store_bandtss, address, groupID)
//@ ensures  err == nil ==> bMemberHas(Store_bandtss, address, groupID) && !bMemberAt(Store_bandtss, address, groupID).IsActive
//@ ensures  forall q Bz :: q != types.MemberStoreKey(address, groupID) ==> Store_bandtss[q] == old(Store_bandtss)[q]
//@ ensures  !old(bMemberHas(Store_bandtss, address, groupID)) ==> err != nil && Store_bandtss == old(Store_bandtss)
//@ ensures  bWfMember(Store_bandtss, address, groupID)
// ... and the tss-side flag is cleared for the SAME (group, address)
//@ ensures  err == nil && old(bMemberHas(Store_bandtss, address, groupID)) && old(bMemberAt(Store_bandtss, address, groupID)).IsActive ==> Other == types.tssSetActive(old(Other), groupID, address, false)

// C14 / C10: re-activation is possible only for an inactive member of THAT group and only once the inactivity penalty
// has fully elapsed; it flips exactly this member's record, and sets the tss-side activity flag - the one the block
// reward allocation reads - for the SAME (group, address), not for any other group the address belongs to
//@ func (k Keeper) ActivateMember
//@ modifies Store_bandtss, Other
//@ requires bWfMember(Store_bandtss, address, groupID)
//@ ensures  err == nil ==> old(bMemberHas(Store_bandtss, address, groupID)) && !old(bMemberAt(Store_bandtss, address, groupID)).IsActive
//@ ensures  err == nil ==> !old(bMemberAt(Store_bandtss, address, groupID)).Since.Add(old(bParams(Store_bandtss)).InactivePenaltyDuration).After(ctx.BlockTime())
//@ ensures  err == nil ==> bMemberAt(Store_bandtss, address, groupID).IsActive && bMemberAt(Store_bandtss, address, groupID).Since == ctx.BlockTime()
//@ ensures  err == nil ==> Other == types.tssSetActive(old(Other), groupID, address, true)
//@ ensures  forall q Bz :: q != types.MemberStoreKey(address, groupID) ==> Store_bandtss[q] == old(Store_bandtss)[q]

// C10: when an attempt times out every idle member that is an (active) member of the signing's group is
// deactivated -- all of them, not only those before the first already-inactive one.
//@ func (cb TSSCallback) OnSigningTimeout
//@ may_panic calls
//@ modifies Store_bandtss, Other
//@ requires forall a Addr, g Int :: bWfMember(Store_bandtss, a, g)
//@ ensures  forall j :: 0 <= j && j < len(idleMembers) ==>
//@             !(bMemberHas(Store_bandtss, idleMembers[j], types.tssSigning(old(Other), signingID).GroupID)
//@               && bMemberAt(Store_bandtss, idleMembers[j], types.tssSigning(old(Other), signingID).GroupID).IsActive)
//@ loop 0: invariant forall a Addr, g Int :: bWfMember(Store_bandtss, a, g)
//@ loop 0: invariant forall j :: 0 <= j && j < #i ==>
//@             !(bMemberHas(Store_bandtss, idleMembers[j], signing.GroupID) && bMemberAt(Store_bandtss, idleMembers[j], signing.GroupID).IsActive)
// (an element that is skipped is skipped alone: no break ends the visit of the rest)
//@ loop 0: exhaustive

// ---- C13 / C18: completion callback ------------------------------------------------------------------
//@ spec payAll(b BankState, ms []sdk.AccAddress, k Int, fee sdk.Coins) BankState = k <= 0 ? b : bankM2A(payAll(b, ms, k - 1, fee), types.ModuleName, ms[k-1], fee)

// adding a group's members writes member records of THAT group only
//@ func (k Keeper) AddMembers
//@ may_panic calls
//@ modifies Store_bandtss
//@ ensures forall q Bz :: !(iskey(types.MemberStoreKey, q) && keyarg(types.MemberStoreKey, q, 1) == groupID) ==> Store_bandtss[q] == old(Store_bandtss)[q]
//@ loop 0: invariant forall q Bz :: !(iskey(types.MemberStoreKey, q) && keyarg(types.MemberStoreKey, q, 1) == groupID) ==> Store_bandtss[q] == old(Store_bandtss)[q]
//@ func (k Keeper) ExtractEventAttributesFromTransition
//@ trusted

// A paid signing of the current group pays every assigned member exactly the fee_per_signer recorded
// (escrowed) for that signing, and nothing in any other case; the id mapping is removed. The hand-over
// transition moves from WAITING_SIGN to WAITING_EXECUTION only for its own hand-over signing.
//@ func (cb TSSCallback) OnSigningCompleted
//@ may_panic calls
//@ modifies Store_bandtss, Bank, Other
//@ ensures old(bMappingOf(Store_bandtss, signingID)) != 0 ==>
//@    (let bs = old(bSigningAt(Store_bandtss, bMappingOf(Store_bandtss, signingID))) in
//@      ((signingID == bs.CurrentGroupSigningID && !ext("Coins.IsZero", bs.FeePerSigner))
//@          ==> Bank == payAll(old(Bank), assignedMembers, len(assignedMembers), bs.FeePerSigner))
//@      && (!(signingID == bs.CurrentGroupSigningID && !ext("Coins.IsZero", bs.FeePerSigner)) ==> Bank == old(Bank)))
//@ ensures old(bMappingOf(Store_bandtss, signingID)) != 0 ==> Store_bandtss == remove(old(Store_bandtss), types.SigningIDMappingStoreKey(signingID))
//@ ensures old(bMappingOf(Store_bandtss, signingID)) == 0 ==> Bank == old(Bank)
//@ ensures (old(bTransitionHas(Store_bandtss)) && old(bTransitionAt(Store_bandtss)).Status == types.TRANSITION_STATUS_WAITING_SIGN
//@           && bTransitionHas(Store_bandtss) && bTransitionAt(Store_bandtss).Status == types.TRANSITION_STATUS_WAITING_EXECUTION)
//@          ==> signingID == old(bTransitionAt(Store_bandtss)).SigningID
//@ loop 0: invariant Bank == payAll(old(Bank), assignedMembers, #i, bandtssSigning.FeePerSigner)

// C13: nobody is paid for a failed signing; its id mapping is removed.
//@ func (cb TSSCallback) OnSigningFailed
//@ modifies Store_bandtss, Other
//@ ensures old(bMappingOf(Store_bandtss, signingID)) != 0 ==> Store_bandtss == remove(old(Store_bandtss), types.SigningIDMappingStoreKey(signingID))

// C18: a new (non-forced) transition is accepted only from the authority and only while no transition is
// in progress.
//@ func (k msgServer) TransitionGroup
//@ modifies Store_bandtss, Other
//@ ensures err == nil ==> !old(bTransitionHas(Store_bandtss))
//@ ensures err == nil ==> req.Authority == k.Keeper.authority
// ... with an execution time inside the allowed window; the recorded transition starts in CREATING_GROUP (not forced),
// from the current group, scheduled for exactly the requested time
//@ ensures err == nil ==> !req.ExecTime.Before(sdkctx(goCtx).BlockTime().Add(old(bParams(Store_bandtss)).MinTransitionDuration)) && !req.ExecTime.After(sdkctx(goCtx).BlockTime().Add(old(bParams(Store_bandtss)).MaxTransitionDuration))
//@ ensures err == nil ==> bTransitionHas(Store_bandtss) && bTransitionAt(Store_bandtss).Status == types.TRANSITION_STATUS_CREATING_GROUP && !bTransitionAt(Store_bandtss).IsForceTransition
//@        && bTransitionAt(Store_bandtss).ExecTime == req.ExecTime && bTransitionAt(Store_bandtss).CurrentGroupID == old(curGroup(Store_bandtss)) && bTransitionAt(Store_bandtss).SigningID == 0
//@ loop 0: invariant Store_bandtss == old(Store_bandtss)

// C18: a forced transition also needs the authority, no transition in progress and a valid execution time, and an
// ACTIVE incoming group different from the current one; it is recorded as forced, directly WAITING_EXECUTION.
//@ func (k msgServer) ForceTransitionGroup
//@ may_panic calls
//@ modifies Store_bandtss, Other
//@ ensures err == nil ==> req.Authority == k.Keeper.authority && !old(bTransitionHas(Store_bandtss))
//@ ensures err == nil ==> !req.ExecTime.Before(sdkctx(goCtx).BlockTime().Add(old(bParams(Store_bandtss)).MinTransitionDuration)) && !req.ExecTime.After(sdkctx(goCtx).BlockTime().Add(old(bParams(Store_bandtss)).MaxTransitionDuration))
//@ ensures err == nil ==> req.IncomingGroupID != old(curGroup(Store_bandtss)) && types.tssGroup(old(Other), req.IncomingGroupID).Status == tsstypes.GROUP_STATUS_ACTIVE
//@ ensures err == nil ==> bTransitionHas(Store_bandtss) && bTransitionAt(Store_bandtss).Status == types.TRANSITION_STATUS_WAITING_EXECUTION && bTransitionAt(Store_bandtss).IsForceTransition
//@        && bTransitionAt(Store_bandtss).ExecTime == req.ExecTime && bTransitionAt(Store_bandtss).IncomingGroupID == req.IncomingGroupID && bTransitionAt(Store_bandtss).CurrentGroupID == old(curGroup(Store_bandtss))

// ---- C13: paid signing requests ---------------------------------------------------------------------------
//@ spec bParams(s Store) types.Params = has(s, types.ParamsKey) ? dec(types.Params, s[types.ParamsKey]) : zero(types.Params)
//@ spec curGroup(s Store) Int = has(s, types.CurrentGroupStoreKey) ? dec(types.CurrentGroup, s[types.CurrentGroupStoreKey]).GroupID : 0
//@ spec signFee(s Store, o OtherState) sdk.Coins = ext("Coins.MulInt", bParams(s).FeePerSigner, wrap64(types.tssGroup(o, curGroup(s)).Threshold))

//@ func (k Keeper) AddSigning
//@ trusted
//@ modifies Store_bandtss

// A request is charged iff the sender is not the authority and a current group exists; the charge is
// fee_per_signer x threshold, moved from the sender to the module account in one transfer, and only if every
// coin of it is within the caller's fee limit (a denom missing from the limit counts as 0).
//@ func (k Keeper) createSigningRequest
//@ modifies Store_bandtss, Bank, Other
// a bandtss signing is recorded - and reported to the caller as created - only when at least one tss signing really was
// created (for the current or for the incoming group); a failed optional request for the incoming group alone is not one
//@ assert before bandtssSigningID: currentGroupSigningID != 0 || incomingGroupSigningID != 0
//@ ensures err == nil && addrstr(sender) != k.authority && old(curGroup(Store_bandtss)) != 0 ==>
//@     (forall i :: 0 <= i && i < len(old(signFee(Store_bandtss, Other))) ==>
//@         old(signFee(Store_bandtss, Other))[i].Amount <= ext("Coins.AmountOf", feeLimit, old(signFee(Store_bandtss, Other))[i].Denom))
//@ ensures err == nil && addrstr(sender) != k.authority && old(curGroup(Store_bandtss)) != 0 ==>
//@     Bank == bankA2M(old(Bank), sender, types.ModuleName, old(signFee(Store_bandtss, Other)))
//@ ensures (addrstr(sender) == k.authority || old(curGroup(Store_bandtss)) == 0) ==> Bank == old(Bank)
//@ loop 0: invariant forall j :: 0 <= j && j < #i ==> totalFee[j].Amount <= ext("Coins.AmountOf", feeLimit, totalFee[j].Denom)

// C08 (route fee of a TSS tunnel): the fee QUOTED for one signing is exactly the fee createSigningRequest CHARGES
// - fee_per_signer x threshold of the current group, nothing when there is no current group. The tunnel module checks
// the fee payer's balance against the quote, records it as the packet's route fee and passes it as the fee limit.
//@ func (k Keeper) GetSigningFee
// (signFee converts the threshold through int64 as createSigningRequest does; the two agree for thresholds below 2^63,
// and a threshold is at most the group size, which MaxGroupSize bounds)
//@ ensures err == nil && curGroup(Store_bandtss) != 0 ==> result == ext("Coins.MulInt", bParams(Store_bandtss).FeePerSigner, types.tssGroup(Other, curGroup(Store_bandtss)).Threshold)
//@ ensures err == nil && curGroup(Store_bandtss) != 0 && types.tssGroup(Other, curGroup(Store_bandtss)).Threshold <= MaxInt64 ==> result == signFee(Store_bandtss, Other)
//@ ensures curGroup(Store_bandtss) == 0 ==> err == nil && len(result) == 0

// ---- C14: block reward for signing members ------------------------------------------------------------
// Only members of the current group that are active AND have a queued nonce (Tail > Head) are paid, each the
// same amount, from the distribution module account. CONSERVATION: on success, what left the distribution
// account towards members plus what went to the community pool is, denom by denom, exactly what this call moved
// into the distribution account - and the final subtraction never goes negative (the begin-blocker cannot panic
// on rounding). The coin theory below (amounts per denom; decimal amounts as integers scaled by 10^18) is assumed
// of the cosmos-sdk Coins/DecCoins operations; the same axioms are used by the oracle module's allocation.
//@ axiom coinNonNeg: forall c sdk.Coins, d Str :: { ext("Coins.AmountOf", c, d) } ext("Coins.AmountOf", c, d) >= 0
//@ axiom decNonNeg: forall c sdk.DecCoins, d Str :: { ext("DecCoins.AmountOf", c, d) } ext("DecCoins.AmountOf", c, d) >= 0
//@ axiom decFromCoins: forall c sdk.Coins, d Str :: { ext("DecCoins.AmountOf", ext("NewDecCoinsFromCoins", c), d) } ext("DecCoins.AmountOf", ext("NewDecCoinsFromCoins", c), d) == ext("Coins.AmountOf", c, d) * 1000000000000000000
//@ axiom decMulTrunc: forall c sdk.DecCoins, r Int, d Str :: { ext("DecCoins.AmountOf", ext("DecCoins.MulDecTruncate", c, r), d) } r >= 0 ==> ext("DecCoins.AmountOf", ext("DecCoins.MulDecTruncate", c, r), d) == (ext("DecCoins.AmountOf", c, d) * r) / 1000000000000000000
//@ axiom decTrunc: forall c sdk.DecCoins, d Str :: { ext("Coins.AmountOf", ext("DecCoins.TruncateDecimal", c), d) } ext("Coins.AmountOf", ext("DecCoins.TruncateDecimal", c), d) == ext("DecCoins.AmountOf", c, d) / 1000000000000000000
//@ axiom coinsMulInt: forall c sdk.Coins, n Int, d Str :: { ext("Coins.AmountOf", ext("Coins.MulInt", c, n), d) } n >= 0 ==> ext("Coins.AmountOf", ext("Coins.MulInt", c, n), d) == ext("Coins.AmountOf", c, d) * n
// Coins.Sub panics when any denom would go negative
//@ extern (coins github.com/cosmos/cosmos-sdk/types.Coins) Sub(coinsB) (result)
//@ requires forall e Str :: ext("Coins.AmountOf", coins, e) >= ext("Coins.AmountOf", coinsB, e)
//@ ensures result == ext("Coins.Sub", coins, coinsB)
//@ ensures forall d Str :: { ext("Coins.AmountOf", result, d) } ext("Coins.AmountOf", result, d) == ext("Coins.AmountOf", coins, d) - ext("Coins.AmountOf", coinsB, d)

//@ spec eligible(o OtherState, m tsstypes.Member) Bool = m.IsActive && types.tssDEQ(o, bech32addr(m.Address)).Tail > types.tssDEQ(o, bech32addr(m.Address)).Head
//@ func (k Keeper) AllocateTokens
//@ may_panic calls
//@ modifies Bank, Other, DistrReceived, DistrAllocated
// store invariant: the stored parameters passed validation (SetParams below is the only writer of the record)
//@ requires bParams(Store_bandtss).RewardPercentage <= 100
//@ ensures err == nil ==> (forall d Str :: DistrAllocated[d] - old(DistrAllocated)[d] == DistrReceived[d] - old(DistrReceived)[d])
//@ assert after tssRewardInt: tssRewardInt == ext("DecCoins.TruncateDecimal", ext("DecCoins.MulDecTruncate", totalFee, wrap64(bParams(Store_bandtss).RewardPercentage) * 10000000000000000))
// the transfer out of the fee collector never asks for more than the fee collector holds
//@ assert after tssRewardInt: forall d Str :: { ext("Coins.AmountOf", tssRewardInt, d) } ext("Coins.AmountOf", tssRewardInt, d) * 1000000000000000000 <= ext("DecCoins.AmountOf", totalFee, d)
//@ assert after rewardMultiplier: rewardMultiplier == 1000000000000000000 - communityTax && 0 <= rewardMultiplier && rewardMultiplier <= 1000000000000000000
//@ assert after powerFraction: len(validMembers) >= 1 && powerFraction == (1000000000000000000 * 1000000000000000000) / (len(validMembers) * 1000000000000000000) && powerFraction >= 0 && powerFraction * len(validMembers) <= 1000000000000000000
//@ assert after reward: reward == ext("DecCoins.MulDecTruncate", ext("DecCoins.MulDecTruncate", tssReward, rewardMultiplier), powerFraction)
//@ assert after reward: forall d Str :: { ext("DecCoins.AmountOf", reward, d) } ext("DecCoins.AmountOf", ext("DecCoins.MulDecTruncate", tssReward, rewardMultiplier), d) <= ext("DecCoins.AmountOf", tssReward, d)
//@ assert after reward: forall d Str :: { ext("DecCoins.AmountOf", reward, d) } ext("DecCoins.AmountOf", reward, d) * 1000000000000000000 <= ext("DecCoins.AmountOf", ext("DecCoins.MulDecTruncate", tssReward, rewardMultiplier), d) * powerFraction
//@ assert after reward: forall d Str :: { ext("DecCoins.AmountOf", reward, d) } ext("DecCoins.AmountOf", reward, d) * len(validMembers) <= ext("DecCoins.AmountOf", tssReward, d)
//@ assert after rewardInt: rewardInt == ext("DecCoins.TruncateDecimal", reward)
//@ assert after rewardInt: forall d Str :: { ext("Coins.AmountOf", rewardInt, d) } ext("Coins.AmountOf", rewardInt, d) * len(validMembers) <= ext("Coins.AmountOf", tssRewardInt, d)
//@ loop 0: invariant forall j :: 0 <= j && j < len(validMembers) ==> (exists i :: 0 <= i && i < #i && validMembers[j] == bech32addr(members[i].Address) && eligible(Other, members[i]))
//@ loop 0: invariant forall i :: 0 <= i && i < #i && eligible(Other, members[i]) ==> (exists j :: 0 <= j && j < len(validMembers) && validMembers[j] == bech32addr(members[i].Address))
//@ loop 0: invariant len(validMembers) <= #i
//@ loop 0: invariant DistrReceived == old(DistrReceived) && DistrAllocated == old(DistrAllocated)
//@ loop 1: invariant forall d Str :: DistrAllocated[d] == old(DistrAllocated)[d] + #i * ext("Coins.AmountOf", rewardInt, d) * 1000000000000000000
//@ loop 1: invariant forall d Str :: DistrReceived[d] == old(DistrReceived)[d] + ext("Coins.AmountOf", tssRewardInt, d) * 1000000000000000000

// ---- C11: users cannot obtain signatures over module-internal content kinds ----------------------------------
//@ func (k Keeper) CreateDirectSigningRequest
//@ trusted
//@ modifies Store_bandtss, Bank, Other
//@ func (k msgServer) RequestSignature
//@ modifies Store_bandtss, Bank, Other
//@ ensures err == nil ==> !tsstypes.contentInternal(absfn("types.MsgRequestSignature.GetContent", req))
//@ ensures tsstypes.contentInternal(absfn("types.MsgRequestSignature.GetContent", req)) ==> Store_bandtss == old(Store_bandtss) && Bank == old(Bank) && Other == old(Other)

// ---- C18: executing / dropping a transition ----------------------------------------------------------------
// removing a group's members removes member records of THAT group only
//@ func (k Keeper) DeleteMembers
//@ may_panic calls
//@ modifies Store_bandtss
//@ ensures forall q Bz :: !(iskey(types.MemberStoreKey, q) && keyarg(types.MemberStoreKey, q, 1) == groupID) ==> Store_bandtss[q] == old(Store_bandtss)[q]
//@ loop 0: invariant forall q Bz :: !(iskey(types.MemberStoreKey, q) && keyarg(types.MemberStoreKey, q, 1) == groupID) ==> Store_bandtss[q] == old(Store_bandtss)[q]

// C18: the exec-time window of a proposed transition: not before now + MinTransitionDuration, not after
// now + MaxTransitionDuration
//@ func (k Keeper) ValidateTransitionExecTime
//@ ensures err == nil <==> (!execTime.Before(ctx.BlockTime().Add(bParams(Store_bandtss).MinTransitionDuration)) && !execTime.After(ctx.BlockTime().Add(bParams(Store_bandtss).MaxTransitionDuration)))

// hand-over signing request (charged to the module account, goes through the tss keeper): assumed; it does not
// touch the transition record
//@ func (k Keeper) CreateTransitionSigning
//@ trusted
//@ modifies Store_bandtss, Bank, Other
//@ ensures Store_bandtss[types.GroupTransitionStoreKey] == old(Store_bandtss)[types.GroupTransitionStoreKey]

// C18: the transition state machine is driven by the tss callbacks. Completion of the incoming group's creation
// matters only for the transition that is waiting for exactly that group (CREATING_GROUP) and is not overdue; it
// records the new group's key and moves to WAITING_EXECUTION when there is no current group (nothing to hand
// over), else to WAITING_SIGN with the id of the hand-over signing just requested - or drops the transition when
// that request fails (in which case nothing of the attempt persists). Anything else: no effect.
//@ spec cgTrigger(s Store, g Int, now Int) Bool = bTransitionHas(s) && bTransitionAt(s).IncomingGroupID == g && bTransitionAt(s).Status == types.TRANSITION_STATUS_CREATING_GROUP && !(bTransitionAt(s).ExecTime < now)
//@ func (cb TSSCallback) OnGroupCreationCompleted
//@ may_panic calls
//@ modifies Store_bandtss, Bank, Other
//@ ensures !old(cgTrigger(Store_bandtss, groupID, ctx.BlockTime())) ==> Store_bandtss == old(Store_bandtss) && Bank == old(Bank) && Other == old(Other)
//@ ensures old(cgTrigger(Store_bandtss, groupID, ctx.BlockTime())) && !bTransitionHas(Store_bandtss) ==> old(bTransitionAt(Store_bandtss)).CurrentGroupID != 0 && Store_bandtss == remove(old(Store_bandtss), types.GroupTransitionStoreKey) && Bank == old(Bank) && Other == old(Other)
//@ ensures old(cgTrigger(Store_bandtss, groupID, ctx.BlockTime())) && bTransitionHas(Store_bandtss) ==>
//@     (let t0 = old(bTransitionAt(Store_bandtss)) in let t1 = bTransitionAt(Store_bandtss) in
//@      t1.IncomingGroupID == t0.IncomingGroupID && t1.CurrentGroupID == t0.CurrentGroupID && t1.ExecTime == t0.ExecTime && t1.IsForceTransition == t0.IsForceTransition
//@      && t1.IncomingGroupPubKey == types.tssGroup(old(Other), groupID).PubKey
//@      && (t0.CurrentGroupID == 0 ==> t1.Status == types.TRANSITION_STATUS_WAITING_EXECUTION && t1.SigningID == t0.SigningID)
//@      && (t0.CurrentGroupID != 0 ==> t1.Status == types.TRANSITION_STATUS_WAITING_SIGN))

// a failed or expired group creation drops exactly the transition that was waiting for that group
//@ func (cb TSSCallback) OnGroupCreationFailed
//@ modifies Store_bandtss
//@ ensures (old(bTransitionHas(Store_bandtss)) && old(bTransitionAt(Store_bandtss)).IncomingGroupID == groupID && old(bTransitionAt(Store_bandtss)).Status == types.TRANSITION_STATUS_CREATING_GROUP)
//@            ? Store_bandtss == remove(old(Store_bandtss), types.GroupTransitionStoreKey) : Store_bandtss == old(Store_bandtss)
//@ func (cb TSSCallback) OnGroupCreationExpired
//@ modifies Store_bandtss
//@ ensures (old(bTransitionHas(Store_bandtss)) && old(bTransitionAt(Store_bandtss)).IncomingGroupID == groupID && old(bTransitionAt(Store_bandtss)).Status == types.TRANSITION_STATUS_CREATING_GROUP)
//@            ? Store_bandtss == remove(old(Store_bandtss), types.GroupTransitionStoreKey) : Store_bandtss == old(Store_bandtss)

// ---- C02/C14: the only writer of the parameter record stores validated parameters only --------------------------
//@ func (k Keeper) SetParams
//@ modifies Store_bandtss
//@ ensures err == nil ==> Store_bandtss == store(old(Store_bandtss), types.ParamsKey, enc(p)) && p.RewardPercentage <= 100
//@ ensures err != nil ==> Store_bandtss == old(Store_bandtss)

// ---- frame of the store invariants: each record family is written only through these functions ------------------------
// (the invariants above are proved writer by writer - "a lock has its index entry", "a record is filed under its own id";
// a new function that Sets or Deletes such keys directly is outside that argument: ground obligation `writers/...`)
//@ writers MemberStoreKey: Keeper.DeleteMember, Keeper.SetMember
//@ writers SigningIDMappingStoreKey: Keeper.DeleteSigningIDMapping, Keeper.SetSigningIDMapping
//@ writers SigningInfoStoreKey: Keeper.SetSigning

// ---- read-only list getters (iterator + decode loops): results not modelled, no state written -------------------------
// (so that a caller which uses one of them stays analysable: the list is an arbitrary well-typed value)
//@ func (k Keeper) GetMembers
//@ trusted

// C11: the originator of a tunnel's signing request names the tunnel's own route: this chain, the tunnel id, the
// destination CHAIN and the destination CONTRACT, each in its own field (hash(originator) prefixes the signed message)
//@ func (k Keeper) CreateTunnelSigningRequest
//@ may_panic calls
//@ modifies *
//@ assert after originator: originator == tsstypes.TunnelOriginator{ctx.ChainID(), tunnelID, destinationChainID, destinationContractAddr}
