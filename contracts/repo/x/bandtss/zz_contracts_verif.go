//go:build verif

package bandtss

// Contracts for govc (see /verif/DESIGN.md). Comment-only file; compiled only under -tags verif.

// C18: at the end of a block a stored transition is acted on only at/after its execution time. If it is then
// WAITING_EXECUTION (the incoming group exists and the hand-over was signed, or the transition was forced) the
// incoming group becomes the current group (active from the scheduled time) and only member records of the OLD
// group are removed; in any other status the transition is dropped and nothing else changes. Either way the
// transition record is gone afterwards. Before the execution time, and with no transition, nothing changes.
//@ func EndBlocker
//@ may_panic calls
//@ modifies Store_bandtss, Other
//@ ensures err == nil
//@ ensures !(old(keeper.bTransitionHas(Store_bandtss)) && !old(keeper.bTransitionAt(Store_bandtss)).ExecTime.After(ctx.BlockTime())) ==> Store_bandtss == old(Store_bandtss)
//@ ensures (old(keeper.bTransitionHas(Store_bandtss)) && !old(keeper.bTransitionAt(Store_bandtss)).ExecTime.After(ctx.BlockTime())) ==> !keeper.bTransitionHas(Store_bandtss)
//@ ensures (old(keeper.bTransitionHas(Store_bandtss)) && !old(keeper.bTransitionAt(Store_bandtss)).ExecTime.After(ctx.BlockTime()) && old(keeper.bTransitionAt(Store_bandtss)).Status != types.TRANSITION_STATUS_WAITING_EXECUTION)
//@     ==> Store_bandtss == remove(old(Store_bandtss), types.GroupTransitionStoreKey)
//@ ensures (old(keeper.bTransitionHas(Store_bandtss)) && !old(keeper.bTransitionAt(Store_bandtss)).ExecTime.After(ctx.BlockTime()) && old(keeper.bTransitionAt(Store_bandtss)).Status == types.TRANSITION_STATUS_WAITING_EXECUTION)
//@     ==> (dec(types.CurrentGroup, Store_bandtss[types.CurrentGroupStoreKey]) == types.CurrentGroup{old(keeper.bTransitionAt(Store_bandtss)).IncomingGroupID, old(keeper.bTransitionAt(Store_bandtss)).ExecTime}
//@          && (forall q Bz :: q != types.GroupTransitionStoreKey && q != types.CurrentGroupStoreKey
//@                && !(iskey(types.MemberStoreKey, q) && keyarg(types.MemberStoreKey, q, 1) == old(keeper.bTransitionAt(Store_bandtss)).CurrentGroupID)
//@                ==> Store_bandtss[q] == old(Store_bandtss)[q]))

// C02 / C14: the bandtss begin-blocker is the reward allocation, nothing else
//@ func BeginBlocker
//@ may_panic calls
//@ modifies Bank, Other, DistrReceived, DistrAllocated
//@ requires keeper.bParams(Store_bandtss).RewardPercentage <= 100
//@ ensures err == nil ==> (forall d Str :: DistrAllocated[d] - old(DistrAllocated)[d] == DistrReceived[d] - old(DistrReceived)[d])

// ---- C02 / C14: the module's ABCI entry point returns exactly what its blocker returned --------------------------------
// (an error of the blocker must reach the SDK, which aborts the block; swallowing it would commit whatever the failed
// blocker had already written - e.g. a fee share taken from the fee collector but only partly paid out)
//@ func (am AppModule) BeginBlock
//@ may_panic calls
//@ modifies *
//@ forwards BeginBlocker
//@ func (am AppModule) EndBlock
//@ may_panic calls
//@ modifies *
//@ forwards EndBlocker

// C11: the content signed for a group transition is tag 61b9b741 || the incoming group's public key || the TRANSITION time
// (the order's own, as 8 big-endian bytes of its Unix seconds) - not the time of the request
//@ func NewSignatureOrderHandler$lit0
//@ may_panic calls
//@ modifies *
//@ ensures err == nil ==> typeis(content, "*types.GroupTransitionSignatureOrder")
//@ ensures err == nil ==> (let c = unbox(content, "*types.GroupTransitionSignatureOrder") in
//@        (exists parts [][]byte :: result == ext("bytes.Join", parts, bytes("")) && len(parts) == 3 && parts[1] == c.PubKey && parts[2] == u64be(wrapu64(c.TransitionTime.Unix()))
//@            && len(parts[0]) == 4 && parts[0][0] == 97 && parts[0][1] == 185 && parts[0][2] == 183 && parts[0][3] == 65))
