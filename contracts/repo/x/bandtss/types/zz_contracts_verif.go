//go:build verif

package types

// Contracts for govc (see /verif/DESIGN.md). Comment-only file; compiled only under -tags verif.

//@ keyfns MemberStoreKey SigningInfoStoreKey SigningIDMappingStoreKey

// ---- assumed contracts of the keeper interfaces bandtss depends on -------------------------------------
// bank: a successful transfer moves the bank state by exactly that transfer; a failed one changes nothing
// reward bookkeeping ghosts (per denom, in 10^-18 units; same ghosts as in the oracle module's contracts): what was
// moved INTO the distribution module account, and what was handed out of it (community pool, validator rewards,
// direct payouts from the distribution account)
//@ ghost DistrReceived map[string]int
//@ ghost DistrAllocated map[string]int
//@ func (k BankKeeper) SendCoinsFromModuleToAccount
//@ trusted
//@ modifies Bank, DistrAllocated
//@ ensures err == nil ==> Bank == bankM2A(old(Bank), senderModule, recipientAddr, amt)
//@ ensures err != nil ==> Bank == old(Bank)
//@ ensures (err != nil || senderModule != "distribution") ==> DistrAllocated == old(DistrAllocated)
//@ ensures err == nil && senderModule == "distribution" ==> (forall d Str :: DistrAllocated[d] == old(DistrAllocated)[d] + ext("Coins.AmountOf", amt, d) * 1000000000000000000)
//@ func (k BankKeeper) SendCoinsFromAccountToModule
//@ trusted
//@ modifies Bank
//@ ensures err == nil ==> Bank == bankA2M(old(Bank), senderAddr, recipientModule, amt)
//@ ensures err != nil ==> Bank == old(Bank)
//@ func (k BankKeeper) SendCoinsFromModuleToModule
//@ trusted
//@ modifies Bank, DistrReceived
//@ ensures err != nil ==> Bank == old(Bank)
//@ ensures (err != nil || recipientModule != "distribution") ==> DistrReceived == old(DistrReceived)
//@ ensures err == nil && recipientModule == "distribution" ==> (forall d Str :: DistrReceived[d] == old(DistrReceived)[d] + ext("Coins.AmountOf", amt, d) * 1000000000000000000)
//@ func (k BankKeeper) GetAllBalances
//@ trusted

// tss keeper as seen from bandtss (its state is part of Other)
//@ spec tssGroup(o OtherState, g Int) tsstypes.Group uninterpreted
//@ func (k TSSKeeper) GetGroup
//@ trusted
//@ ensures err == nil ==> result == tssGroup(Other, groupID)
//@ func (k TSSKeeper) MustGetGroup
//@ trusted
//@ may_panic calls
//@ ensures result == tssGroup(Other, groupID)
//@ spec tssSigning(o OtherState, id Int) tsstypes.Signing uninterpreted
//@ func (k TSSKeeper) MustGetSigning
//@ trusted
//@ ensures result == tssSigning(Other, signingID)
//@ func (k TSSKeeper) GetSigning
//@ trusted
//@ func (k TSSKeeper) GetSigningResult
//@ trusted
//@ func (k TSSKeeper) MustGetMembers
//@ trusted
//@ may_panic calls
//@ func (k TSSKeeper) GetMemberByAddress
//@ trusted
//@ spec tssDEQ(o OtherState, a Addr) tsstypes.DEQueue uninterpreted
//@ func (k TSSKeeper) GetDEQueue
//@ trusted
//@ ensures result == tssDEQ(Other, address)
//@ func (k TSSKeeper) RequestSigning
//@ trusted
//@ modifies Other
//@ func (k TSSKeeper) CreateGroup
//@ trusted
//@ modifies Other
// the tss keeper's activity flag of (group, address) - the flag the block reward reads - as an exact log on the opaque
// state of the other modules
//@ spec tssSetActive(o OtherState, g Int, a Addr, v Bool) OtherState uninterpreted
//@ func (k TSSKeeper) ActivateMember
//@ trusted
//@ modifies Other
//@ ensures err == nil ==> Other == tssSetActive(old(Other), groupID, address, true)
//@ ensures err != nil ==> Other == old(Other)
//@ func (k TSSKeeper) DeactivateMember
//@ trusted
//@ modifies Other
//@ ensures err == nil ==> Other == tssSetActive(old(Other), groupID, address, false)
//@ ensures err != nil ==> Other == old(Other)

//@ func (k AccountKeeper) GetModuleAccount
//@ trusted
//@ func (k AccountKeeper) GetModuleAddress
//@ trusted
// the community tax is a fraction in [0, 1] (distribution module parameter validation)
//@ func (k DistrKeeper) GetCommunityTax
//@ trusted
//@ ensures err == nil ==> 0 <= result && result <= 1000000000000000000
//@ func (k DistrKeeper) FundCommunityPool
//@ trusted
//@ modifies Bank, Other, DistrAllocated
//@ ensures err != nil ==> DistrAllocated == old(DistrAllocated)
//@ ensures err == nil ==> (forall d Str :: DistrAllocated[d] == old(DistrAllocated)[d] + ext("Coins.AmountOf", amount, d) * 1000000000000000000)

// protobuf Any unpacking of the requested content: abstract
//@ func (m *MsgRequestSignature) GetContent
//@ abstract

// ---- C02/C14: parameter validation accepts only reward percentages that are percentages ---------------------
// (a value above 100 makes the begin-blocker ask the fee collector for more than it holds: the transfer fails, the
// begin-blocker returns the error and the block cannot be finalized)
//@ extern (d time.Duration) Seconds() (result)
//@ func (p Params) Validate
//@ ensures err == nil ==> p.RewardPercentage <= 100
