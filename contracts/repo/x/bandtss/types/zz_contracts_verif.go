//go:build verif

package types

// Contracts for govc (see /verif/DESIGN.md). Comment-only file; compiled only under -tags verif.

//@ keyfns MemberStoreKey SigningInfoStoreKey SigningIDMappingStoreKey

// ---- assumed contracts of the keeper interfaces bandtss depends on -------------------------------------
// bank: a successful transfer moves the bank state by exactly that transfer; a failed one changes nothing
//@ func (k BankKeeper) SendCoinsFromModuleToAccount
//@ trusted
//@ modifies Bank
//@ ensures err == nil ==> Bank == bankM2A(old(Bank), senderModule, recipientAddr, amt)
//@ ensures err != nil ==> Bank == old(Bank)
//@ func (k BankKeeper) SendCoinsFromAccountToModule
//@ trusted
//@ modifies Bank
//@ ensures err == nil ==> Bank == bankA2M(old(Bank), senderAddr, recipientModule, amt)
//@ ensures err != nil ==> Bank == old(Bank)
//@ func (k BankKeeper) SendCoinsFromModuleToModule
//@ trusted
//@ modifies Bank
//@ ensures err != nil ==> Bank == old(Bank)
//@ func (k BankKeeper) GetAllBalances
//@ trusted

// tss keeper as seen from bandtss (its state is part of Other)
//@ spec tssGroup(o OtherState, g Int) tsstypes.Group uninterpreted
//@ func (k TSSKeeper) GetGroup
//@ trusted
//@ ensures err == nil ==> result == tssGroup(Other, groupID)
//@ func (k TSSKeeper) MustGetGroup
//@ trusted
//@ may_panic
//@ ensures result == tssGroup(Other, groupID)
//@ spec tssSigning(o OtherState, id Int) tsstypes.Signing uninterpreted
//@ func (k TSSKeeper) MustGetSigning
//@ trusted
//@ ensures result == tssSigning(Other, signingID)
//@ func (k TSSKeeper) GetSigning
//@ trusted
//@ func (k TSSKeeper) GetSigningResult
//@ trusted
//@ func (k TSSKeeper) MustGetMembers
//@ trusted
//@ may_panic
//@ func (k TSSKeeper) GetMemberByAddress
//@ trusted
//@ spec tssDEQ(o OtherState, a Addr) tsstypes.DEQueue uninterpreted
//@ func (k TSSKeeper) GetDEQueue
//@ trusted
//@ ensures result == tssDEQ(Other, address)
//@ func (k TSSKeeper) RequestSigning
//@ trusted
//@ modifies Other
//@ func (k TSSKeeper) CreateGroup
//@ trusted
//@ modifies Other
//@ func (k TSSKeeper) ActivateMember
//@ trusted
//@ modifies Other
//@ func (k TSSKeeper) DeactivateMember
//@ trusted
//@ modifies Other

//@ func (k AccountKeeper) GetModuleAccount
//@ trusted
//@ func (k AccountKeeper) GetModuleAddress
//@ trusted
//@ func (k DistrKeeper) GetCommunityTax
//@ trusted
//@ func (k DistrKeeper) FundCommunityPool
//@ trusted
//@ modifies Bank, Other

// protobuf Any unpacking of the requested content: abstract
//@ func (m *MsgRequestSignature) GetContent
//@ abstract
