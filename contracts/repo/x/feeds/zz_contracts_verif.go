//go:build verif

package feeds

// Contracts for govc (see /verif/DESIGN.md). Comment-only file; compiled only under -tags verif.

// C07 / C02: every CurrentFeedsUpdateInterval blocks the current-feed list is recomputed from the signal totals as
// they stand (so it follows the votes): afterwards it holds at most MaxCurrentFeeds feeds, each an existing non-zero
// signal total with exactly its stored power and the interval the formula gives; in all other blocks the list is
// left alone. (Totality of the end-blocker: see CalculatePrice; the modulus needs a positive update interval,
// which parameter validation guarantees.)
// C06: ... and in EVERY block, the blocks that recompute the list included, the prices of all current feeds are
// calculated (exactly once): on an update block the old prices have just been deleted, so skipping the calculation would
// leave every feed without a price.
//@ func EndBlocker
//@ modifies Store_feeds, Other, Count_CalculatePrices
//@ ensures Count_CalculatePrices == old(Count_CalculatePrices) + 1
//@ requires keeper.feedsParams(Store_feeds).CurrentFeedsUpdateInterval > 0
//@ requires ext("LegacyNewDecFromStr#1", keeper.feedsParams(Store_feeds).PriceQuorum) == nil
//@ ensures err == nil
//@ requires keeper.wfTotals(Store_feeds)
//@ requires keeper.feedsParams(Store_feeds).PowerStepThreshold > 0 && keeper.feedsParams(Store_feeds).MinInterval > 0 && keeper.feedsParams(Store_feeds).MaxInterval > 0
//@ ensures ctx.BlockHeight() % old(keeper.feedsParams(Store_feeds)).CurrentFeedsUpdateInterval != 0 ==> Store_feeds[types.CurrentFeedsStoreKey] == old(Store_feeds)[types.CurrentFeedsStoreKey]
//@ ensures ctx.BlockHeight() % old(keeper.feedsParams(Store_feeds)).CurrentFeedsUpdateInterval == 0 ==>
//@     (len(keeper.curFeeds(Store_feeds).Feeds) <= old(keeper.feedsParams(Store_feeds)).MaxCurrentFeeds
//@      && keeper.curFeeds(Store_feeds).LastUpdateTimestamp == ctx.BlockTime().Unix() && keeper.curFeeds(Store_feeds).LastUpdateBlock == ctx.BlockHeight()
//@      && (forall j :: 0 <= j && j < len(keeper.curFeeds(Store_feeds).Feeds) ==>
//@            keeper.stp(Store_feeds, keeper.curFeeds(Store_feeds).Feeds[j].SignalID) == keeper.curFeeds(Store_feeds).Feeds[j].Power && keeper.curFeeds(Store_feeds).Feeds[j].Power != 0
//@            && keeper.curFeeds(Store_feeds).Feeds[j].Interval == types.CalculateInterval(keeper.curFeeds(Store_feeds).Feeds[j].Power, old(keeper.feedsParams(Store_feeds)).PowerStepThreshold, old(keeper.feedsParams(Store_feeds)).MinInterval, old(keeper.feedsParams(Store_feeds)).MaxInterval)))

// ---- C02 / C14: the module's ABCI entry point returns exactly what its blocker returned --------------------------------
// (an error of the blocker must reach the SDK, which aborts the block; swallowing it would commit whatever the failed
// blocker had already written - e.g. a fee share taken from the fee collector but only partly paid out)
//@ func (am AppModule) EndBlock
//@ may_panic calls
//@ modifies *
//@ forwards EndBlocker
