//go:build verif

package types

// Contracts for govc (see /verif/DESIGN.md). Comment-only file; compiled only under -tags verif.

//@ spec psumS(s []Signal, lo int, hi int) Int = hi <= lo ? 0 : psumS(s, lo, hi-1) + s[hi-1].Power

//@ func SumPower
//@ ensures sum == psumS(signals, 0, len(signals))
//@ loop 0: invariant sum == psumS(signals, 0, #i)
