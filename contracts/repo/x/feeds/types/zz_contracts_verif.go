//go:build verif

package types

// Contracts for govc (see /verif/DESIGN.md). Comment-only file; compiled only under -tags verif.

//@ spec psumS(s []Signal, lo int, hi int) Int = hi <= lo ? 0 : psumS(s, lo, hi-1) + s[hi-1].Power

// C07: SumPower is the int64 (wrapping) sum; it equals the mathematical sum whenever that fits.
// The property-level clause "vote <= power as a mathematical sum" lives on LockVoterPower.
//@ func SumPower
//@ ensures sum == wrap64(psumS(signals, 0, len(signals)))
//@ loop 0: invariant sum == wrap64(psumS(signals, 0, #i))

// C07: interval formula.
//@ func CalculateInterval
//@ pure
//@ requires powerStep > 0 && minInterval > 0 && maxInterval > 0
//@ ensures  power <  powerStep ==> interval == 0
//@ ensures  power >= powerStep ==> interval == max(maxInterval / (power / powerStep), minInterval)
//@ ensures  power >= powerStep ==> interval >= minInterval && interval <= max(maxInterval, minInterval)

//@ func CalculateDeviation
//@ requires powerStep > 0 && minDeviationBP > 0 && maxDeviationBP > 0
//@ ensures  power <  powerStep ==> deviation == 0
//@ ensures  power >= powerStep ==> deviation == max(maxDeviationBP / (power / powerStep), minDeviationBP)

// C07: a valid signal has a non-empty bounded id and positive power.
//@ func (s *Signal) Validate
//@ ensures err == nil <==> (len(s.ID) > 0 && s.Power > 0 && len(s.ID) <= MaxSignalIDCharacters)

//@ keyfns VoteStoreKey SignalTotalPowerStoreKey ValidatorPriceListStoreKey PriceStoreKey SignalTotalPowerByPowerIndexKey
// layout facts (trusted, key-layout): PriceStoreKey(id) = PriceStoreKeyPrefix || id - a key below the price prefix is a
// price record key, and every price record key lies below the price prefix
//@ axiom pricePrefix: forall q Bz :: hasprefix(q, PriceStoreKeyPrefix) ==> iskey(PriceStoreKey, q)
//@ axiom priceBelowPrefix: forall id Str :: hasprefix(PriceStoreKey(id), PriceStoreKeyPrefix)

// ---- C06: powers by status, weighted median ----------------------------------------------------------
//@ spec stPower(s []ValidatorPriceInfo, st Int, lo int, hi int) Int = hi <= lo ? 0 : stPower(s, st, lo, hi-1) + (s[hi-1].SignalPriceStatus == st ? s[hi-1].Power : 0)
//@ spec allPower(s []ValidatorPriceInfo, lo int, hi int) Int = hi <= lo ? 0 : allPower(s, lo, hi-1) + s[hi-1].Power
//@ spec wsum(s []WeightedPrice, lo int, hi int) Int = hi <= lo ? 0 : wsum(s, lo, hi-1) + s[hi-1].Weight

// The four totals: all reporting power, and the power reporting AVAILABLE / UNAVAILABLE / UNSUPPORTED.
//@ func CalculatePricesPowers
//@ ensures result0 == allPower(validatorPriceInfos, 0, len(validatorPriceInfos))
//@ ensures result1 == stPower(validatorPriceInfos, SIGNAL_PRICE_STATUS_AVAILABLE, 0, len(validatorPriceInfos))
//@ ensures result2 == stPower(validatorPriceInfos, SIGNAL_PRICE_STATUS_UNAVAILABLE, 0, len(validatorPriceInfos))
//@ ensures result3 == stPower(validatorPriceInfos, SIGNAL_PRICE_STATUS_UNSUPPORTED, 0, len(validatorPriceInfos))
//@ ensures result1 != 0 ==> (exists k :: 0 <= k && k < len(validatorPriceInfos) && validatorPriceInfos[k].SignalPriceStatus == SIGNAL_PRICE_STATUS_AVAILABLE)
//@ loop 0: invariant availablePower != 0 ==> (exists k :: 0 <= k && k < #i && validatorPriceInfos[k].SignalPriceStatus == SIGNAL_PRICE_STATUS_AVAILABLE)
//@ loop 0: invariant totalPower == allPower(validatorPriceInfos, 0, #i)
//@ loop 0: invariant availablePower == stPower(validatorPriceInfos, SIGNAL_PRICE_STATUS_AVAILABLE, 0, #i)
//@ loop 0: invariant unavailablePower == stPower(validatorPriceInfos, SIGNAL_PRICE_STATUS_UNAVAILABLE, 0, #i)
//@ loop 0: invariant unsupportedPower == stPower(validatorPriceInfos, SIGNAL_PRICE_STATUS_UNSUPPORTED, 0, #i)

// The weighted median is the price of one of the entries; with non-negative weights it exists exactly
// when the list is non-empty.
//@ func MedianWeightedPrice
//@ ensures err == nil ==> (exists k :: 0 <= k && k < len(weightedPrices) && result == weightedPrices[k].Price)
//@ ensures (forall i :: 0 <= i && i < len(weightedPrices) ==> weightedPrices[i].Weight >= 0) ==> (err == nil <==> len(weightedPrices) > 0)
//@ loop 0: invariant totalWeight == wsum(weightedPrices, 0, #i)
//@ loop 0: invariant (forall i :: 0 <= i && i < len(weightedPrices) ==> weightedPrices[i].Weight >= 0) ==> totalWeight >= 0
//@ loop 1: invariant cumulativeWeight == wsum(weightedPrices, 0, #i)
//@ loop 1: invariant #i > 0 ==> 2 * cumulativeWeight < totalWeight

//@ spec secOK(idx Int, cur Int, tot Int) Bool = (idx == 0 ==> cur <= tot * 1) && (idx == 1 ==> cur <= tot * 3) && (idx == 2 ==> cur <= tot * 7) && (idx == 3 ==> cur <= tot * 15) && (idx == 4 ==> cur <= tot * 32)
// C06: only AVAILABLE entries take part: the section capacities are fractions of the total AVAILABLE power,
// and the published median is the price of one of the AVAILABLE entries (hence between their min and max).
//@ func MedianValidatorPriceInfos
//@ ensures err == nil ==> (exists k :: 0 <= k && k < len(validatorPriceInfos) && validatorPriceInfos[k].SignalPriceStatus == SIGNAL_PRICE_STATUS_AVAILABLE && result == validatorPriceInfos[k].Price)
//@ loop 0: invariant totalPower == stPower(validatorPriceInfos, SIGNAL_PRICE_STATUS_AVAILABLE, 0, #i)
//@ loop 0: invariant forall j :: 0 <= j && j < len(validPrices) ==> (exists k :: 0 <= k && k < #i && validatorPriceInfos[k].SignalPriceStatus == SIGNAL_PRICE_STATUS_AVAILABLE && validPrices[j] == validatorPriceInfos[k])
//@ loop 1: invariant 0 <= sectionIndex && len(weightedPrices) == #i
//@ loop 1: invariant forall j :: 0 <= j && j < #i ==> weightedPrices[j].Price == validPrices[j].Price
//@ loop 2: invariant 0 <= sectionIndex
// totality: with non-negative powers the median exists exactly when some entry is AVAILABLE (the weights
// handed to MedianWeightedPrice are non-negative because no section is ever over-filled)
//@ ensures (forall i :: 0 <= i && i < len(validatorPriceInfos) ==> validatorPriceInfos[i].Power >= 0)
//@           ==> (err == nil <==> (exists k :: 0 <= k && k < len(validatorPriceInfos) && validatorPriceInfos[k].SignalPriceStatus == SIGNAL_PRICE_STATUS_AVAILABLE))
//@ loop 0: invariant (forall i :: 0 <= i && i < len(validatorPriceInfos) ==> validatorPriceInfos[i].Power >= 0) ==> totalPower >= 0
//@ loop 0: invariant (len(validPrices) > 0) <==> (exists k :: 0 <= k && k < #i && validatorPriceInfos[k].SignalPriceStatus == SIGNAL_PRICE_STATUS_AVAILABLE)
//@ loop 1: invariant sectionIndex <= 5
//@ loop 1: invariant (forall i :: 0 <= i && i < len(validatorPriceInfos) ==> validatorPriceInfos[i].Power >= 0) ==> (currentPower >= 0 && secOK(sectionIndex, currentPower, totalPower))
//@ loop 1: invariant (forall i :: 0 <= i && i < len(validatorPriceInfos) ==> validatorPriceInfos[i].Power >= 0) ==> (forall j :: 0 <= j && j < #i ==> weightedPrices[j].Weight >= 0)
//@ loop 2: invariant sectionIndex <= 5
//@ loop 2: invariant (forall i :: 0 <= i && i < len(validatorPriceInfos) ==> validatorPriceInfos[i].Power >= 0) ==> (currentPower >= 0 && leftPower >= 0 && totalWeight >= 0 && secOK(sectionIndex, currentPower, totalPower))

// ---- assumed contract of the restake keeper as seen from feeds (concrete: restake/keeper.SetLockedPower,
// verified under C16): a lock is accepted only if it is a uint64 and does not exceed the account's total power.
//@ spec totalPowerOf(o OtherState, a Addr) Int uninterpreted
//@ func (k RestakeKeeper) SetLockedPower
//@ trusted
//@ modifies Other
//@ ensures err == nil ==> 0 <= amount && amount <= totalPowerOf(old(Other), addr)
//@ ensures err != nil ==> Other == old(Other)

// ---- keeper interfaces seen from feeds (assumed) -------------------------------------------------------------
//@ spec oracleStatus(o OtherState, v Addr) oracletypes.ValidatorStatus uninterpreted
//@ func (k OracleKeeper) GetValidatorStatus
//@ trusted
//@ ensures result == oracleStatus(Other, val)
//@ func (k OracleKeeper) MissReport
//@ trusted
//@ modifies Other
//@ func (k StakingKeeper) GetValidator
//@ trusted
// (the staking keeper's read-only queries fail only when its own store is unreadable: assumed not to)
//@ func (k StakingKeeper) IterateBondedValidatorsByPower
//@ trusted
//@ ensures err == nil
//@ func (k StakingKeeper) TotalBondedTokens
//@ trusted
//@ ensures err == nil

//@ func AbsInt64
//@ ensures x > MinInt64 ==> result == abs(x)
//@ ensures x == MinInt64 ==> result == x

// ---- C11: what goes into the signed feeds / tunnel payloads ---------------------------------------------
// signal id as bytes32: accepted iff it fits (32 bytes, the longest id Signal.Validate admits, included)
//@ func StringToBytes32
//@ pure
//@ ensures err == nil <==> len(str) <= 32
//@ ensures err == nil ==> len(result) == 32 && (forall j :: 0 <= j && j < 32 ==> result[j] == (j < 32 - len(str) ? 0 : bytes(str)[j - (32 - len(str))]))

// One relay entry per price, in order, carrying the on-chain price unchanged.
//@ func ToRelayPrices
//@ ensures err == nil ==> len(result) == len(prices)
//@ ensures err == nil ==> (forall j :: 0 <= j && j < len(prices) ==> result[j].Price == prices[j].Price && result[j].SignalID == absfn("StringToBytes32#0", prices[j].SignalID))
//@ ensures err == nil <==> (forall j :: 0 <= j && j < len(prices) ==> len(prices[j].SignalID) <= 32)
//@ loop 0: invariant len(relayPrices) == #i
//@ loop 0: invariant forall j :: 0 <= j && j < #i ==> relayPrices[j].Price == prices[j].Price && relayPrices[j].SignalID == absfn("StringToBytes32#0", prices[j].SignalID)
//@ loop 0: invariant forall j :: 0 <= j && j < #i ==> len(prices[j].SignalID) <= 32

// One relay entry per price, in order: an unavailable price (0) stays 0, every other price is replaced by ITS OWN tick.
//@ func ToRelayTickPrices
//@ ensures err == nil ==> len(result) == len(prices)
//@ ensures err == nil ==> (forall j :: 0 <= j && j < len(prices) ==> result[j].SignalID == absfn("StringToBytes32#0", prices[j].SignalID)
//@        && result[j].Price == (prices[j].Price == 0 ? 0 : absfn("tickmath.PriceToTick#0", prices[j].Price)))
//@ loop 0: invariant len(relayPrices) == #i
//@ loop 0: invariant forall j :: 0 <= j && j < #i ==> relayPrices[j].SignalID == absfn("StringToBytes32#0", prices[j].SignalID)
//@        && relayPrices[j].Price == (prices[j].Price == 0 ? 0 : absfn("tickmath.PriceToTick#0", prices[j].Price))

// ---- C06: the constants of the time-weighting --------------------------------------------------------------
// powers are scaled by 32; the sections end at 1/32, 3/32, 7/32, 15/32 and 32/32 of the total power (i.e. they span
// 1/32, 1/16, 1/8, 1/4 and the rest) and weigh 6, 4, 2, 1.1 and 1 (stored times ten)
//@ func getPowerScalingFactor
//@ ensures result == 32
//@ func getMultipliers
//@ ensures result[0] == 60 && result[1] == 40 && result[2] == 20 && result[3] == 11 && result[4] == 10
//@ func getSections
//@ ensures result[0] == 1 && result[1] == 3 && result[2] == 7 && result[3] == 15 && result[4] == 32
// entries are ordered newest first and, at equal time, highest power first: a sorts before b iff it is newer, or
// equally new and more powerful
//@ func MedianValidatorPriceInfos$lit0
//@ ensures (result < 0) <==> (priceA.Timestamp > priceB.Timestamp || (priceA.Timestamp == priceB.Timestamp && priceA.Power > priceB.Power))
//@ ensures (result == 0) <==> (priceA.Timestamp == priceB.Timestamp && priceA.Power == priceB.Power)

// ---- C02: what the feeds end-blocker relies on about the stored parameters is what validation guarantees ------------
//@ func (p Params) Validate
//@ ensures err == nil ==> p.CurrentFeedsUpdateInterval > 0 && p.PowerStepThreshold > 0 && p.MinInterval > 0 && p.MaxInterval > 0
//@ ensures err == nil ==> ext("LegacyNewDecFromStr#1", p.PriceQuorum) == nil

// C06: the order the weighted median scans in: by price ascending over the FULL uint64 range (a huge outlier is the
// largest price, it must not wrap around to the front), ties by weight ascending
//@ func MedianWeightedPrice$lit0
//@ ensures result < 0 <==> (a.Price < b.Price || (a.Price == b.Price && a.Weight < b.Weight))
//@ ensures result > 0 <==> (a.Price > b.Price || (a.Price == b.Price && a.Weight > b.Weight))
