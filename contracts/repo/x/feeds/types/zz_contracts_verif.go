//go:build verif

package types

// Contracts for govc (see /verif/DESIGN.md). Comment-only file; compiled only under -tags verif.

//@ spec psumS(s []Signal, lo int, hi int) Int = hi <= lo ? 0 : psumS(s, lo, hi-1) + s[hi-1].Power

// C07: SumPower is the int64 (wrapping) sum; it equals the mathematical sum whenever that fits.
// The property-level clause "vote <= power as a mathematical sum" lives on LockVoterPower.
//@ func SumPower
//@ ensures sum == wrap64(psumS(signals, 0, len(signals)))
//@ loop 0: invariant sum == wrap64(psumS(signals, 0, #i))

// C07: interval formula.
//@ func CalculateInterval
//@ requires powerStep > 0 && minInterval > 0 && maxInterval > 0
//@ ensures  power <  powerStep ==> interval == 0
//@ ensures  power >= powerStep ==> interval == max(maxInterval / (power / powerStep), minInterval)
//@ ensures  power >= powerStep ==> interval >= minInterval && interval <= max(maxInterval, minInterval)

//@ func CalculateDeviation
//@ requires powerStep > 0 && minDeviationBP > 0 && maxDeviationBP > 0
//@ ensures  power <  powerStep ==> deviation == 0
//@ ensures  power >= powerStep ==> deviation == max(maxDeviationBP / (power / powerStep), minDeviationBP)

// C07: a valid signal has a non-empty bounded id and positive power.
//@ func (s *Signal) Validate
//@ ensures err == nil <==> (len(s.ID) > 0 && s.Power > 0 && len(s.ID) <= MaxSignalIDCharacters)

//@ keyfns VoteStoreKey SignalTotalPowerStoreKey ValidatorPriceListStoreKey PriceStoreKey SignalTotalPowerByPowerIndexKey
