//go:build verif

package keeper

// Contracts for govc (see /verif/DESIGN.md). Comment-only file; compiled only under -tags verif.

// C15: a miss is declared only when both the time limit and the block limit are exceeded.
// The range preconditions are the explicit form of "block times / heights far below 2^62".
//@ spec missRanges(feed types.Feed, lut Int, lub Int, vp types.ValidatorPrice, vi types.ValidatorInfo, gp Int) Bool =
//@     0 <= lut && lut <= T61 && 0 <= lub && lub <= T61 && 0 < gp && gp <= T61 && 0 < feed.Interval && feed.Interval <= T61
//@     && 0 - T61 <= vi.Status.Since.Unix() && vi.Status.Since.Unix() <= T61
//@     && 0 <= vp.Timestamp && vp.Timestamp <= T61 && 0 <= vp.BlockHeight && vp.BlockHeight <= T61
//@ func CheckMissReport
//@ ensures  missRanges(feed, lastUpdateTimestamp, lastUpdateBlock, valPrice, valInfo, gracePeriod) ==>
//@         (let has   = valPrice.SignalPriceStatus != types.SIGNAL_PRICE_STATUS_UNSPECIFIED in
//@          let lastT = max(max(lastUpdateTimestamp + gracePeriod, valInfo.Status.Since.Unix() + gracePeriod),
//@                           has ? valPrice.Timestamp + feed.Interval : 0) in
//@          let lastB = max(lastUpdateBlock + gracePeriod / 3, has ? valPrice.BlockHeight + feed.Interval / 3 : 0) in
//@          result == (lastT < blockTime.Unix() && lastB < blockHeight))
// corollaries stated directly (each follows from the clause above; kept as separate obligations so
// that a change is reported against the sentence of the property it breaks)
//@ ensures  missRanges(feed, lastUpdateTimestamp, lastUpdateBlock, valPrice, valInfo, gracePeriod) && blockTime.Unix() <= lastUpdateTimestamp + gracePeriod ==> !result
//@ ensures  missRanges(feed, lastUpdateTimestamp, lastUpdateBlock, valPrice, valInfo, gracePeriod) && blockTime.Unix() <= valInfo.Status.Since.Unix() + gracePeriod ==> !result
//@ ensures  missRanges(feed, lastUpdateTimestamp, lastUpdateBlock, valPrice, valInfo, gracePeriod) && valPrice.SignalPriceStatus != types.SIGNAL_PRICE_STATUS_UNSPECIFIED && blockTime.Unix() <= valPrice.Timestamp + feed.Interval ==> !result
//@ ensures  missRanges(feed, lastUpdateTimestamp, lastUpdateBlock, valPrice, valInfo, gracePeriod) && blockHeight <= lastUpdateBlock + gracePeriod / 3 ==> !result

//@ func checkHavePrice
//@ ensures (0 <= feed.Interval && feed.Interval <= T61 && 0 - T61 <= blockTime.Unix() && blockTime.Unix() <= T61) ==> result == (valPrice.SignalPriceStatus != types.SIGNAL_PRICE_STATUS_UNSPECIFIED
//@                    && valPrice.Timestamp >= blockTime.Unix() - feed.Interval)

// ---- C07: signal totals and their by-power index move in lock-step ------------------------------------
//@ spec stpHas(s Store, id Str) Bool = has(s, types.SignalTotalPowerStoreKey(id))
//@ spec stpAt(s Store, id Str) types.Signal = dec(types.Signal, s[types.SignalTotalPowerStoreKey(id)])
//@ spec dropIdx(s Store, id Str) Store = stpHas(s, id) ? remove(s, types.SignalTotalPowerByPowerIndexKey(stpAt(s, id).ID, stpAt(s, id).Power)) : s

// Setting a signal's total first removes the index entry of the previous total (if any); power 0 deletes
// the total, any other power stores the total and exactly one index entry (power, id) -> id.
// The postcondition gives the whole new store, so no other key may change.
//@ func (k Keeper) SetSignalTotalPower
//@ modifies Store_feeds
//@ ensures signal.Power == 0 ==> Store_feeds == remove(old(dropIdx(Store_feeds, signal.ID)), types.SignalTotalPowerStoreKey(signal.ID))
//@ ensures signal.Power != 0 ==> Store_feeds == store(store(old(dropIdx(Store_feeds, signal.ID)), types.SignalTotalPowerStoreKey(signal.ID), enc(signal)),
//@                                               types.SignalTotalPowerByPowerIndexKey(signal.ID, signal.Power), bytes(signal.ID))

// ---- C06: the status rule ----------------------------------------------------------------------------
// With T, A, U the total / AVAILABLE / UNSUPPORTED reporting power: UNKNOWN_SIGNAL_ID iff 2U > T; otherwise
// NOT_READY when T is below the quorum, fewer than half is AVAILABLE or no power is AVAILABLE at all; otherwise AVAILABLE with the price of
// one of the AVAILABLE entries. The function is total (block execution must not fail): err == nil.
//@ func (k Keeper) CalculatePrice
//@ replay zero-receiver
//@ requires forall i :: 0 <= i && i < len(validatorPriceInfos) ==> validatorPriceInfos[i].Power >= 0
//@ ensures err == nil
//@ ensures err == nil ==> result.SignalID == feed.SignalID && result.Timestamp == ctx.BlockTime().Unix()
//@ ensures err == nil && 2 * types.stPower(validatorPriceInfos, types.SIGNAL_PRICE_STATUS_UNSUPPORTED, 0, len(validatorPriceInfos)) > types.allPower(validatorPriceInfos, 0, len(validatorPriceInfos))
//@           ==> result.Status == types.PRICE_STATUS_UNKNOWN_SIGNAL_ID && result.Price == 0
//@ ensures err == nil && !(2 * types.stPower(validatorPriceInfos, types.SIGNAL_PRICE_STATUS_UNSUPPORTED, 0, len(validatorPriceInfos)) > types.allPower(validatorPriceInfos, 0, len(validatorPriceInfos)))
//@           && (types.allPower(validatorPriceInfos, 0, len(validatorPriceInfos)) < powerQuorum
//@               || 2 * types.stPower(validatorPriceInfos, types.SIGNAL_PRICE_STATUS_AVAILABLE, 0, len(validatorPriceInfos)) < types.allPower(validatorPriceInfos, 0, len(validatorPriceInfos)))
//@           ==> result.Status == types.PRICE_STATUS_NOT_READY && result.Price == 0
//@ ensures err == nil && result.Status == types.PRICE_STATUS_AVAILABLE
//@           ==> (exists j :: 0 <= j && j < len(validatorPriceInfos) && validatorPriceInfos[j].SignalPriceStatus == types.SIGNAL_PRICE_STATUS_AVAILABLE && result.Price == validatorPriceInfos[j].Price)
//@ ensures err == nil && result.Status == types.PRICE_STATUS_AVAILABLE
//@           ==> types.allPower(validatorPriceInfos, 0, len(validatorPriceInfos)) >= powerQuorum
//@               && 2 * types.stPower(validatorPriceInfos, types.SIGNAL_PRICE_STATUS_AVAILABLE, 0, len(validatorPriceInfos)) >= types.allPower(validatorPriceInfos, 0, len(validatorPriceInfos))
//@ ensures err == nil && !(2 * types.stPower(validatorPriceInfos, types.SIGNAL_PRICE_STATUS_UNSUPPORTED, 0, len(validatorPriceInfos)) > types.allPower(validatorPriceInfos, 0, len(validatorPriceInfos)))
//@           && types.allPower(validatorPriceInfos, 0, len(validatorPriceInfos)) >= powerQuorum
//@           && 2 * types.stPower(validatorPriceInfos, types.SIGNAL_PRICE_STATUS_AVAILABLE, 0, len(validatorPriceInfos)) >= types.allPower(validatorPriceInfos, 0, len(validatorPriceInfos))
//@           && types.stPower(validatorPriceInfos, types.SIGNAL_PRICE_STATUS_AVAILABLE, 0, len(validatorPriceInfos)) > 0
//@           ==> result.Status == types.PRICE_STATUS_AVAILABLE

// ---- C07: a vote is accepted only if the (mathematical) sum of its signal powers does not exceed the
// voter's total power; that sum is what gets locked.
//@ func (k Keeper) LockVoterPower
//@ modifies Other
//@ ensures err == nil ==> types.psumS(signals, 0, len(signals)) <= types.totalPowerOf(old(Other), voter)
//@ ensures err != nil ==> Other == old(Other)
//@ loop 0: invariant sumPower == types.psumS(signals, 0, #i)

// ---- C02: ranked signal list never indexes past the configured maximum ----------------------------------
// (end-block code: an index panic here would halt the chain)
//@ func (k Keeper) GetSignalTotalPowersByPower
//@ replay zero-receiver:makeslice
//@ ensures len(result) <= limit
// every returned entry is the stored, non-zero total of a signal id found in the by-power index
//@ ensures forall j :: 0 <= j && j < len(result) ==> result[j].Power != 0 && (exists q Bz :: has(Store_feeds, q) && hasprefix(q, types.SignalTotalPowerByPowerIndexKeyPrefix) && stpHas(Store_feeds, str(Store_feeds[q])) && result[j] == stpAt(Store_feeds, str(Store_feeds[q])))
//@ loop 0: invariant len(signalTotalPowers) <= limit && len(signalTotalPowers) <= itpos(iterator)
//@ loop 0: invariant 0 <= itpos(iterator) && itpos(iterator) <= itlen(iterator)
//@ loop 0: invariant forall j :: 0 <= j && j < len(signalTotalPowers) ==> signalTotalPowers[j].Power != 0 && (exists p :: 0 <= p && p < itpos(iterator) && stpHas(Store_feeds, str(itval(iterator, p))) && signalTotalPowers[j] == stpAt(Store_feeds, str(itval(iterator, p))))

// C07: the current feeds are computed from the ranked signal totals: at most MaxCurrentFeeds of them, each an existing
// non-zero total with exactly its stored power, with the interval given by the interval formula, and only those whose
// power reaches the power step (interval > 0).
//@ func (k Keeper) CalculateNewCurrentFeeds
//@ requires wfTotals(Store_feeds)
//@ requires feedsParams(Store_feeds).PowerStepThreshold > 0 && feedsParams(Store_feeds).MinInterval > 0 && feedsParams(Store_feeds).MaxInterval > 0
//@ ensures len(result) <= feedsParams(Store_feeds).MaxCurrentFeeds
//@ ensures forall j :: 0 <= j && j < len(result) ==> result[j].Power != 0 && stpHas(Store_feeds, result[j].SignalID) && stp(Store_feeds, result[j].SignalID) == result[j].Power
//@ ensures forall j :: 0 <= j && j < len(result) ==> result[j].Interval > 0 && result[j].Interval == types.CalculateInterval(result[j].Power, feedsParams(Store_feeds).PowerStepThreshold, feedsParams(Store_feeds).MinInterval, feedsParams(Store_feeds).MaxInterval)
//@ loop 0: invariant len(feeds) <= #i
//@ loop 0: invariant forall j :: 0 <= j && j < len(feeds) ==> feeds[j].Power != 0 && stpHas(Store_feeds, feeds[j].SignalID) && stp(Store_feeds, feeds[j].SignalID) == feeds[j].Power
//@ loop 0: invariant forall j :: 0 <= j && j < len(feeds) ==> feeds[j].Interval > 0 && feeds[j].Interval == types.CalculateInterval(feeds[j].Power, params.PowerStepThreshold, params.MinInterval, params.MaxInterval)

// ---- C15 / C20: price submission -----------------------------------------------------------------------------
//@ spec curFeeds(s Store) types.CurrentFeeds = has(s, types.CurrentFeedsStoreKey) ? dec(types.CurrentFeeds, s[types.CurrentFeedsStoreKey]) : zero(types.CurrentFeeds)
//@ spec feedsParams(s Store) types.Params = has(s, types.ParamsKey) ? dec(types.Params, s[types.ParamsKey]) : zero(types.Params)
//@ spec vplAt(s Store, v Addr) types.ValidatorPriceList = dec(types.ValidatorPriceList, s[types.ValidatorPriceListStoreKey(v)])
//@ spec inFeeds(fs []types.Feed, id Str) Bool = exists f :: 0 <= f && f < len(fs) && fs[f].SignalID == id
//@ spec inPrev(ps []types.ValidatorPrice, e types.ValidatorPrice) Bool = exists p :: 0 <= p && p < len(ps) && ps[p] == e

// Accepted only from a bonded, oracle-active validator, with a message timestamp within the allowed
// discrepancy of the block time, and only for signals that are current feeds. Every price taken from the
// message is stored with the BLOCK time and height (the message's own timestamp is never stored), every other
// stored entry is an empty slot or one of the validator's previous prices; a rejection changes nothing.
//@ func (k msgServer) SubmitSignalPrices
//@ modifies Store_feeds
//@ requires forall a, b :: 0 <= a && a < b && b < len(curFeeds(Store_feeds).Feeds) ==> curFeeds(Store_feeds).Feeds[a].SignalID != curFeeds(Store_feeds).Feeds[b].SignalID
//@ ensures err != nil ==> Store_feeds == old(Store_feeds)
//@ ensures err == nil ==> bech32ok(msg.Validator) && types.oracleStatus(Other, bech32addr(msg.Validator)).IsActive
//@ ensures err == nil ==> (let d = wrap64(msg.Timestamp - sdkctx(goCtx).BlockTime().Unix()) in (d == MinInt64 ? d : abs(d)) <= old(feedsParams(Store_feeds)).AllowableBlockTimeDiscrepancy)
//@ ensures err == nil ==> (forall i :: 0 <= i && i < len(msg.SignalPrices) ==> inFeeds(old(curFeeds(Store_feeds)).Feeds, msg.SignalPrices[i].SignalID))
//@ ensures err == nil ==> (forall q Bz :: q != types.ValidatorPriceListStoreKey(bech32addr(msg.Validator)) ==> Store_feeds[q] == old(Store_feeds)[q])
//@ ensures err == nil ==> (forall j :: 0 <= j && j < len(vplAt(Store_feeds, bech32addr(msg.Validator)).ValidatorPrices) ==>
//@     (let e = vplAt(Store_feeds, bech32addr(msg.Validator)).ValidatorPrices[j] in
//@        e == zero(types.ValidatorPrice)
//@        || (old(has(Store_feeds, types.ValidatorPriceListStoreKey(bech32addr(msg.Validator)))) && inPrev(old(vplAt(Store_feeds, bech32addr(msg.Validator))).ValidatorPrices, e))
//@        || (e.Timestamp == sdkctx(goCtx).BlockTime().Unix() && e.BlockHeight == sdkctx(goCtx).BlockHeight())))
// C06 / C15: the stored list has one slot per current feed, and a non-empty slot j holds a price FOR FEED j's SIGNAL - a
// carried-over price sits in the slot of its own signal, wherever that signal is in the list now (CalculatePrices and
// CheckMissReport read the list by signal: a price in the wrong slot shadows or loses another feed's price)
//@ ensures err == nil ==> len(vplAt(Store_feeds, bech32addr(msg.Validator)).ValidatorPrices) == len(old(curFeeds(Store_feeds)).Feeds)
//@ ensures err == nil ==> (forall j :: 0 <= j && j < len(vplAt(Store_feeds, bech32addr(msg.Validator)).ValidatorPrices) ==>
//@     (let e = vplAt(Store_feeds, bech32addr(msg.Validator)).ValidatorPrices[j] in e == zero(types.ValidatorPrice) || e.SignalID == old(curFeeds(Store_feeds)).Feeds[j].SignalID))
//@ loop 1: invariant forall j :: 0 <= j && j < len(newValidatorPrices) ==> (newValidatorPrices[j] == zero(types.ValidatorPrice) || newValidatorPrices[j].SignalID == currentFeeds.Feeds[j].SignalID)
//@ loop 2: invariant forall j :: 0 <= j && j < len(newValidatorPrices) ==> (newValidatorPrices[j] == zero(types.ValidatorPrice) || newValidatorPrices[j].SignalID == currentFeeds.Feeds[j].SignalID)
//@ loop 0: invariant forall a, b :: 0 <= a && a < b && b < len(currentFeeds.Feeds) ==> currentFeeds.Feeds[a].SignalID != currentFeeds.Feeds[b].SignalID
//@ loop 0: invariant forall j :: 0 <= j && j < #i ==> has(currentFeedsMap, currentFeeds.Feeds[j].SignalID)
//@ loop 0: invariant len(currentFeedsMap) == #i
//@ loop 0: invariant forall key Str :: has(currentFeedsMap, key) ==> (0 <= currentFeedsMap[key] && currentFeedsMap[key] < #i && currentFeeds.Feeds[currentFeedsMap[key]].SignalID == key)
//@ loop 1: invariant len(newValidatorPrices) == len(currentFeeds.Feeds)
//@ loop 1: invariant forall j :: 0 <= j && j < len(newValidatorPrices) ==> (newValidatorPrices[j] == zero(types.ValidatorPrice) || inPrev(prevValPrices.ValidatorPrices, newValidatorPrices[j]))
//@ loop 2: invariant len(newValidatorPrices) == len(currentFeeds.Feeds)
//@ loop 2: invariant forall i :: 0 <= i && i < #i ==> inFeeds(currentFeeds.Feeds, msg.SignalPrices[i].SignalID)
//@ loop 2: invariant forall j :: 0 <= j && j < len(newValidatorPrices) ==> (newValidatorPrices[j] == zero(types.ValidatorPrice)
//@        || (err == nil && inPrev(prevValPrices.ValidatorPrices, newValidatorPrices[j]))
//@        || (newValidatorPrices[j].Timestamp == blockTime && newValidatorPrices[j].BlockHeight == blockHeight))

// assumption (economic bound): a validator's bonded tokens fit in a uint64 (total supply < 2^64)
//@ axiom tokensFitFeeds: forall v stakingtypes.ValidatorI :: 0 <= ext("ValidatorI.GetTokens", v) && ext("ValidatorI.GetTokens", v) <= MaxUint64

// ---- C06: which validators' prices reach the aggregation ------------------------------------------------------
// the callback collects only oracle-active validators
//@ func (k Keeper) CalculatePrices$lit0
//@ maintains forall j :: 0 <= j && j < len(validatorsByPower) ==> validatorsByPower[j].Status.IsActive

// After the collection loop every collected (bonded, oracle-active) validator that has a stored price list is
// represented in the price table: no validator's fresh prices are dropped because another validator has none.
//@ spec vplOf(s Store, a Addr) []types.ValidatorPrice = dec(types.ValidatorPriceList, s[types.ValidatorPriceListStoreKey(a)]).ValidatorPrices
// call history: the price calculation runs once in EVERY end-block, update blocks included (see feeds.EndBlocker)
//@ ghost Count_CalculatePrices Int
//@ func (k Keeper) CalculatePrices
//@ counts *
// C15: the window in which a freshly (re)activated validator, or any validator after a feed-list update, is not yet
// expected to have a price is the GRACE PERIOD parameter (not the cooldown, which limits how often prices may be sent)
//@ assert after gracePeriod: gracePeriod == feedsParams(Store_feeds).GracePeriod
//@ modifies Store_feeds, Other
// C02: price aggregation in the end-blocker never fails (the stored quorum string parses: validated parameters)
//@ requires ext("LegacyNewDecFromStr#1", feedsParams(Store_feeds).PriceQuorum) == nil
//@ ensures err == nil
//@ assert before params: forall j :: 0 <= j && j < len(validatorsByPower) ==> (has(Store_feeds, types.ValidatorPriceListStoreKey(validatorsByPower[j].Address)) ==> has(allValidatorPrices, addrstr(validatorsByPower[j].Address)))
//@ loop 0: invariant Store_feeds == old(Store_feeds)
//@ loop 0: invariant forall j :: 0 <= j && j < #i ==> (has(Store_feeds, types.ValidatorPriceListStoreKey(validatorsByPower[j].Address)) ==> has(allValidatorPrices, addrstr(validatorsByPower[j].Address)))
//@ loop 3: invariant forall j :: 0 <= j && j < len(validatorPriceInfos) ==> validatorPriceInfos[j].Power >= 0
// C15: every price entry a validator has on record with ANY reported status (available, unavailable, unsupported - all
// but "unspecified") is in its row of the price table, so a validator that reported a non-available status in time is
// not mistaken for one that reported nothing
//@ loop 1: invariant forall j :: 0 <= j && j < #i ==> (valPricesList.ValidatorPrices[j].SignalPriceStatus != types.SIGNAL_PRICE_STATUS_UNSPECIFIED ==> has(valPricesMap, valPricesList.ValidatorPrices[j].SignalID))
//@ loop 0: invariant forall j :: 0 <= j && j < #i ==> (has(Store_feeds, types.ValidatorPriceListStoreKey(validatorsByPower[j].Address)) ==>
//@        (forall e :: 0 <= e && e < len(vplOf(Store_feeds, validatorsByPower[j].Address)) ==>
//@            (vplOf(Store_feeds, validatorsByPower[j].Address)[e].SignalPriceStatus != types.SIGNAL_PRICE_STATUS_UNSPECIFIED
//@             ==> has(allValidatorPrices[addrstr(validatorsByPower[j].Address)], vplOf(Store_feeds, validatorsByPower[j].Address)[e].SignalID))))
//@ assert before params: forall j :: 0 <= j && j < len(validatorsByPower) ==> (has(Store_feeds, types.ValidatorPriceListStoreKey(validatorsByPower[j].Address)) ==>
//@        (forall e :: 0 <= e && e < len(vplOf(Store_feeds, validatorsByPower[j].Address)) ==>
//@            (vplOf(Store_feeds, validatorsByPower[j].Address)[e].SignalPriceStatus != types.SIGNAL_PRICE_STATUS_UNSPECIFIED
//@             ==> has(allValidatorPrices[addrstr(validatorsByPower[j].Address)], vplOf(Store_feeds, validatorsByPower[j].Address)[e].SignalID))))
// price aggregation writes price records only: votes, totals, the current-feed list, validator price lists stay
//@ ensures forall q Bz :: !iskey(types.PriceStoreKey, q) ==> Store_feeds[q] == old(Store_feeds)[q]
//@ loop 2: invariant forall q Bz :: !iskey(types.PriceStoreKey, q) ==> Store_feeds[q] == old(Store_feeds)[q]
//@ loop 3: invariant forall q Bz :: !iskey(types.PriceStoreKey, q) ==> Store_feeds[q] == old(Store_feeds)[q]

// ---- C07: totals follow votes --------------------------------------------------------------------------------
// power a signal list gives to one signal id (signal ids in a vote are pairwise different, MsgVote.ValidateBasic)
//@ spec vpow(sigs []types.Signal, id Str, n Int) Int = n <= 0 ? 0 : vpow(sigs, id, n - 1) + (sigs[n-1].ID == id ? sigs[n-1].Power : 0)
//@ spec voteOf(s Store, v Addr) []types.Signal = has(s, types.VoteStoreKey(v)) ? dec(types.Vote, s[types.VoteStoreKey(v)]).Signals : zero("[]types.Signal")
//@ spec diffOf(m map[string]int64, id Str) Int = has(m, id) ? m[id] : 0
//@ spec stp(s Store, id Str) Int = stpHas(s, id) ? stpAt(s, id).Power : 0
// range assumption: per-signal sums of a voter's old and new powers stay far below 2^63 (powers are bounded by the
// voter's bonded tokens)
//@ spec smallPowers(sigs []types.Signal) Bool = (forall j :: 0 <= j && j < len(sigs) ==> 0 <= sigs[j].Power) && (forall id Str, n Int :: 0 <= n && n <= len(sigs) ==> 0 <= vpow(sigs, id, n) && vpow(sigs, id, n) <= T61)

// The voter's stored vote is replaced by the new signals, and the returned map gives, for every signal id, the
// new power minus the previous power of this voter (ids absent from the map: no change).
//@ func (k Keeper) UpdateVoteAndReturnPowerDiff
//@ modifies Store_feeds
//@ requires smallPowers(signals) && smallPowers(voteOf(Store_feeds, voter))
//@ ensures Store_feeds == store(remove(old(Store_feeds), types.VoteStoreKey(voter)), types.VoteStoreKey(voter), enc(types.Vote{addrstr(voter), signals}))
//@ ensures forall id Str :: diffOf(result, id) == vpow(signals, id, len(signals)) - vpow(old(voteOf(Store_feeds, voter)), id, len(old(voteOf(Store_feeds, voter))))
//@ loop 0: invariant forall id Str :: diffOf(signalIDToPowerDiff, id) == 0 - vpow(prevSignals, id, #i)
//@ loop 1: invariant forall id Str :: diffOf(signalIDToPowerDiff, id) == vpow(signals, id, #i) - vpow(prevSignals, id, len(prevSignals))

// store invariant: a signal total is filed under its own id, non-negative and far below 2^63
//@ spec wfTotals(s Store) Bool = forall id Str :: stpHas(s, id) ==> (stpAt(s, id).ID == id && 0 <= stpAt(s, id).Power && stpAt(s, id).Power <= T61)

// C07: a vote is accepted only with at most MaxCurrentFeeds signals and only if the sum of its powers is within the
// voter's total power (that sum gets locked); it REPLACES the voter's previous vote, and every signal's total moves
// by exactly (new power - previous power of this voter) - no other total changes - and never ends up negative.
//@ func (k msgServer) Vote
//@ modifies Store_feeds, Other
//@ requires wfTotals(Store_feeds)
//@ requires bech32ok(msg.Voter) ==> (smallPowers(msg.Signals) && smallPowers(voteOf(Store_feeds, bech32addr(msg.Voter))))
//@ ensures err == nil ==> bech32ok(msg.Voter) && len(msg.Signals) <= old(feedsParams(Store_feeds)).MaxCurrentFeeds
//@ ensures err == nil ==> types.psumS(msg.Signals, 0, len(msg.Signals)) <= types.totalPowerOf(old(Other), bech32addr(msg.Voter))
//@ ensures err == nil ==> voteOf(Store_feeds, bech32addr(msg.Voter)) == msg.Signals
//@ ensures err == nil ==> (forall id Str :: stp(Store_feeds, id) == old(stp(Store_feeds, id)) + vpow(msg.Signals, id, len(msg.Signals)) - vpow(old(voteOf(Store_feeds, bech32addr(msg.Voter))), id, len(old(voteOf(Store_feeds, bech32addr(msg.Voter))))))
//@ ensures err == nil ==> (forall id Str :: stp(Store_feeds, id) >= 0)
//@ loop 0: invariant len(keys) == #i
//@ loop 0: invariant forall j :: 0 <= j && j < len(keys) ==> has(#visited, keys[j])
//@ loop 0: invariant forall q Str :: has(#visited, q) ==> (exists j :: 0 <= j && j < len(keys) && keys[j] == q)
//@ loop 0: invariant forall i, j :: 0 <= i && i < j && j < len(keys) ==> keys[i] != keys[j]
// (stepping stones for loop 1: the sorted key list is duplicate-free; the current key has not been visited; its diff)
//@ loop 1: invariant forall i, j :: 0 <= i && i < j && j < len(keys) ==> keys[i] != keys[j]
//@ assert after powerDiff: (forall j :: 0 <= j && j < #i ==> keys[j] != signalID) && powerDiff == diffOf(signalIDToPowerDiff, signalID) && signalID == keys[#i]
//@ loop 1: invariant forall id Str :: stp(Store_feeds, id) == old(stp(Store_feeds, id)) + ((exists j :: 0 <= j && j < #i && keys[j] == id) ? diffOf(signalIDToPowerDiff, id) : 0)
//@ loop 1: invariant forall id Str :: stpHas(Store_feeds, id) ==> (stpAt(Store_feeds, id).ID == id && 0 <= stpAt(Store_feeds, id).Power)
//@ loop 1: invariant voteOf(Store_feeds, voter) == msg.Signals
//@ loop 1: invariant forall q Str :: has(signalIDToPowerDiff, q) ==> (exists j :: 0 <= j && j < len(keys) && keys[j] == q)

// resetting prices deletes price records only, and ALL of them (prefix-iterator delete loop: verified body)
//@ func (k Keeper) DeleteAllPrices
//@ modifies Store_feeds
//@ ensures forall q Bz :: !iskey(types.PriceStoreKey, q) ==> Store_feeds[q] == old(Store_feeds)[q]
//@ ensures forall id Str :: !has(Store_feeds, types.PriceStoreKey(id))
//@ loop 0: invariant 0 <= itpos(iterator) && itpos(iterator) <= itlen(iterator)
//@ loop 0: invariant forall q Bz :: !hasprefix(q, types.PriceStoreKeyPrefix) ==> Store_feeds[q] == old(Store_feeds)[q]
//@ loop 0: invariant forall q Bz :: Store_feeds[q] == old(Store_feeds)[q] || !has(Store_feeds, q)
//@ loop 0: invariant forall j :: 0 <= j && j < itpos(iterator) ==> !has(Store_feeds, itkey(iterator, j))

// ---- C02: the only writer of the parameter record stores validated parameters only --------------------------------
//@ func (k Keeper) SetParams
//@ modifies Store_feeds
//@ ensures err == nil ==> Store_feeds == store(old(Store_feeds), types.ParamsKey, enc(p)) && p.CurrentFeedsUpdateInterval > 0 && p.PowerStepThreshold > 0 && p.MinInterval > 0 && p.MaxInterval > 0 && ext("LegacyNewDecFromStr#1", p.PriceQuorum) == nil
//@ ensures err != nil ==> Store_feeds == old(Store_feeds)

// ---- C15: the grace period after a feed-list update is counted from THIS update ------------------------------------------
// Whenever the current-feed list is (re)written - same signals or not: intervals may have changed - it is stamped with
// the block time and height of the write; CheckMissReport grants the grace period from that stamp.
//@ func (k Keeper) SetCurrentFeeds
//@ modifies Store_feeds
//@ ensures Store_feeds == store(old(Store_feeds), types.CurrentFeedsStoreKey, enc(types.CurrentFeeds{feeds, ctx.BlockTime().Unix(), ctx.BlockHeight()}))

// ---- frame of the store invariants: each record family is written only through these functions ------------------------
// (the invariants above are proved writer by writer - "a lock has its index entry", "a record is filed under its own id";
// a new function that Sets or Deletes such keys directly is outside that argument: ground obligation `writers/...`)
//@ writers PriceStoreKey: Keeper.SetPrice
//@ writers SignalTotalPowerByPowerIndexKey: Keeper.deleteSignalTotalPowerByPowerIndex, Keeper.setSignalTotalPowerByPowerIndex
//@ writers SignalTotalPowerStoreKey: Keeper.SetSignalTotalPower, Keeper.deleteSignalTotalPower
//@ writers ValidatorPriceListStoreKey: Keeper.SetValidatorPriceList
//@ writers VoteStoreKey: Keeper.DeleteVote, Keeper.SetVote

// ---- read-only list getters (iterator + decode loops): results not modelled, no state written -------------------------
// (so that a caller which uses one of them stays analysable: the list is an arbitrary well-typed value)
//@ func (k Keeper) GetAllPrices
//@ trusted
//@ func (k Keeper) GetPrices
//@ trusted
//@ func (k Keeper) GetVotes
//@ trusted
