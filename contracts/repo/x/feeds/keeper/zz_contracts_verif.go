//go:build verif

package keeper

// Contracts for govc (see /verif/DESIGN.md). Comment-only file; compiled only under -tags verif.

// C15: a miss is declared only when both the time limit and the block limit are exceeded.
// The range preconditions are the explicit form of "block times / heights far below 2^62".
//@ func CheckMissReport
//@ nooverflow
//@ requires 0 <= lastUpdateTimestamp && lastUpdateTimestamp <= T61 && 0 <= lastUpdateBlock && lastUpdateBlock <= T61
//@ requires 0 <  gracePeriod && gracePeriod <= T61 && 0 < feed.Interval && feed.Interval <= T61
//@ requires 0 - T61 <= valInfo.Status.Since.Unix() && valInfo.Status.Since.Unix() <= T61
//@ requires 0 <= valPrice.Timestamp && valPrice.Timestamp <= T61 && 0 <= valPrice.BlockHeight && valPrice.BlockHeight <= T61
//@ ensures  let has   = valPrice.SignalPriceStatus != types.SIGNAL_PRICE_STATUS_UNSPECIFIED in
//@          let lastT = max(max(lastUpdateTimestamp + gracePeriod, valInfo.Status.Since.Unix() + gracePeriod),
//@                           has ? valPrice.Timestamp + feed.Interval : 0) in
//@          let lastB = max(lastUpdateBlock + gracePeriod / 3, has ? valPrice.BlockHeight + feed.Interval / 3 : 0) in
//@          result == (lastT < blockTime.Unix() && lastB < blockHeight)
// corollaries stated directly (each follows from the clause above; kept as separate obligations so
// that a change is reported against the sentence of the property it breaks)
//@ ensures  blockTime.Unix() <= lastUpdateTimestamp + gracePeriod ==> !result
//@ ensures  blockTime.Unix() <= valInfo.Status.Since.Unix() + gracePeriod ==> !result
//@ ensures  valPrice.SignalPriceStatus != types.SIGNAL_PRICE_STATUS_UNSPECIFIED && blockTime.Unix() <= valPrice.Timestamp + feed.Interval ==> !result
//@ ensures  blockHeight <= lastUpdateBlock + gracePeriod / 3 ==> !result

//@ func checkHavePrice
//@ requires 0 <= feed.Interval && feed.Interval <= T61 && 0 - T61 <= blockTime.Unix() && blockTime.Unix() <= T61
//@ ensures result == (valPrice.SignalPriceStatus != types.SIGNAL_PRICE_STATUS_UNSPECIFIED
//@                    && valPrice.Timestamp >= blockTime.Unix() - feed.Interval)
