//go:build verif

package keeper

// Contracts for govc (see /verif/DESIGN.md). Comment-only file; compiled only under -tags verif.

// C15: a miss is declared only when both the time limit and the block limit are exceeded.
// The range preconditions are the explicit form of "block times / heights far below 2^62".
//@ spec missRanges(feed types.Feed, lut Int, lub Int, vp types.ValidatorPrice, vi types.ValidatorInfo, gp Int) Bool =
//@     0 <= lut && lut <= T61 && 0 <= lub && lub <= T61 && 0 < gp && gp <= T61 && 0 < feed.Interval && feed.Interval <= T61
//@     && 0 - T61 <= vi.Status.Since.Unix() && vi.Status.Since.Unix() <= T61
//@     && 0 <= vp.Timestamp && vp.Timestamp <= T61 && 0 <= vp.BlockHeight && vp.BlockHeight <= T61
//@ func CheckMissReport
//@ ensures  missRanges(feed, lastUpdateTimestamp, lastUpdateBlock, valPrice, valInfo, gracePeriod) ==>
//@         (let has   = valPrice.SignalPriceStatus != types.SIGNAL_PRICE_STATUS_UNSPECIFIED in
//@          let lastT = max(max(lastUpdateTimestamp + gracePeriod, valInfo.Status.Since.Unix() + gracePeriod),
//@                           has ? valPrice.Timestamp + feed.Interval : 0) in
//@          let lastB = max(lastUpdateBlock + gracePeriod / 3, has ? valPrice.BlockHeight + feed.Interval / 3 : 0) in
//@          result == (lastT < blockTime.Unix() && lastB < blockHeight))
// corollaries stated directly (each follows from the clause above; kept as separate obligations so
// that a change is reported against the sentence of the property it breaks)
//@ ensures  missRanges(feed, lastUpdateTimestamp, lastUpdateBlock, valPrice, valInfo, gracePeriod) && blockTime.Unix() <= lastUpdateTimestamp + gracePeriod ==> !result
//@ ensures  missRanges(feed, lastUpdateTimestamp, lastUpdateBlock, valPrice, valInfo, gracePeriod) && blockTime.Unix() <= valInfo.Status.Since.Unix() + gracePeriod ==> !result
//@ ensures  missRanges(feed, lastUpdateTimestamp, lastUpdateBlock, valPrice, valInfo, gracePeriod) && valPrice.SignalPriceStatus != types.SIGNAL_PRICE_STATUS_UNSPECIFIED && blockTime.Unix() <= valPrice.Timestamp + feed.Interval ==> !result
//@ ensures  missRanges(feed, lastUpdateTimestamp, lastUpdateBlock, valPrice, valInfo, gracePeriod) && blockHeight <= lastUpdateBlock + gracePeriod / 3 ==> !result

//@ func checkHavePrice
//@ ensures (0 <= feed.Interval && feed.Interval <= T61 && 0 - T61 <= blockTime.Unix() && blockTime.Unix() <= T61) ==> result == (valPrice.SignalPriceStatus != types.SIGNAL_PRICE_STATUS_UNSPECIFIED
//@                    && valPrice.Timestamp >= blockTime.Unix() - feed.Interval)

// ---- C07: signal totals and their by-power index move in lock-step ------------------------------------
//@ spec stpHas(s Store, id Str) Bool = has(s, types.SignalTotalPowerStoreKey(id))
//@ spec stpAt(s Store, id Str) types.Signal = dec(types.Signal, s[types.SignalTotalPowerStoreKey(id)])
//@ spec dropIdx(s Store, id Str) Store = stpHas(s, id) ? remove(s, types.SignalTotalPowerByPowerIndexKey(stpAt(s, id).ID, stpAt(s, id).Power)) : s

// Setting a signal's total first removes the index entry of the previous total (if any); power 0 deletes
// the total, any other power stores the total and exactly one index entry (power, id) -> id.
// The postcondition gives the whole new store, so no other key may change.
//@ func (k Keeper) SetSignalTotalPower
//@ modifies Store_feeds
//@ ensures signal.Power == 0 ==> Store_feeds == remove(old(dropIdx(Store_feeds, signal.ID)), types.SignalTotalPowerStoreKey(signal.ID))
//@ ensures signal.Power != 0 ==> Store_feeds == store(store(old(dropIdx(Store_feeds, signal.ID)), types.SignalTotalPowerStoreKey(signal.ID), enc(signal)),
//@                                               types.SignalTotalPowerByPowerIndexKey(signal.ID, signal.Power), bytes(signal.ID))

// ---- C06: the status rule ----------------------------------------------------------------------------
// With T, A, U the total / AVAILABLE / UNSUPPORTED reporting power: UNKNOWN_SIGNAL_ID iff 2U > T; otherwise
// NOT_READY when T is below the quorum, fewer than half is AVAILABLE or no power is AVAILABLE at all; otherwise AVAILABLE with the price of
// one of the AVAILABLE entries. The function is total (block execution must not fail): err == nil.
//@ func (k Keeper) CalculatePrice
//@ replay zero-receiver
//@ requires forall i :: 0 <= i && i < len(validatorPriceInfos) ==> validatorPriceInfos[i].Power >= 0
//@ ensures err == nil
//@ ensures err == nil ==> result.SignalID == feed.SignalID && result.Timestamp == ctx.BlockTime().Unix()
//@ ensures err == nil && 2 * types.stPower(validatorPriceInfos, types.SIGNAL_PRICE_STATUS_UNSUPPORTED, 0, len(validatorPriceInfos)) > types.allPower(validatorPriceInfos, 0, len(validatorPriceInfos))
//@           ==> result.Status == types.PRICE_STATUS_UNKNOWN_SIGNAL_ID && result.Price == 0
//@ ensures err == nil && !(2 * types.stPower(validatorPriceInfos, types.SIGNAL_PRICE_STATUS_UNSUPPORTED, 0, len(validatorPriceInfos)) > types.allPower(validatorPriceInfos, 0, len(validatorPriceInfos)))
//@           && (types.allPower(validatorPriceInfos, 0, len(validatorPriceInfos)) < powerQuorum
//@               || 2 * types.stPower(validatorPriceInfos, types.SIGNAL_PRICE_STATUS_AVAILABLE, 0, len(validatorPriceInfos)) < types.allPower(validatorPriceInfos, 0, len(validatorPriceInfos)))
//@           ==> result.Status == types.PRICE_STATUS_NOT_READY && result.Price == 0
//@ ensures err == nil && result.Status == types.PRICE_STATUS_AVAILABLE
//@           ==> (exists j :: 0 <= j && j < len(validatorPriceInfos) && validatorPriceInfos[j].SignalPriceStatus == types.SIGNAL_PRICE_STATUS_AVAILABLE && result.Price == validatorPriceInfos[j].Price)
//@ ensures err == nil && result.Status == types.PRICE_STATUS_AVAILABLE
//@           ==> types.allPower(validatorPriceInfos, 0, len(validatorPriceInfos)) >= powerQuorum
//@               && 2 * types.stPower(validatorPriceInfos, types.SIGNAL_PRICE_STATUS_AVAILABLE, 0, len(validatorPriceInfos)) >= types.allPower(validatorPriceInfos, 0, len(validatorPriceInfos))
//@ ensures err == nil && !(2 * types.stPower(validatorPriceInfos, types.SIGNAL_PRICE_STATUS_UNSUPPORTED, 0, len(validatorPriceInfos)) > types.allPower(validatorPriceInfos, 0, len(validatorPriceInfos)))
//@           && types.allPower(validatorPriceInfos, 0, len(validatorPriceInfos)) >= powerQuorum
//@           && 2 * types.stPower(validatorPriceInfos, types.SIGNAL_PRICE_STATUS_AVAILABLE, 0, len(validatorPriceInfos)) >= types.allPower(validatorPriceInfos, 0, len(validatorPriceInfos))
//@           && types.stPower(validatorPriceInfos, types.SIGNAL_PRICE_STATUS_AVAILABLE, 0, len(validatorPriceInfos)) > 0
//@           ==> result.Status == types.PRICE_STATUS_AVAILABLE

// ---- C07: a vote is accepted only if the (mathematical) sum of its signal powers does not exceed the
// voter's total power; that sum is what gets locked.
//@ func (k Keeper) LockVoterPower
//@ modifies Other
//@ ensures err == nil ==> types.psumS(signals, 0, len(signals)) <= types.totalPowerOf(old(Other), voter)
//@ ensures err != nil ==> Other == old(Other)
//@ loop 0: invariant sumPower == types.psumS(signals, 0, #i)

// ---- C02: ranked signal list never indexes past the configured maximum ----------------------------------
// (end-block code: an index panic here would halt the chain)
//@ func (k Keeper) GetSignalTotalPowersByPower
//@ requires limit <= MaxInt64
//@ ensures len(result) <= limit
//@ loop 0: invariant 0 <= i && i <= limit && len(signalTotalPowers) == limit && cap(signalTotalPowers) >= limit

// ---- C15 / C20: price submission -----------------------------------------------------------------------------
//@ spec curFeeds(s Store) types.CurrentFeeds = has(s, types.CurrentFeedsStoreKey) ? dec(types.CurrentFeeds, s[types.CurrentFeedsStoreKey]) : zero(types.CurrentFeeds)
//@ spec feedsParams(s Store) types.Params = has(s, types.ParamsKey) ? dec(types.Params, s[types.ParamsKey]) : zero(types.Params)
//@ spec vplAt(s Store, v Addr) types.ValidatorPriceList = dec(types.ValidatorPriceList, s[types.ValidatorPriceListStoreKey(v)])
//@ spec inFeeds(fs []types.Feed, id Str) Bool = exists f :: 0 <= f && f < len(fs) && fs[f].SignalID == id
//@ spec inPrev(ps []types.ValidatorPrice, e types.ValidatorPrice) Bool = exists p :: 0 <= p && p < len(ps) && ps[p] == e

// Accepted only from a bonded, oracle-active validator, with a message timestamp within the allowed
// discrepancy of the block time, and only for signals that are current feeds. Every price taken from the
// message is stored with the BLOCK time and height (the message's own timestamp is never stored), every other
// stored entry is an empty slot or one of the validator's previous prices; a rejection changes nothing.
//@ func (k msgServer) SubmitSignalPrices
//@ modifies Store_feeds
//@ requires forall a, b :: 0 <= a && a < b && b < len(curFeeds(Store_feeds).Feeds) ==> curFeeds(Store_feeds).Feeds[a].SignalID != curFeeds(Store_feeds).Feeds[b].SignalID
//@ ensures err != nil ==> Store_feeds == old(Store_feeds)
//@ ensures err == nil ==> bech32ok(msg.Validator) && types.oracleStatus(Other, bech32addr(msg.Validator)).IsActive
//@ ensures err == nil ==> (let d = wrap64(msg.Timestamp - sdkctx(goCtx).BlockTime().Unix()) in (d == MinInt64 ? d : abs(d)) <= old(feedsParams(Store_feeds)).AllowableBlockTimeDiscrepancy)
//@ ensures err == nil ==> (forall i :: 0 <= i && i < len(msg.SignalPrices) ==> inFeeds(old(curFeeds(Store_feeds)).Feeds, msg.SignalPrices[i].SignalID))
//@ ensures err == nil ==> (forall q Bz :: q != types.ValidatorPriceListStoreKey(bech32addr(msg.Validator)) ==> Store_feeds[q] == old(Store_feeds)[q])
//@ ensures err == nil ==> (forall j :: 0 <= j && j < len(vplAt(Store_feeds, bech32addr(msg.Validator)).ValidatorPrices) ==>
//@     (let e = vplAt(Store_feeds, bech32addr(msg.Validator)).ValidatorPrices[j] in
//@        e == zero(types.ValidatorPrice)
//@        || (old(has(Store_feeds, types.ValidatorPriceListStoreKey(bech32addr(msg.Validator)))) && inPrev(old(vplAt(Store_feeds, bech32addr(msg.Validator))).ValidatorPrices, e))
//@        || (e.Timestamp == sdkctx(goCtx).BlockTime().Unix() && e.BlockHeight == sdkctx(goCtx).BlockHeight())))
//@ loop 0: invariant forall a, b :: 0 <= a && a < b && b < len(currentFeeds.Feeds) ==> currentFeeds.Feeds[a].SignalID != currentFeeds.Feeds[b].SignalID
//@ loop 0: invariant forall j :: 0 <= j && j < #i ==> has(currentFeedsMap, currentFeeds.Feeds[j].SignalID)
//@ loop 0: invariant len(currentFeedsMap) == #i
//@ loop 0: invariant forall key Str :: has(currentFeedsMap, key) ==> (0 <= currentFeedsMap[key] && currentFeedsMap[key] < #i && currentFeeds.Feeds[currentFeedsMap[key]].SignalID == key)
//@ loop 1: invariant len(newValidatorPrices) == len(currentFeeds.Feeds)
//@ loop 1: invariant forall j :: 0 <= j && j < len(newValidatorPrices) ==> (newValidatorPrices[j] == zero(types.ValidatorPrice) || inPrev(prevValPrices.ValidatorPrices, newValidatorPrices[j]))
//@ loop 2: invariant len(newValidatorPrices) == len(currentFeeds.Feeds)
//@ loop 2: invariant forall i :: 0 <= i && i < #i ==> inFeeds(currentFeeds.Feeds, msg.SignalPrices[i].SignalID)
//@ loop 2: invariant forall j :: 0 <= j && j < len(newValidatorPrices) ==> (newValidatorPrices[j] == zero(types.ValidatorPrice)
//@        || (err == nil && inPrev(prevValPrices.ValidatorPrices, newValidatorPrices[j]))
//@        || (newValidatorPrices[j].Timestamp == blockTime && newValidatorPrices[j].BlockHeight == blockHeight))

// assumption (economic bound): a validator's bonded tokens fit in a uint64 (total supply < 2^64)
//@ axiom tokensFitFeeds: forall v stakingtypes.ValidatorI :: 0 <= ext("ValidatorI.GetTokens", v) && ext("ValidatorI.GetTokens", v) <= MaxUint64

// ---- C06: which validators' prices reach the aggregation ------------------------------------------------------
// the callback collects only oracle-active validators
//@ func (k Keeper) CalculatePrices$lit0
//@ maintains forall j :: 0 <= j && j < len(validatorsByPower) ==> validatorsByPower[j].Status.IsActive

// After the collection loop every collected (bonded, oracle-active) validator that has a stored price list is
// represented in the price table: no validator's fresh prices are dropped because another validator has none.
//@ func (k Keeper) CalculatePrices
//@ modifies Store_feeds, Other
//@ assert before params: forall j :: 0 <= j && j < len(validatorsByPower) ==> (has(Store_feeds, types.ValidatorPriceListStoreKey(validatorsByPower[j].Address)) ==> has(allValidatorPrices, addrstr(validatorsByPower[j].Address)))
//@ loop 0: invariant Store_feeds == old(Store_feeds)
//@ loop 0: invariant forall j :: 0 <= j && j < #i ==> (has(Store_feeds, types.ValidatorPriceListStoreKey(validatorsByPower[j].Address)) ==> has(allValidatorPrices, addrstr(validatorsByPower[j].Address)))
//@ loop 3: invariant forall j :: 0 <= j && j < len(validatorPriceInfos) ==> validatorPriceInfos[j].Power >= 0
