//go:build verif

package keeper

// Contracts for govc (see /verif/DESIGN.md). Comment-only file; compiled only under -tags verif.

// C15: a miss is declared only when both the time limit and the block limit are exceeded.
// The range preconditions are the explicit form of "block times / heights far below 2^62".
//@ func CheckMissReport
//@ nooverflow
//@ requires 0 <= lastUpdateTimestamp && lastUpdateTimestamp <= T61 && 0 <= lastUpdateBlock && lastUpdateBlock <= T61
//@ requires 0 <  gracePeriod && gracePeriod <= T61 && 0 < feed.Interval && feed.Interval <= T61
//@ requires 0 - T61 <= valInfo.Status.Since.Unix() && valInfo.Status.Since.Unix() <= T61
//@ requires 0 <= valPrice.Timestamp && valPrice.Timestamp <= T61 && 0 <= valPrice.BlockHeight && valPrice.BlockHeight <= T61
//@ ensures  let has   = valPrice.SignalPriceStatus != types.SIGNAL_PRICE_STATUS_UNSPECIFIED in
//@          let lastT = max(max(lastUpdateTimestamp + gracePeriod, valInfo.Status.Since.Unix() + gracePeriod),
//@                           has ? valPrice.Timestamp + feed.Interval : 0) in
//@          let lastB = max(lastUpdateBlock + gracePeriod / 3, has ? valPrice.BlockHeight + feed.Interval / 3 : 0) in
//@          result == (lastT < blockTime.Unix() && lastB < blockHeight)
// corollaries stated directly (each follows from the clause above; kept as separate obligations so
// that a change is reported against the sentence of the property it breaks)
//@ ensures  blockTime.Unix() <= lastUpdateTimestamp + gracePeriod ==> !result
//@ ensures  blockTime.Unix() <= valInfo.Status.Since.Unix() + gracePeriod ==> !result
//@ ensures  valPrice.SignalPriceStatus != types.SIGNAL_PRICE_STATUS_UNSPECIFIED && blockTime.Unix() <= valPrice.Timestamp + feed.Interval ==> !result
//@ ensures  blockHeight <= lastUpdateBlock + gracePeriod / 3 ==> !result

//@ func checkHavePrice
//@ requires 0 <= feed.Interval && feed.Interval <= T61 && 0 - T61 <= blockTime.Unix() && blockTime.Unix() <= T61
//@ ensures result == (valPrice.SignalPriceStatus != types.SIGNAL_PRICE_STATUS_UNSPECIFIED
//@                    && valPrice.Timestamp >= blockTime.Unix() - feed.Interval)

// ---- C07: signal totals and their by-power index move in lock-step ------------------------------------
//@ spec stpHas(s Store, id Str) Bool = has(s, types.SignalTotalPowerStoreKey(id))
//@ spec stpAt(s Store, id Str) types.Signal = dec(types.Signal, s[types.SignalTotalPowerStoreKey(id)])
//@ spec dropIdx(s Store, id Str) Store = stpHas(s, id) ? remove(s, types.SignalTotalPowerByPowerIndexKey(stpAt(s, id).ID, stpAt(s, id).Power)) : s

// Setting a signal's total first removes the index entry of the previous total (if any); power 0 deletes
// the total, any other power stores the total and exactly one index entry (power, id) -> id.
// The postcondition gives the whole new store, so no other key may change.
//@ func (k Keeper) SetSignalTotalPower
//@ modifies Store_feeds
//@ ensures signal.Power == 0 ==> Store_feeds == remove(old(dropIdx(Store_feeds, signal.ID)), types.SignalTotalPowerStoreKey(signal.ID))
//@ ensures signal.Power != 0 ==> Store_feeds == store(store(old(dropIdx(Store_feeds, signal.ID)), types.SignalTotalPowerStoreKey(signal.ID), enc(signal)),
//@                                               types.SignalTotalPowerByPowerIndexKey(signal.ID, signal.Power), bytes(signal.ID))

// ---- C06: the status rule ----------------------------------------------------------------------------
// With T, A, U the total / AVAILABLE / UNSUPPORTED reporting power: UNKNOWN_SIGNAL_ID iff 2U > T; otherwise
// NOT_READY when T is below the quorum, fewer than half is AVAILABLE or no power is AVAILABLE at all; otherwise AVAILABLE with the price of
// one of the AVAILABLE entries. The function is total (block execution must not fail): err == nil.
//@ func (k Keeper) CalculatePrice
//@ replay zero-receiver
//@ requires forall i :: 0 <= i && i < len(validatorPriceInfos) ==> validatorPriceInfos[i].Power >= 0
//@ requires powerQuorum >= 0
//@ ensures err == nil
//@ ensures err == nil ==> result.SignalID == feed.SignalID && result.Timestamp == ctx.BlockTime().Unix()
//@ ensures err == nil && 2 * types.stPower(validatorPriceInfos, types.SIGNAL_PRICE_STATUS_UNSUPPORTED, 0, len(validatorPriceInfos)) > types.allPower(validatorPriceInfos, 0, len(validatorPriceInfos))
//@           ==> result.Status == types.PRICE_STATUS_UNKNOWN_SIGNAL_ID && result.Price == 0
//@ ensures err == nil && !(2 * types.stPower(validatorPriceInfos, types.SIGNAL_PRICE_STATUS_UNSUPPORTED, 0, len(validatorPriceInfos)) > types.allPower(validatorPriceInfos, 0, len(validatorPriceInfos)))
//@           && (types.allPower(validatorPriceInfos, 0, len(validatorPriceInfos)) < powerQuorum
//@               || 2 * types.stPower(validatorPriceInfos, types.SIGNAL_PRICE_STATUS_AVAILABLE, 0, len(validatorPriceInfos)) < types.allPower(validatorPriceInfos, 0, len(validatorPriceInfos)))
//@           ==> result.Status == types.PRICE_STATUS_NOT_READY && result.Price == 0
//@ ensures err == nil && result.Status == types.PRICE_STATUS_AVAILABLE
//@           ==> (exists j :: 0 <= j && j < len(validatorPriceInfos) && validatorPriceInfos[j].SignalPriceStatus == types.SIGNAL_PRICE_STATUS_AVAILABLE && result.Price == validatorPriceInfos[j].Price)
//@ ensures err == nil && result.Status == types.PRICE_STATUS_AVAILABLE
//@           ==> types.allPower(validatorPriceInfos, 0, len(validatorPriceInfos)) >= powerQuorum
//@               && 2 * types.stPower(validatorPriceInfos, types.SIGNAL_PRICE_STATUS_AVAILABLE, 0, len(validatorPriceInfos)) >= types.allPower(validatorPriceInfos, 0, len(validatorPriceInfos))
//@ ensures err == nil && !(2 * types.stPower(validatorPriceInfos, types.SIGNAL_PRICE_STATUS_UNSUPPORTED, 0, len(validatorPriceInfos)) > types.allPower(validatorPriceInfos, 0, len(validatorPriceInfos)))
//@           && types.allPower(validatorPriceInfos, 0, len(validatorPriceInfos)) >= powerQuorum
//@           && 2 * types.stPower(validatorPriceInfos, types.SIGNAL_PRICE_STATUS_AVAILABLE, 0, len(validatorPriceInfos)) >= types.allPower(validatorPriceInfos, 0, len(validatorPriceInfos))
//@           && types.stPower(validatorPriceInfos, types.SIGNAL_PRICE_STATUS_AVAILABLE, 0, len(validatorPriceInfos)) > 0
//@           ==> result.Status == types.PRICE_STATUS_AVAILABLE

// ---- C07: a vote is accepted only if the (mathematical) sum of its signal powers does not exceed the
// voter's total power; that sum is what gets locked.
//@ func (k Keeper) LockVoterPower
//@ modifies Other
//@ ensures err == nil ==> types.psumS(signals, 0, len(signals)) <= types.totalPowerOf(old(Other), voter)
//@ ensures err != nil ==> Other == old(Other)
//@ loop 0: invariant sumPower == types.psumS(signals, 0, #i)

// ---- C02: ranked signal list never indexes past the configured maximum ----------------------------------
// (end-block code: an index panic here would halt the chain)
//@ func (k Keeper) GetSignalTotalPowersByPower
//@ requires limit <= MaxInt64
//@ ensures len(result) <= limit
//@ loop 0: invariant 0 <= i && i <= limit && len(signalTotalPowers) == limit && cap(signalTotalPowers) >= limit
