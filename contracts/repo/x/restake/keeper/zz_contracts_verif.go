//go:build verif

package keeper

// Contracts for govc (see /verif/DESIGN.md). Comment-only file; compiled only under -tags verif.

//@ spec activeVault(s Store, key Str) Bool = has(s, types.VaultStoreKey(key)) && dec(types.Vault, s[types.VaultStoreKey(key)]).IsActive

// C16 (and C07): the power check succeeds exactly when the new total power is at least every lock the
// account holds in a still-active vault (the by-power index entry's value is the vault key).
//@ func (k Keeper) isValidPower
//@ ensures result <==> (forall q Bz :: (has(Store_restake, q) && hasprefix(q, types.LocksByPowerIndexKey(addr)) && activeVault(Store_restake, str(Store_restake[q])))
//@                          ==> totalPower >= types.idxPower(q))
//@ loop 0: invariant 0 <= itpos(iterator) && itpos(iterator) <= itlen(iterator)
//@ loop 0: invariant forall j :: 0 <= j && j < itpos(iterator) ==> !activeVault(Store_restake, str(itval(iterator, j)))

// ---- C16: staked power, staking and unstaking ------------------------------------------------------------
//@ spec stakeAt(s Store, a Addr) types.Stake = dec(types.Stake, s[types.StakeStoreKey(a)])
//@ spec stakeCoins(s Store, a Addr) sdk.Coins = has(s, types.StakeStoreKey(a)) ? stakeAt(s, a).Coins : ext("NewCoins")
//@ spec rparams(s Store) types.Params = has(s, types.ParamsKey) ? dec(types.Params, s[types.ParamsKey]) : zero(types.Params)
// power of a coin set: the sum of its amounts in the allowed denoms
//@ spec dsum(c sdk.Coins, ds []string, n Int) Int = n <= 0 ? 0 : dsum(c, ds, n - 1) + ext("Coins.AmountOf", c, ds[n-1])
//@ spec stakedPow(s Store, a Addr) Int = dsum(stakeCoins(s, a), rparams(s).AllowedDenoms, len(rparams(s).AllowedDenoms))
// store invariant: a stake record is filed under its own staker address
//@ spec wfStake(s Store, a Addr) Bool = has(s, types.StakeStoreKey(a)) ==> (bech32ok(stakeAt(s, a).StakerAddress) && bech32addr(stakeAt(s, a).StakerAddress) == a)
// "every lock this account holds in a still-active vault is covered by the given power"
//@ spec locksCovered(s Store, a Addr, p Int) Bool = forall q Bz :: (has(s, q) && hasprefix(q, types.LocksByPowerIndexKey(a)) && activeVault(s, str(s[q]))) ==> p >= types.idxPower(q)

//@ func (k Keeper) GetStakedPower
//@ ensures result == stakedPow(Store_restake, stakerAddr)
//@ loop 0: invariant power == dsum(stake.Coins, rparams(Store_restake).AllowedDenoms, #i)

// Staking moves exactly the staked coins from the staker to the module account and adds exactly them to the
// staker's record; nothing else in the store changes.
//@ func (k msgServer) Stake
//@ modifies Store_restake, Bank
//@ requires bech32ok(msg.StakerAddress) ==> wfStake(Store_restake, bech32addr(msg.StakerAddress))
//@ ensures err == nil ==> bech32ok(msg.StakerAddress) && Bank == bankA2M(old(Bank), bech32addr(msg.StakerAddress), types.ModuleName, msg.Coins)
//@ ensures err == nil ==> stakeAt(Store_restake, bech32addr(msg.StakerAddress)).Coins == ext("Coins.Add", old(stakeCoins(Store_restake, bech32addr(msg.StakerAddress))), msg.Coins)
//@ ensures err == nil ==> (forall q Bz :: q != types.StakeStoreKey(bech32addr(msg.StakerAddress)) ==> Store_restake[q] == old(Store_restake)[q])
//@ ensures err != nil ==> Store_restake == old(Store_restake) && Bank == old(Bank)
//@ loop 0: invariant true
//@ loop 1: invariant true

// Unstaking pays out exactly the requested coins, only when the record covers them, reduces the record by
// exactly them (deleting it at zero), and only when the account's REMAINING power (staked after the
// subtraction + bonded delegations) still covers every lock it holds in an active vault.
//@ func (k msgServer) Unstake
//@ modifies Store_restake, Bank
//@ requires bech32ok(msg.StakerAddress) ==> wfStake(Store_restake, bech32addr(msg.StakerAddress))
//@ ensures err == nil ==> bech32ok(msg.StakerAddress) && Bank == bankM2A(old(Bank), types.ModuleName, bech32addr(msg.StakerAddress), msg.Coins)
//@ ensures err == nil ==> !ext("Coins.SafeSub#1", old(stakeCoins(Store_restake, bech32addr(msg.StakerAddress))), msg.Coins)
//@ ensures err == nil ==> (let a = bech32addr(msg.StakerAddress) in let nc = ext("Coins.SafeSub", old(stakeCoins(Store_restake, a)), msg.Coins) in
//@        (ext("Coins.IsZero", nc) ==> !has(Store_restake, types.StakeStoreKey(a))) && (!ext("Coins.IsZero", nc) ==> has(Store_restake, types.StakeStoreKey(a)) && stakeAt(Store_restake, a).Coins == nc))
//@ ensures err == nil ==> locksCovered(Store_restake, bech32addr(msg.StakerAddress), stakedPow(Store_restake, bech32addr(msg.StakerAddress)) + types.delegatorBonded(Other, bech32addr(msg.StakerAddress)))
//@ ensures bech32ok(msg.StakerAddress) ==> (forall q Bz :: q != types.StakeStoreKey(bech32addr(msg.StakerAddress)) ==> Store_restake[q] == old(Store_restake)[q])

// ---- C16: staking hooks -------------------------------------------------------------------------------------
// A delegation change is accepted only if staked power + bonded delegations still covers every active lock.
// C02: the same hooks also run when the staking module ITSELF reduces a delegation: slashing a redelegation
// (staking.Slash -> SlashRedelegation -> Unbond), which the slashing and evidence modules do in begin-block. An error
// returned then makes Slash, and with it BeginBlock, fail; in that situation the hook must not veto (errors of the
// staking keeper's own lookups are a different matter). Ghost: this call comes from such an involuntary reduction.
// (Known finding F8: the hooks cannot tell, and veto it.)
//@ ghost SlashingUnbond Bool
//@ func (h Hooks) AfterDelegationModified
//@ ensures SlashingUnbond ==> err != types.ErrUnableToUndelegate
//@ ensures err == nil ==> locksCovered(Store_restake, delAddr, stakedPow(Store_restake, delAddr) + types.delegatorBonded(Other, delAddr))

// Removing a delegation is accepted only if the power that REMAINS (staked + bonded delegations - the tokens of the
// delegation being removed) still covers every active lock.
//@ func (h Hooks) BeforeDelegationRemoved
//@ ensures SlashingUnbond ==> err != types.ErrUnableToUndelegate
//@ ensures err == nil ==> locksCovered(Store_restake, delAddr, stakedPow(Store_restake, delAddr) + types.delegatorBonded(Other, delAddr)
//@           - ext("LegacyDec.RoundInt", ext("Validator.TokensFromSharesTruncated", types.validatorOf(Other, valAddr), types.delegationOf(Other, delAddr, valAddr).Shares)))

// ---- C16: locks and their by-power index -----------------------------------------------------------------
//@ spec lockAt(s Store, a Addr, key Str) types.Lock = dec(types.Lock, s[types.LockStoreKey(a, key)])
// store invariant: a lock is filed under its own staker address and vault key
//@ spec wfLock(s Store, a Addr, key Str) Bool = has(s, types.LockStoreKey(a, key)) ==> (lockAt(s, a, key).Key == key && bech32ok(lockAt(s, a, key).StakerAddress) && bech32addr(lockAt(s, a, key).StakerAddress) == a)

// Writing a lock first removes the previous lock of the same (staker, vault) TOGETHER WITH its by-power index
// entry, then writes the record and exactly one index entry (value = vault key) for the new power.
//@ func (k Keeper) SetLock
//@ modifies Store_restake
//@ requires bech32ok(lock.StakerAddress) && wfLock(Store_restake, bech32addr(lock.StakerAddress), lock.Key)
//@ ensures (let a = bech32addr(lock.StakerAddress) in
//@     Store_restake == store(store(
//@          (old(has(Store_restake, types.LockStoreKey(a, lock.Key)))
//@             ? remove(remove(old(Store_restake), types.LockStoreKey(a, lock.Key)), types.LockByPowerIndexKey(old(lockAt(Store_restake, a, lock.Key))))
//@             : old(Store_restake)),
//@          types.LockStoreKey(a, lock.Key), enc(lock)),
//@          types.LockByPowerIndexKey(lock), bytes(lock.Key)))

// Locking power is refused for liquid stakers, for powers outside uint64, for powers above the account's total
// power (staked + bonded delegations) and for inactive vaults; an accepted lock is recorded with exactly that power.
//@ func (k Keeper) SetLockedPower
//@ modifies Store_restake
//@ requires wfLock(Store_restake, stakerAddr, key)
//@ ensures err == nil ==> len(stakerAddr) != 32 && 0 <= power && power <= MaxUint64
//@ ensures err == nil ==> power <= stakedPow(old(Store_restake), stakerAddr) + types.delegatorBonded(Other, stakerAddr)
//@ ensures err == nil ==> activeVault(Store_restake, key)
//@ ensures err == nil ==> has(Store_restake, types.LockStoreKey(stakerAddr, key)) && lockAt(Store_restake, stakerAddr, key).Power == power && lockAt(Store_restake, stakerAddr, key).Key == key
// ... and it is INDEXED: the withdrawal guard (isValidPower) walks the by-power index, not the lock records - also when
// the lock is set again to the power it already had
//@ ensures err == nil ==> has(Store_restake, types.LockByPowerIndexKey(lockAt(Store_restake, stakerAddr, key)))

// ---- C16: genesis --------------------------------------------------------------------------------------------
// sum of the coins of the first n genesis stakes
//@ spec coinsSum(st []types.Stake, n Int) sdk.Coins = n <= 0 ? zero("sdk.Coins") : ext("Coins.Add", coinsSum(st, n - 1), st[n-1].Coins)
// Genesis is accepted (no panic) only if the restake module account holds exactly the sum of all recorded stakes:
// recorded stakes are fully backed from the first block.
//@ func (k Keeper) InitGenesis
//@ may_panic calls
//@ modifies Store_restake, Other
//@ requires forall j :: 0 <= j && j < len(data.Locks) ==> bech32ok(data.Locks[j].StakerAddress)
//@ requires forall a Addr, key Str :: wfLock(Store_restake, a, key)
//@ ensures ext("Coins.Equal", types.balancesOf(Bank, ext("ModuleAccountI.GetAddress", types.modAcc(old(Other), types.ModuleName))), coinsSum(data.Stakes, len(data.Stakes)))
//@ loop 0: invariant forall a Addr, key Str :: wfLock(Store_restake, a, key)
//@ loop 1: invariant forall a Addr, key Str :: wfLock(Store_restake, a, key)
//@ loop 2: invariant totalStakes == coinsSum(data.Stakes, #i)

// C16: the parameter record has one writer, and it stores validated parameters only: the stored allowed-denom list never
// names a denom twice (what makes "sum over the list" the sum over the allowed denoms in GetStakedPower)
//@ func (k Keeper) SetParams
//@ modifies Store_restake
//@ ensures err == nil ==> Store_restake == store(old(Store_restake), types.ParamsKey, enc(p))
//@ ensures err == nil ==> (forall i Int, j Int :: 0 <= i && i < j && j < len(rparams(Store_restake).AllowedDenoms) ==> rparams(Store_restake).AllowedDenoms[i] != rparams(Store_restake).AllowedDenoms[j])
//@ ensures err != nil ==> Store_restake == old(Store_restake)

// ---- C16: a deactivated vault stops constraining and can never be reactivated -------------------------------------------
//@ spec vaultAt(s Store, key Str) types.Vault = dec(types.Vault, s[types.VaultStoreKey(key)])
// get-or-create never touches an existing vault record (in particular it does not turn an inactive vault active again);
// it creates an ACTIVE vault only where there was none; nothing else in the store changes
//@ func (k Keeper) GetOrCreateVault
//@ modifies Store_restake
//@ ensures err == nil
//@ ensures old(has(Store_restake, types.VaultStoreKey(key))) ==> Store_restake == old(Store_restake) && result == old(vaultAt(Store_restake, key))
//@ ensures !old(has(Store_restake, types.VaultStoreKey(key))) ==> Store_restake == store(old(Store_restake), types.VaultStoreKey(key), enc(types.Vault{key, true})) && result == types.Vault{key, true}
// deactivation: only an existing active vault, which becomes inactive and keeps its key; a failure changes nothing
// (store invariant: a vault record is filed under its own key - SetVault, the only writer, files it under vault.Key)
//@ func (k Keeper) DeactivateVault
//@ modifies Store_restake
//@ requires has(Store_restake, types.VaultStoreKey(key)) ==> vaultAt(Store_restake, key).Key == key
//@ ensures err == nil ==> old(activeVault(Store_restake, key)) && !activeVault(Store_restake, key)
//@ ensures err == nil ==> Store_restake == store(old(Store_restake), types.VaultStoreKey(key), enc(with(old(vaultAt(Store_restake, key)), "IsActive", false)))
//@ ensures err != nil ==> Store_restake == old(Store_restake)

// ---- frame of the store invariants: each record family is written only through these functions ------------------------
// (the invariants above are proved writer by writer - "a lock has its index entry", "a record is filed under its own id";
// a new function that Sets or Deletes such keys directly is outside that argument: ground obligation `writers/...`)
//@ writers LockByPowerIndexKey: Keeper.deleteLockByPower, Keeper.setLockByPower
//@ writers LockStoreKey: Keeper.DeleteLock, Keeper.SetLock
//@ writers StakeStoreKey: Keeper.DeleteStake, Keeper.SetStake
//@ writers VaultStoreKey: Keeper.SetVault

// ---- read-only list getters (iterator + decode loops): results not modelled, no state written -------------------------
// (so that a caller which uses one of them stays analysable: the list is an arbitrary well-typed value)
//@ func (k Keeper) GetLocksByAddress
//@ trusted
//@ func (k Keeper) GetLocks
//@ trusted
//@ func (k Keeper) GetStakes
//@ trusted
//@ func (k Keeper) GetVaults
//@ trusted
