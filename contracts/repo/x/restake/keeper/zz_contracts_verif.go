//go:build verif

package keeper

// Contracts for govc (see /verif/DESIGN.md). Comment-only file; compiled only under -tags verif.

//@ spec activeVault(s Store, key Str) Bool = has(s, types.VaultStoreKey(key)) && dec(types.Vault, s[types.VaultStoreKey(key)]).IsActive

// C16 (and C07): the power check succeeds exactly when the new total power is at least every lock the
// account holds in a still-active vault (the by-power index entry's value is the vault key).
//@ func (k Keeper) isValidPower
//@ ensures result <==> (forall q Bz :: (has(Store_restake, q) && hasprefix(q, types.LocksByPowerIndexKey(addr)) && activeVault(Store_restake, str(Store_restake[q])))
//@                          ==> totalPower >= types.idxPower(q))
//@ loop 0: invariant 0 <= itpos(iterator) && itpos(iterator) <= itlen(iterator)
//@ loop 0: invariant forall j :: 0 <= j && j < itpos(iterator) ==> !activeVault(Store_restake, str(itval(iterator, j)))
