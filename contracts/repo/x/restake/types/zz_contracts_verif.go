//go:build verif

package types

// Contracts for govc (see /verif/DESIGN.md). Comment-only file; compiled only under -tags verif.

//@ keyfns VaultStoreKey StakeStoreKey LockStoreKey LocksByPowerIndexKey LockByPowerIndexKey LocksByAddressStoreKey

// Layout of the by-power index key: prefix || len(addr) || addr || power (8 bytes, big endian) || vault key.
// SplitLockByPowerIndexKey is byte-slicing code over that layout; its result is named by two abstract
// functions, and the one layout fact the lock check relies on (big-endian power => byte order of keys
// under one address follows numeric power order) is stated as an axiom (trusted, key-layout).
//@ spec idxPower(k Bz) Int uninterpreted
//@ spec idxAddr(k Bz) Addr uninterpreted
//@ func SplitLockByPowerIndexKey
//@ trusted
//@ ensures power == idxPower(key) && addr == idxAddr(key)
//@ axiom idxOrder: forall a Bz, b Bz, p Addr :: hasprefix(a, LocksByPowerIndexKey(p)) && hasprefix(b, LocksByPowerIndexKey(p)) && bzlt(a, b) ==> idxPower(a) <= idxPower(b)
