//go:build verif

package types

// Contracts for govc (see /verif/DESIGN.md). Comment-only file; compiled only under -tags verif.

//@ keyfns VaultStoreKey StakeStoreKey LockStoreKey LocksByPowerIndexKey LockByPowerIndexKey LocksByAddressStoreKey

// Layout of the by-power index key: prefix || len(addr) || addr || power (8 bytes, big endian) || vault key.
// SplitLockByPowerIndexKey is byte-slicing code over that layout; its result is named by two abstract
// functions, and the one layout fact the lock check relies on (big-endian power => byte order of keys
// under one address follows numeric power order) is stated as an axiom (trusted, key-layout).
// the power field: the 8 bytes after the address, read as an UNSIGNED big-endian number (locks of 2^63 and more exist:
// SetLockedPower accepts any uint64)
//@ spec idxPower(k Bz) Int = u64of(bzslice(k, 2 + k[1], 2 + k[1] + 8))
//@ spec idxAddr(k Bz) Addr uninterpreted
// (key-length assertions of the SDK's kv package panic on shorter keys: a precondition here)
//@ extern github.com/cosmos/cosmos-sdk/types/kv.AssertKeyAtLeastLength(bz, length) ()
//@ requires len(bz) >= length
// layout fact (trusted, key-layout): every key under a staker's by-power prefix was written by LockByPowerIndexKey, so
// it carries the address it announces and the 8 power bytes
//@ axiom idxLayout: forall k Bz, p Addr :: hasprefix(k, LocksByPowerIndexKey(p)) ==> len(k) >= 2 && len(k) >= 2 + k[1] + 8
//@ func SplitLockByPowerIndexKey
//@ requires len(key) >= 2 && len(key) >= 2 + key[1] + 8
//@ ensures power == idxPower(key)
//@ axiom idxOrder: forall a Bz, b Bz, p Addr :: hasprefix(a, LocksByPowerIndexKey(p)) && hasprefix(b, LocksByPowerIndexKey(p)) && bzlt(a, b) ==> idxPower(a) <= idxPower(b)

// ---- assumed contracts of the keepers the restake module depends on ------------------------------------
//@ spec delegatorBonded(o OtherState, a Addr) Int uninterpreted
//@ func (k StakingKeeper) GetDelegatorBonded
//@ trusted
//@ ensures err == nil ==> result == delegatorBonded(Other, delegator)
// (the SDK staking keeper never returns an error registered by the restake module)
//@ ensures err != ErrUnableToUndelegate
//@ func (k BankKeeper) SendCoinsFromAccountToModule
//@ trusted
//@ modifies Bank
//@ ensures err == nil ==> Bank == bankA2M(old(Bank), senderAddr, recipientModule, amt)
//@ ensures err != nil ==> Bank == old(Bank)
//@ func (k BankKeeper) SendCoinsFromModuleToAccount
//@ trusted
//@ modifies Bank
//@ ensures err == nil ==> Bank == bankM2A(old(Bank), senderModule, recipientAddr, amt)
//@ ensures err != nil ==> Bank == old(Bank)
//@ spec balancesOf(b BankState, a Addr) sdk.Coins uninterpreted
//@ func (k BankKeeper) GetAllBalances
//@ trusted
//@ ensures result == balancesOf(Bank, addr)
//@ spec delegationOf(o OtherState, d Addr, v Addr) stakingtypes.Delegation uninterpreted
//@ spec validatorOf(o OtherState, v Addr) stakingtypes.Validator uninterpreted
//@ func (k StakingKeeper) GetDelegation
//@ trusted
//@ ensures err == nil ==> result == delegationOf(Other, delAddr, valAddr)
// (the SDK staking keeper never returns an error registered by the restake module)
//@ ensures err != ErrUnableToUndelegate
//@ func (k StakingKeeper) GetValidator
//@ trusted
//@ ensures err == nil ==> result == validatorOf(Other, addr)
// (the SDK staking keeper never returns an error registered by the restake module)
//@ ensures err != ErrUnableToUndelegate
//@ spec modAcc(o OtherState, name Str) sdk.ModuleAccountI uninterpreted
//@ func (k AccountKeeper) GetModuleAccount
//@ trusted
//@ ensures result == modAcc(Other, name)
//@ func (k AccountKeeper) SetModuleAccount
//@ trusted
//@ modifies Other
// C16: an account's restaked power is the sum of its staked coins over the allowed denoms - each allowed denom counted
// ONCE. The code sums over the parameter list, so the list accepted by validation must not name a denom twice (with
// ["uband","uband"] 100 staked uband would count as 200 power, and a lock of 200 would be accepted).
//@ func (p Params) Validate
//@ ensures err == nil ==> (forall i Int, j Int :: 0 <= i && i < j && j < len(p.AllowedDenoms) ==> p.AllowedDenoms[i] != p.AllowedDenoms[j])
//@ loop 0: invariant forall a Int, b Int :: 0 <= a && a < b && b < #i ==> p.AllowedDenoms[a] != p.AllowedDenoms[b]
//@ loop 1: invariant forall a Int :: 0 <= a && a < #i ==> p.AllowedDenoms[a] != denom
