//go:build verif

package keeper

// Contracts for govc (see /verif/DESIGN.md). Comment-only file; compiled only under -tags verif.

// C02 / C09: genesis establishes the invariant the begin-blocker relies on: a 32-byte rolling seed
//@ func (k *Keeper) InitGenesis
//@ modifies Store_rollingseed
//@ ensures len(Store_rollingseed[types.RollingSeedStoreKey]) == 32
//@ ensures forall q Bz :: q != types.RollingSeedStoreKey ==> Store_rollingseed[q] == old(Store_rollingseed)[q]
