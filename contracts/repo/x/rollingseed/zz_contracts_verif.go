//go:build verif

package rollingseed

// Contracts for govc (see /verif/DESIGN.md). Comment-only file; compiled only under -tags verif.

// C02 / C09: the rolling seed is a 32-byte window over block hashes. Every block with a non-empty hash drops the oldest
// byte and appends the first byte of the block hash; the length never changes (so `rollingSeed[1:]` cannot go out of
// range and the DRBG seeded from it always gets 32 bytes), and nothing else in the store is touched.
//@ func BeginBlocker
//@ modifies Store_rollingseed
//@ requires len(Store_rollingseed[types.RollingSeedStoreKey]) == 32
//@ ensures err == nil
//@ ensures len(Store_rollingseed[types.RollingSeedStoreKey]) == 32
//@ ensures forall q Bz :: q != types.RollingSeedStoreKey ==> Store_rollingseed[q] == old(Store_rollingseed)[q]
//@ ensures len(ctx.HeaderHash()) == 0 ==> Store_rollingseed == old(Store_rollingseed)
//@ ensures len(ctx.HeaderHash()) > 0 ==> Store_rollingseed[types.RollingSeedStoreKey][31] == ctx.HeaderHash()[0] && (forall j :: 0 <= j && j < 31 ==> Store_rollingseed[types.RollingSeedStoreKey][j] == old(Store_rollingseed)[types.RollingSeedStoreKey][j + 1])

// ---- C02 / C14: the module's ABCI entry point returns exactly what its blocker returned --------------------------------
// (an error of the blocker must reach the SDK, which aborts the block; swallowing it would commit whatever the failed
// blocker had already written - e.g. a fee share taken from the fee collector but only partly paid out)
//@ func (am AppModule) BeginBlock
//@ may_panic calls
//@ modifies *
//@ forwards BeginBlocker
