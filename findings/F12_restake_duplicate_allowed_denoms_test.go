package keeper_test

// F12 (C16): demonstration against the real code. Place in /repo/x/restake/keeper/ (or use -overlay) and run
//   go test -vet=off -count=1 ./x/restake/keeper/ -run TestKeeperTestSuite -testify.m TestF12
// Before the repair, parameter validation accepted an allowed-denom list that names a denom twice; GetStakedPower sums
// over that list, so every staked coin of that denom counted twice towards the account's power and a lock above the
// real total power was accepted.

import (
	sdkmath "cosmossdk.io/math"

	"github.com/bandprotocol/chain/v3/x/restake/types"
)

func (suite *KeeperTestSuite) TestF12DuplicateAllowedDenomMustNotDoubleThePower() {
	ctx := suite.ctx
	suite.setupState() // ValidAddress3 has 10uband staked, nothing else

	err := suite.restakeKeeper.SetParams(ctx, types.NewParams([]string{"uband", "uband"}))
	if err != nil {
		return // repaired: the list is refused
	}
	power := suite.restakeKeeper.GetStakedPower(ctx, ValidAddress3)
	suite.Require().Equal(sdkmath.NewInt(10), power,
		"10uband are staked; a denom listed twice in the accepted parameters must not count them twice")
}
