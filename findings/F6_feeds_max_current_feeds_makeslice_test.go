package keeper_test

// Reproduction of finding F6 (property C02): parameter validation accepts any uint64 as MaxCurrentFeeds, and the
// feeds end-blocker allocates a slice of exactly that length every CurrentFeedsUpdateInterval blocks
// (GetSignalTotalPowersByPower: make([]types.Signal, limit)). With a large accepted value the end-blocker panics
// ("makeslice: len out of range") - for a parameter value that validation accepted.
//   go test -overlay <overlay placing this file at /repo/x/feeds/keeper/zz_f6_test.go> -vet=off -count=1 \
//       ./x/feeds/keeper/ -run TestKeeperTestSuite -testify.m TestF6

import (
	"math"
)

func (suite *KeeperTestSuite) TestF6MaxCurrentFeedsAcceptedByValidationMustNotPanicEndBlock() {
	params := suite.feedsKeeper.GetParams(suite.ctx)
	params.MaxCurrentFeeds = math.MaxUint64
	if err := suite.feedsKeeper.SetParams(suite.ctx, params); err != nil {
		return // rejected by validation: nothing to show
	}
	// what feeds.EndBlocker does at every height divisible by CurrentFeedsUpdateInterval
	suite.Require().NotPanics(func() {
		feeds := suite.feedsKeeper.CalculateNewCurrentFeeds(suite.ctx)
		suite.feedsKeeper.SetCurrentFeeds(suite.ctx, feeds)
	}, "the end-blocker panics with a parameter value that validation accepted")
}
