package keeper_test

// Reproduction of finding F11 (property C10, "signing_period and max_signing_attempt values"): a signing attempt's
// expiry height is uint64(height) + SigningPeriod. Parameter validation accepts any positive uint64; for a period close
// to 2^64 the sum wraps around to a height in the PAST, so the attempt counts as timed out at the very next end-block
// and the assigned members are penalised as idle although they had no time to sign.
//   go test -overlay <overlay placing this file at /repo/x/tss/keeper/zz_f11_test.go> -vet=off -count=1 \
//       ./x/tss/keeper/ -run TestKeeperTestSuite -testify.m TestF11

import (
	"math"

	"go.uber.org/mock/gomock"

	tsstestutil "github.com/bandprotocol/chain/v3/x/tss/testutil"
	"github.com/bandprotocol/chain/v3/x/tss/types"
)

func (s *KeeperTestSuite) TestF11HugeSigningPeriodMustNotExpireAtOnce() {
	ctx, k := s.ctx.WithBlockHeight(1000), s.keeper

	params := k.GetParams(ctx)
	params.SigningPeriod = math.MaxUint64
	if err := k.SetParams(ctx, params); err != nil {
		return // rejected by validation: nothing to show
	}
	groupCtx, err := tsstestutil.CompleteGroupCreation(ctx, k, 4, 2)
	s.Require().NoError(err)
	s.rollingseedKeeper.EXPECT().GetRollingSeed(gomock.Any()).
		Return([]byte("RandomStringThatShouldBeLongEnough")).AnyTimes()
	originator := types.NewDirectOriginator("targetChain", "band1m5lq9u533qaya4q3nfyl6ulzqkpkhge9q8tpzs", "test")
	signingID, err := k.RequestSigning(ctx, groupCtx.GroupID, &originator, &types.TextSignatureOrder{Message: []byte("test")})
	s.Require().NoError(err)

	signing, err := k.GetSigning(ctx, signingID)
	s.Require().NoError(err)
	sa, err := k.GetSigningAttempt(ctx, signingID, signing.CurrentAttempt)
	s.Require().NoError(err)
	s.Require().Greater(sa.ExpiredHeight, uint64(ctx.BlockHeight()),
		"the attempt started at height %d is already past its expiry height %d", ctx.BlockHeight(), sa.ExpiredHeight)
}
