package signaller

// F4 (C20): demonstration against the real code. Place in /repo/grogu/signaller/ (or use -overlay) and run
//   go test -vet=off -count=1 ./grogu/signaller/ -run TestF4
// Before the repair (float64 arithmetic) the moves below, which are exactly the threshold in exact arithmetic,
// were reported as not deviated.

import (
	"math/big"
	"testing"
)

func f4ExactDeviated(bp int64, oldP, newP uint64) bool {
	o := new(big.Int).SetUint64(oldP)
	d := new(big.Int).SetUint64(newP)
	d.Sub(d, o).Abs(d).Mul(d, big.NewInt(10000)).Quo(d, o)
	return d.Cmp(big.NewInt(bp)) >= 0
}

func TestF4IsDeviatedExactThresholdAbove2p53(t *testing.T) {
	cases := []struct {
		bp       int64
		old, new uint64
	}{
		{163, 23744025211066839, 24131052822007229},
		{722, 449430101102382357, 481878954401974364},
		{1001, 352300938430122879, 387566262366978180},
		{3, 3108170223774027615, 3109102674841159824},
		{1997, 253040835010160539, 303573089761689599},
		{553, 23082394534881375, 24358850952660316},
	}
	for _, c := range cases {
		if !f4ExactDeviated(c.bp, c.old, c.new) {
			t.Fatalf("bad case %v", c)
		}
		if !isDeviated(c.bp, c.old, c.new) {
			t.Errorf("price moved by at least %d bp (old=%d new=%d) but isDeviated says false", c.bp, c.old, c.new)
		}
	}
}
