package oracle_test

// Reproduction of finding F8 (properties C02 / C16): the restake staking hooks refuse ANY reduction of a delegator's
// bonded power below its locked power - including the involuntary one that the staking module performs when it slashes
// a redelegation. staking.Slash -> SlashRedelegation -> Unbond -> AfterDelegationModified returns
// ErrUnableToUndelegate, Slash returns that error, and Slash is called from the slashing and evidence begin-blockers:
// BeginBlock fails for a history that consists of ordinary transactions (delegate, lock power, redelegate) followed by
// a slashable infraction of the source validator.
//   go test -overlay <overlay placing this file at /repo/x/oracle/zz_f8_test.go> -vet=off -count=1 \
//       ./x/oracle/ -run TestABCITestSuite -testify.m TestF8

import (
	"time"

	tmproto "github.com/cometbft/cometbft/proto/tendermint/types"

	"cosmossdk.io/math"

	sdk "github.com/cosmos/cosmos-sdk/types"
	stakingtypes "github.com/cosmos/cosmos-sdk/x/staking/types"

	bandtesting "github.com/bandprotocol/chain/v3/testing"
)

func (s *ABCITestSuite) TestF8SlashingARedelegationOfLockedPowerMustNotFail() {
	require := s.Require()
	app := s.app
	now := time.Unix(1700000000, 0)
	ctx := app.BaseApp.NewUncachedContext(false, tmproto.Header{Height: 10, Time: now})

	delegator := bandtesting.Alice.Address
	src := bandtesting.Validators[0]
	dst := bandtesting.Validators[1]
	amount := math.NewInt(500000)

	// 1. an ordinary delegation to the source validator
	srcVal, err := app.StakingKeeper.GetValidator(ctx, src.ValAddress)
	require.NoError(err)
	_, err = app.StakingKeeper.Delegate(ctx, delegator, amount, stakingtypes.Unbonded, srcVal, true)
	require.NoError(err)

	// 2. the delegator locks all of that power in a restake vault (what a feeds vote does)
	require.NoError(app.RestakeKeeper.SetLockedPower(ctx, delegator, "feeds", amount))

	// 3. an ordinary redelegation to another validator, at height 10 (total bonded power unchanged: allowed)
	del, err := app.StakingKeeper.GetDelegation(ctx, delegator, src.ValAddress)
	require.NoError(err)
	_, err = app.StakingKeeper.BeginRedelegation(ctx, delegator, src.ValAddress, dst.ValAddress, del.Shares)
	require.NoError(err)

	// 4. the source validator is slashed for an infraction at height 9 (before the redelegation): what the slashing /
	// evidence begin-blockers do. The redelegated stake is slashed too, i.e. partly unbonded from the destination.
	ctx = ctx.WithBlockHeight(12)
	srcVal, err = app.StakingKeeper.GetValidator(ctx, src.ValAddress)
	require.NoError(err)
	consAddr, err := srcVal.GetConsAddr()
	require.NoError(err)
	power := srcVal.GetConsensusPower(sdk.DefaultPowerReduction)
	_, err = app.StakingKeeper.Slash(ctx, consAddr, 9, power, math.LegacyNewDecWithPrec(5, 2))
	require.NoError(err, "staking.Slash fails inside begin-block processing")
}
