package keeper_test

// Reproduction of finding F7 (property C09): parameter validation accepts any positive uint64 as SamplingTryCount,
// and GetRandomValidators converts it with int(...). From 2^63 on the conversion is negative, the best-of-N loop of
// bandrng.ChooseSomeMaxWeight runs zero times and returns nil, and the request is assigned ask_count EMPTY validator
// addresses instead of ask_count distinct eligible validators (or an error).
//   go test -overlay <overlay placing this file at /repo/x/oracle/keeper/zz_f7_test.go> -vet=off -count=1 \
//       ./x/oracle/keeper/ -run TestKeeperTestSuite -testify.m TestF7

import (
	"go.uber.org/mock/gomock"
)

func (suite *KeeperTestSuite) TestF7SamplingTryCountAcceptedByValidationMustSelectValidators() {
	ctx := suite.ctx
	k := suite.oracleKeeper
	require := suite.Require()
	suite.activeAllValidators()
	suite.mockIterateBondedValidatorsByPower()
	suite.rollingseedKeeper.EXPECT().GetRollingSeed(gomock.Any()).
		Return([]byte("ROLLING_SEED_1_WITH_LONG_ENOUGH_ENTROPY")).AnyTimes()

	params := k.GetParams(ctx)
	params.SamplingTryCount = 1 << 63
	if err := k.SetParams(ctx, params); err != nil {
		return // rejected by validation: nothing to show
	}
	vals, err := k.GetRandomValidators(ctx, 3, 1)
	if err != nil {
		return // an error is an allowed outcome
	}
	require.Len(vals, 3)
	for _, v := range vals {
		require.NotEmpty(v, "selected validator address is empty")
	}
}
