package oracle_test

// Reproduction of finding F5 (properties C02 / C14): parameter validation accepts an oracle reward percentage above
// 100. With such a value the begin-blocker asks the fee collector for more than it holds, the bank transfer fails,
// AllocateTokens returns the error and BeginBlock fails - for a parameter value that validation accepted.
//   go test -overlay <overlay placing this file at /repo/x/oracle/zz_f5_test.go> -vet=off -count=1 \
//       -run TestABCITestSuite -testify.m TestF5 ./x/oracle/

import (
	abci "github.com/cometbft/cometbft/abci/types"
	tmproto "github.com/cometbft/cometbft/proto/tendermint/types"

	"cosmossdk.io/core/header"

	sdk "github.com/cosmos/cosmos-sdk/types"
	authtypes "github.com/cosmos/cosmos-sdk/x/auth/types"
	minttypes "github.com/cosmos/cosmos-sdk/x/mint/types"

	bandtesting "github.com/bandprotocol/chain/v3/testing"
)

func (s *ABCITestSuite) TestF5RewardPercentageAbove100() {
	k := s.app.OracleKeeper
	ctx := s.app.BaseApp.NewUncachedContext(false, tmproto.Header{})
	require := s.Require()

	votes := []abci.VoteInfo{{
		Validator:   abci.Validator{Address: bandtesting.Validators[0].PubKey.Address(), Power: 70},
		BlockIdFlag: tmproto.BlockIDFlagCommit,
	}, {
		Validator:   abci.Validator{Address: bandtesting.Validators[1].PubKey.Address(), Power: 30},
		BlockIdFlag: tmproto.BlockIDFlagCommit,
	}}
	feeCollector := s.app.AccountKeeper.GetModuleAccount(ctx, authtypes.FeeCollectorName)
	require.NoError(s.app.BankKeeper.MintCoins(ctx, minttypes.ModuleName, sdk.NewCoins(sdk.NewInt64Coin("uband", 10000))))
	require.NoError(s.app.BankKeeper.SendCoinsFromModuleToModule(
		ctx, minttypes.ModuleName, authtypes.FeeCollectorName, sdk.NewCoins(sdk.NewInt64Coin("uband", 10000)),
	))
	s.app.AccountKeeper.SetAccount(ctx, feeCollector)
	require.NoError(k.Activate(ctx, bandtesting.Validators[1].ValAddress))

	params := k.GetParams(ctx)
	params.OracleRewardPercentage = 101
	if err := k.SetParams(ctx, params); err != nil {
		return // rejected by validation: nothing to show
	}
	_, err := s.app.BeginBlocker(
		ctx.WithHeaderInfo(header.Info{Hash: fromHex("ffffffffffffffffffffffffffffffffffffffffffffffffffffffffffffffff")}).
			WithVoteInfos(votes).
			WithProposer(bandtesting.Validators[0].ValAddress.Bytes()),
	)
	require.NoError(err, "BeginBlock fails with a parameter value that validation accepted")
}
