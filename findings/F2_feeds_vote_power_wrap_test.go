package keeper_test

// Reproduction of finding F2 (property C07): the sum of a vote's signal powers is computed in int64 with
// wrap-around, so a voter whose total power is 1e10 (the suite's mock restake keeper rejects any lock above
// that) can place 2^63-1 on two signals: the wrapped sum is 1 and the lock is accepted.
//   go test -overlay <overlay placing this file at /repo/x/feeds/keeper/zz_f2_test.go> -vet=off -count=1 \
//       -run TestKeeperTestSuite -testify.m TestF2 ./x/feeds/keeper/

import (
	"math"

	"github.com/bandprotocol/chain/v3/x/feeds/types"
)

func (suite *KeeperTestSuite) TestF2VotePowerSumMustNotWrap() {
	signals := []types.Signal{
		{ID: "CS:AAA-USD", Power: math.MaxInt64},
		{ID: "CS:BBB-USD", Power: math.MaxInt64},
		{ID: "CS:CCC-USD", Power: 3},
	}
	suite.Require().Equal(int64(1), types.SumPower(signals), "int64 sum wraps to 1")
	err := suite.feedsKeeper.LockVoterPower(suite.ctx, ValidVoter, signals)
	suite.Require().Error(err, "a vote worth 2^64+1 must not be accepted from a voter with total power 1e10")
}
