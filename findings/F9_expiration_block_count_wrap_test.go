package keeper_test

// Reproduction of finding F9 (property C01, "for all expiration_block_count values"): ProcessExpiredRequests converts
// the parameter with int64(...) and adds it to the request height. Parameter validation accepts any positive uint64;
// from 2^63 on the conversion is negative (and for values just below 2^63 the sum overflows), so a request "expires" at
// the end of the very block it was made in - before any validator could report - and the asked validators are
// deactivated for a miss they never had a chance to avoid.
//   go test -overlay <overlay placing this file at /repo/x/oracle/keeper/zz_f9_test.go> -vet=off -count=1 \
//       ./x/oracle/keeper/ -run TestKeeperTestSuite -testify.m TestF9

import (
	"math"

	"github.com/bandprotocol/chain/v3/x/oracle/types"
)

func (suite *KeeperTestSuite) TestF9HugeExpirationWindowMustNotExpireAtOnce() {
	suite.activeAllValidators()
	k := suite.oracleKeeper
	require := suite.Require()

	for _, count := range []uint64{1 << 63, math.MaxInt64, math.MaxUint64} {
		ctx := suite.ctx.WithBlockHeight(100)
		params := k.GetParams(ctx)
		params.ExpirationBlockCount = count
		if err := k.SetParams(ctx, params); err != nil {
			continue // rejected by validation: nothing to show for this value
		}
		req := defaultRequest()
		req.RequestHeight = 100
		req.RequestTime = ctx.BlockHeader().Time.Unix() + 1
		id := k.AddRequest(ctx, req)

		k.ProcessExpiredRequests(ctx) // end of the block in which the request was made
		require.True(k.HasRequest(ctx, id), "expiration_block_count=%d: request expired in its own block", count)
		require.False(k.HasResult(ctx, id), "expiration_block_count=%d: request got an EXPIRED result in its own block", count)
		_ = types.RESOLVE_STATUS_EXPIRED
	}
}
