package yoda

// Reproduction of finding F1 (property C19): GetExecutable slices resValue[:32] for a debug line, which
// panics for data-source executables shorter than 32 bytes that arrive through the RPC path (the
// protobuf-decoded slice has a small capacity). Run with:
//   go test -overlay <overlay placing this file at /repo/yoda/zz_f1_test.go> -vet=off -count=1 -run TestF1 ./yoda/

import (
	"context"
	"testing"
	"time"

	"github.com/spf13/viper"

	cmtbytes "github.com/cometbft/cometbft/libs/bytes"
	rpcclient "github.com/cometbft/cometbft/rpc/client"
	ctypes "github.com/cometbft/cometbft/rpc/core/types"

	dbm "github.com/cosmos/cosmos-db"

	"cosmossdk.io/log"

	"github.com/cosmos/cosmos-sdk/client/flags"

	band "github.com/bandprotocol/chain/v3/app"
	"github.com/bandprotocol/chain/v3/pkg/filecache"
	"github.com/bandprotocol/chain/v3/x/oracle/types"
)

type f1Client struct {
	rpcclient.Client
	value []byte
}

func (m *f1Client) ABCIQuery(_ context.Context, _ string, _ cmtbytes.HexBytes) (*ctypes.ResultABCIQuery, error) {
	res := &ctypes.ResultABCIQuery{}
	res.Response.Value = m.value
	return res, nil
}

func TestF1ShortExecutableDoesNotPanic(t *testing.T) {
	dir := t.TempDir()
	opts := viper.New()
	opts.Set(flags.FlagHome, dir)
	app := band.NewBandApp(log.NewNopLogger(), dbm.NewMemDB(), nil, true, map[int64]bool{}, dir, opts, 100)
	exe := []byte("#!x") // 3 bytes: a legal executable (MsgCreateDataSource only requires non-empty)
	c := &Context{
		bandApp:         app,
		client:          &f1Client{value: app.AppCodec().MustMarshal(&types.QueryDataResponse{Data: exe})},
		fileCache:       filecache.New(t.TempDir()),
		maxTry:          1,
		rpcPollInterval: time.Millisecond,
	}
	lvl, _ := log.ParseLogLevel("error")
	l := NewLogger(lvl)
	defer func() {
		if r := recover(); r != nil {
			t.Fatalf("GetExecutable panicked on a %d-byte executable: %v", len(exe), r)
		}
	}()
	got, err := GetExecutable(c, l, filecache.GetFilename(exe))
	if err != nil || string(got) != string(exe) {
		t.Fatalf("unexpected result %q, %v", got, err)
	}
}
