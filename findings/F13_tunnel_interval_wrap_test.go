package keeper_test

// F13 (C08): demonstration against the real code. Place in /repo/x/tunnel/keeper/ (or use -overlay) and run
//   go test -vet=off -count=1 ./x/tunnel/keeper/ -run TestKeeperTestSuite -testify.m TestF13
// Before the repair, ProducePacket computed int64(tunnel.Interval) + LastInterval: with an interval of 2^63 or more
// (accepted when governance sets max_interval that high: validation has no upper bound) the sum is negative and the
// "interval elapsed" test is true in every block, so a full packet is produced - and the fee charged - every block
// although neither the interval has passed nor any price has moved.

import (
	sdkmath "cosmossdk.io/math"

	sdk "github.com/cosmos/cosmos-sdk/types"

	"go.uber.org/mock/gomock"

	bandtsstypes "github.com/bandprotocol/chain/v3/x/bandtss/types"
	feedstypes "github.com/bandprotocol/chain/v3/x/feeds/types"
	"github.com/bandprotocol/chain/v3/x/tunnel/types"
)

func (s *KeeperTestSuite) TestF13HugeIntervalMustNotSendEveryBlock() {
	ctx, k := s.ctx, s.keeper

	params := k.GetParams(ctx)
	params.MaxInterval = ^uint64(0)
	s.Require().NoError(k.SetParams(ctx, params), "validation accepts any max interval")
	interval := uint64(1) << 63
	s.Require().NoError(types.ValidateInterval(interval, params.MaxInterval, params.MinInterval), "the interval is within the accepted range")

	feePayer := sdk.AccAddress([]byte("fee_payer_address"))
	tunnel := types.Tunnel{
		ID: 1, FeePayer: feePayer.String(), IsActive: true, Interval: interval,
		SignalDeviations: []types.SignalDeviation{{SignalID: "CS:BAND-USD", SoftDeviationBPS: 1000, HardDeviationBPS: 1000}},
		CreatedAt:        ctx.BlockTime().Unix(),
	}
	s.Require().NoError(tunnel.SetRoute(&types.TSSRoute{DestinationChainID: "chain-1", DestinationContractAddress: "0x1234567890abcdef"}))
	k.SetTunnel(ctx, tunnel)

	// a full send has just happened (LastInterval == now) and the price has not moved since
	now := ctx.BlockTime().Unix()
	price := feedstypes.Price{Status: feedstypes.PRICE_STATUS_AVAILABLE, SignalID: "CS:BAND-USD", Price: 50000, Timestamp: now}
	k.SetLatestPrices(ctx, types.NewLatestPrices(1, []feedstypes.Price{price}, now))

	// whatever the route needs, should a packet be (wrongly) produced
	s.bankKeeper.EXPECT().SendCoinsFromAccountToModule(gomock.Any(), gomock.Any(), gomock.Any(), gomock.Any()).Return(nil).AnyTimes()
	s.bandtssKeeper.EXPECT().GetSigningFee(gomock.Any()).Return(sdk.NewCoins(sdk.NewCoin("uband", sdkmath.NewInt(20))), nil).AnyTimes()
	s.bandtssKeeper.EXPECT().CreateTunnelSigningRequest(gomock.Any(), gomock.Any(), gomock.Any(), gomock.Any(), gomock.Any(), gomock.Any(), gomock.Any()).
		Return(bandtsstypes.SigningID(1), nil).AnyTimes()

	err := k.ProducePacket(ctx, 1, map[string]feedstypes.Price{"CS:BAND-USD": price})
	s.Require().NoError(err)
	got, err := k.GetTunnel(ctx, 1)
	s.Require().NoError(err)
	s.Require().Equal(uint64(0), got.Sequence,
		"no packet is due: the interval (2^63 s) has not elapsed since the full send of this very block and no price moved")
}
