package keeper_test

// Reproduction of finding F10 (property C15, "for all ... penalty parameters"): Activate converts the
// InactivePenaltyDuration parameter with time.Duration(...) (an int64). Parameter validation accepts any uint64; from
// 2^63 on the conversion is negative, `Since + penalty` lies in the past, and a validator that was deactivated a moment
// ago can re-activate at once - the inactivity penalty never applies.
//   go test -overlay <overlay placing this file at /repo/x/oracle/keeper/zz_f10_test.go> -vet=off -count=1 \
//       ./x/oracle/keeper/ -run TestKeeperTestSuite -testify.m TestF10

import (
	"time"

	"github.com/bandprotocol/chain/v3/x/oracle/types"
)

func (suite *KeeperTestSuite) TestF10HugeInactivePenaltyMustStillApply() {
	k := suite.oracleKeeper
	require := suite.Require()
	now := time.Now().UTC()
	ctx := suite.ctx.WithBlockTime(now)

	params := k.GetParams(ctx)
	params.InactivePenaltyDuration = 1 << 63
	if err := k.SetParams(ctx, params); err != nil {
		return // rejected by validation: nothing to show
	}
	val := validators[0].Address
	require.NoError(k.Activate(ctx, val))
	// deactivated for a miss one minute later
	k.MissReport(ctx.WithBlockTime(now.Add(time.Minute)), val, now.Add(time.Second))
	require.False(k.GetValidatorStatus(ctx, val).IsActive)
	// one second after that the validator tries to come back: the (huge) penalty has certainly not elapsed
	err := k.Activate(ctx.WithBlockTime(now.Add(time.Minute+time.Second)), val)
	require.ErrorIs(err, types.ErrTooSoonToActivate)
}
